#!/bin/sh
# usage: [SEED_ROOT=/tmp/seed2_ SEED_NAMES="a:c b:d"] tools/seed_all.sh C01 C02 ...
# validates $SEED_ROOT<ID>/out/{a,b} (author's worktree re-used: demos assert its path) and saves them under seeded/
cd "$(dirname "$0")/.." || exit 2
root="${SEED_ROOT:-/tmp/seed_}"
names="${SEED_NAMES:-a:a b:b}"
for id in "$@"; do
  for pair in $names; do
    x="${pair%%:*}"; y="${pair##*:}"
    d="$root$id/out/$x"
    [ -f "$d/patch.diff" ] || { echo "$id-$y: no patch"; continue; }
    /venv/bin/python tools/seedcheck.py "$d" --props "$id" --worktree "$root$id" --save "seeded/$id-$y" > "/tmp/seedres_$id-$y.json" 2>&1
    /venv/bin/python - "$id-$y" <<'PY'
import json,sys
n=sys.argv[1]
try:
    r=json.load(open('/tmp/seedres_%s.json'%n))
    c=r.get('checks',{})
    print(n,'valid_seed=%s'%r.get('valid_seed'),'demo_without=%s demo_with=%s suite=%s'%(r.get('demo_without'),r.get('demo_with'),r.get('suite_tail','')[:40]),{k:(v['verdict'],v['kinds'][:2]) for k,v in c.items()})
except Exception as e:
    print(n,'ERROR',e, open('/tmp/seedres_%s.json'%n).read()[-400:])
PY
  done
done
