#!/bin/sh
# usage: tools/seed_all.sh C01 C02 ...   (validates /tmp/seed_<ID>/out/{a,b} and saves them under seeded/)
cd "$(dirname "$0")/.." || exit 2
for id in "$@"; do
  for x in a b; do
    d=/tmp/seed_$id/out/$x
    [ -f "$d/patch.diff" ] || { echo "$id-$x: no patch"; continue; }
    /venv/bin/python tools/seedcheck.py "$d" --props "$id" --worktree "/tmp/seed_$id" --save "seeded/$id-$x" > "/tmp/seedres_$id-$x.json" 2>&1
    /venv/bin/python - "$id-$x" <<'PY'
import json,sys
n=sys.argv[1]
try:
    r=json.load(open('/tmp/seedres_%s.json'%n))
    c=r.get('checks',{})
    print(n,'valid_seed=%s'%r.get('valid_seed'),'demo_without=%s demo_with=%s suite=%s'%(r.get('demo_without'),r.get('demo_with'),r.get('suite_tail','')[:60]),{k:(v['verdict'],v['kinds'][:2]) for k,v in c.items()})
except Exception as e:
    print(n,'ERROR',e, open('/tmp/seedres_%s.json'%n).read()[-400:])
PY
  done
done
