"""Validate a seeded defect and run the checks against it -- in a scratch worktree, never in /repo.

usage: python tools/seedcheck.py <dir with patch.diff + demo.py [+ meta.json]> [--props C01,C05] [--tier quick]
                                 [--skip-suite] [--save seeded/<name>]
Steps: scratch `git worktree` of /repo HEAD -> demo passes -> apply patch -> demo fails ->
existing suite still passes -> each listed check must report VIOLATION (exit 1).
"""
import argparse
import json
import os
import re
import shutil
import subprocess
import sys
import tempfile

HERE = os.path.dirname(os.path.dirname(os.path.abspath(__file__)))
PY = '/venv/bin/python'


def sh(cmd, cwd=None, env=None, timeout=3600):
    p = subprocess.run(cmd, cwd=cwd, env=env, stdout=subprocess.PIPE, stderr=subprocess.STDOUT, text=True, timeout=timeout)
    return p.returncode, p.stdout


def main():
    ap = argparse.ArgumentParser()
    ap.add_argument('src')
    ap.add_argument('--props')
    ap.add_argument('--tier', default='quick')
    ap.add_argument('--skip-suite', action='store_true')
    ap.add_argument('--save')
    ap.add_argument('--workers', default='16')
    ap.add_argument('--worktree', help='reuse this existing clean worktree (demos may assert its path); it is restored afterwards')
    a = ap.parse_args()
    src = os.path.abspath(a.src)
    meta = {}
    if os.path.exists(os.path.join(src, 'meta.json')):
        try:
            meta = json.load(open(os.path.join(src, 'meta.json')))
        except Exception:
            meta = {}
    props = a.props.split(',') if a.props else [meta.get('property')]
    res = {'patch': os.path.join(src, 'patch.diff')}
    own = not a.worktree
    if own:
        wt = tempfile.mkdtemp(prefix='seedwt_')
        os.rmdir(wt)
    else:
        wt = os.path.abspath(a.worktree)
    try:
        if own:
            rc, out = sh(['git', '-C', '/repo', 'worktree', 'add', '-q', '--detach', wt, 'HEAD'])
            assert rc == 0, out
        else:
            rc, out = sh(['git', '-C', wt, 'status', '--porcelain', '--untracked-files=no'])
            assert rc == 0 and not out.strip(), 'worktree not clean: ' + out
            rc, head = sh(['git', '-C', '/repo', 'rev-parse', 'HEAD'])
            rc, out = sh(['git', '-C', wt, 'checkout', '-q', '--detach', head.strip()])
            assert rc == 0, out
            res['head'] = head.strip()[:10]
        env = dict(os.environ, PYTHONPATH=wt, PYTHONDONTWRITEBYTECODE='1')
        rc, out = sh([PY, os.path.join(src, 'demo.py')], cwd=wt, env=env, timeout=600)
        res['demo_without'] = rc
        rc2, out2 = sh(['git', '-C', wt, 'apply', os.path.join(src, 'patch.diff')])
        if rc2 != 0:
            rc2, out2 = sh(['patch', '-p1', '-i', os.path.join(src, 'patch.diff')], cwd=wt)
        res['patch_applies'] = rc2 == 0
        if rc2 != 0:
            res['patch_error'] = out2[-500:]
        rc, out = sh([PY, os.path.join(src, 'demo.py')], cwd=wt, env=env, timeout=600)
        res['demo_with'] = rc
        res['demo_with_tail'] = out[-300:]
        if not a.skip_suite:
            rc, out = sh([PY, '-m', 'pytest', 'tests', '-q', '-n', '12', '-p', 'no:cacheprovider', '-p', 'no:randomly',
                          '--continue-on-collection-errors'], cwd=wt, env=dict(os.environ, PYTHONDONTWRITEBYTECODE='1'), timeout=1800)
            tail = out.strip().splitlines()[-1] if out.strip() else ''
            res['suite_tail'] = tail
            m = re.search(r'(\d+) passed', tail)
            res['suite_ok'] = bool(m) and int(m.group(1)) >= 3434 and 'failed' not in tail
        checks = {}
        for pid in props:
            if not pid:
                continue
            env2 = dict(os.environ, FALCON_REPO=wt, MC_WORKERS=a.workers, MC_EVIDENCE_DIR=os.path.join(wt, '.mcout'))
            rc, out = sh([os.path.join(HERE, 'check'), pid, a.tier], env=env2, timeout=7200)
            kinds = [l.strip()[6:] for l in out.splitlines() if l.strip().startswith('kind:')][:4]
            checks[pid] = {'exit': rc, 'verdict': {0: 'MISSED', 1: 'CAUGHT'}.get(rc, 'BROKEN'), 'kinds': kinds,
                           'last': (out.strip().splitlines() or [''])[-1][-200:]}
            if rc not in (0, 1):
                checks[pid]['output_tail'] = out[-1500:]
        res['checks'] = checks
    finally:
        if own:
            sh(['git', '-C', '/repo', 'worktree', 'remove', '--force', wt])
            shutil.rmtree(wt, ignore_errors=True)
            sh(['git', '-C', '/repo', 'worktree', 'prune'])
        else:
            sh(['git', '-C', wt, 'checkout', '--', '.'])
            shutil.rmtree(os.path.join(wt, '.mcout'), ignore_errors=True)
    res['valid_seed'] = (res.get('demo_without') == 0 and res.get('patch_applies') and res.get('demo_with') not in (0, None)
                         and (a.skip_suite or res.get('suite_ok')))
    print(json.dumps(res, indent=1))
    if a.save:
        dst = os.path.join(HERE, a.save)
        os.makedirs(dst, exist_ok=True)
        for f in ('patch.diff', 'demo.py'):
            if os.path.abspath(os.path.join(src, f)) != os.path.abspath(os.path.join(dst, f)):
                shutil.copy(os.path.join(src, f), os.path.join(dst, f))
        meta['verified_by_seedcheck'] = {k: v for k, v in res.items() if k != 'patch'}
        meta['ran'] = ['tools/seedcheck.py: demo without/with the patch, full test suite with the patch, ./check <props> %s with FALCON_REPO=<scratch worktree>' % a.tier]
        with open(os.path.join(dst, 'meta.json'), 'w') as f:
            json.dump(meta, f, indent=1)


if __name__ == '__main__':
    main()
