"""Regenerate the table of seeded changes at the end of DESIGN.md section 10.7 from seeded/*/meta.json.

usage: python tools/gen_seed_table.py            (rewrites DESIGN.md in place; prints a summary)
The table starts at the line beginning with '| seeded id |' and runs to the end of the file.
"""
import glob
import json
import os
import re

HERE = os.path.dirname(os.path.dirname(os.path.abspath(__file__)))
HEAD = '| seeded id | change | needs, to manifest | first violation kind reported |'


def cell(s, n):
    s = re.sub(r'\s+', ' ', str(s or '')).replace('|', '/')
    return s[:n]


def main():
    rows = []
    bad = []
    for d in sorted(x for x in glob.glob(os.path.join(HERE, 'seeded', '*')) if os.path.isdir(x)):
        name = os.path.basename(d)
        try:
            m = json.load(open(os.path.join(d, 'meta.json')))
        except Exception as e:  # noqa: BLE001
            bad.append((name, 'meta: %s' % e))
            continue
        v = m.get('verified_by_seedcheck') or {}
        pid = name.split('-')[0]
        chk = (v.get('checks') or {}).get(pid) or {}
        kind = ''
        if chk.get('kinds'):
            try:
                kind = json.loads(chk['kinds'][0]).get('kind', '')
            except Exception:  # noqa: BLE001
                kind = chk['kinds'][0][:40]
        if chk.get('verdict') != 'CAUGHT':
            # caught by the check of ANOTHER property (the change was filed under this one by its author)
            for other, oc in sorted((v.get('checks') or {}).items()):
                if oc.get('verdict') == 'CAUGHT' and oc.get('kinds'):
                    try:
                        kind = 'by %s: %s' % (other, json.loads(oc['kinds'][0]).get('kind', ''))
                    except Exception:  # noqa: BLE001
                        kind = 'by %s' % other
                    chk = oc
                    break
        if not v.get('valid_seed') or chk.get('verdict') != 'CAUGHT':
            bad.append((name, 'valid=%s verdict=%s' % (v.get('valid_seed'), chk.get('verdict'))))
        rows.append('| %s | %s | %s | `%s` |' % (name, cell(m.get('title'), 140), cell(m.get('needs_to_manifest'), 170), kind))
    p = os.path.join(HERE, 'DESIGN.md')
    text = open(p).read()
    i = text.index(HEAD)
    text = text[:i] + HEAD + '\n|-----------|--------|--------------------|-------------------------------|\n' + '\n'.join(rows) + '\n'
    open(p, 'w').write(text)
    print('%d seeded changes in the table; not valid+caught: %r' % (len(rows), bad))


if __name__ == '__main__':
    main()
