"""Replay fidelity: for a seeded change, every replay file the check writes must reproduce the violation on the
changed tree (stand-alone, in a fresh process, without the explorer) and must report no violation on the unchanged tree.

usage: python tools/replaycheck.py seeded/C01-a [seeded/C02-b ...] [--max 3]
Works in a scratch `git worktree` of /repo HEAD (removed afterwards); evidence and replays go to a scratch directory.
Exit 0 when every replay behaved as stated, 1 otherwise.
"""
import argparse
import glob
import json
import os
import shutil
import subprocess
import sys
import tempfile

HERE = os.path.dirname(os.path.dirname(os.path.abspath(__file__)))


def sh(cmd, env=None, cwd=None, timeout=3600):
    p = subprocess.run(cmd, env=env, cwd=cwd, stdout=subprocess.PIPE, stderr=subprocess.STDOUT, text=True, timeout=timeout)
    return p.returncode, p.stdout


def verdict(out):
    for line in out.splitlines():
        if '"violation"' in line:
            return 'true' in line
    return None


def main():
    ap = argparse.ArgumentParser()
    ap.add_argument('seeds', nargs='+')
    ap.add_argument('--max', type=int, default=3)
    a = ap.parse_args()
    bad = 0
    for sd in a.seeds:
        sd = sd.rstrip('/')
        name = os.path.basename(sd)
        pid = name.split('-')[0]
        wt = tempfile.mkdtemp(prefix='rpwt_')
        os.rmdir(wt)
        ev = tempfile.mkdtemp(prefix='rpev_')
        try:
            rc, out = sh(['git', '-C', '/repo', 'worktree', 'add', '-q', '--detach', wt, 'HEAD'])
            assert rc == 0, out
            rc, out = sh(['git', '-C', wt, 'apply', os.path.join(HERE, sd, 'patch.diff')])
            assert rc == 0, out
            env = dict(os.environ, FALCON_REPO=wt, MC_EVIDENCE_DIR=ev)
            rc, out = sh([os.path.join(HERE, 'check'), pid, 'quick'], env=env)
            files = sorted(glob.glob(os.path.join(ev, 'replays', pid, '*.json')))[:a.max]
            if rc != 1 or not files:
                print('%s: check exit %s, %d replay files -- NOT OK' % (name, rc, len(files)))
                bad += 1
                continue
            res = []
            for f in files:
                r1 = verdict(sh([os.path.join(HERE, 'check'), pid, '--replay', f], env=dict(os.environ, FALCON_REPO=wt))[1])
                r2 = verdict(sh([os.path.join(HERE, 'check'), pid, '--replay', f], env=dict(os.environ))[1])
                kind = json.load(open(f)).get('signature', {})
                res.append((r1, r2))
                if r1 is not True or r2 is not False:
                    bad += 1
                    print('%s: replay %s (%s): on the changed tree %s, on the unchanged tree %s -- NOT OK'
                          % (name, os.path.basename(f), kind, r1, r2))
            print('%s: %d replays, reproduced on the changed tree / silent on the unchanged tree: %s'
                  % (name, len(files), 'all' if all(x == (True, False) for x in res) else res), flush=True)
        finally:
            sh(['git', '-C', '/repo', 'worktree', 'remove', '--force', wt])
            shutil.rmtree(wt, ignore_errors=True)
            shutil.rmtree(ev, ignore_errors=True)
            sh(['git', '-C', '/repo', 'worktree', 'prune'])
    sys.exit(1 if bad else 0)


if __name__ == '__main__':
    main()
