"""Regenerates MANIFEST.json from the table below (keeps it valid at all times)."""
import json
import os

HERE = os.path.dirname(os.path.dirname(os.path.abspath(__file__)))
BASELINE = ("cd /repo && /venv/bin/python -m pytest -ra -q -p no:cacheprovider --timeout=900 "
            "--continue-on-collection-errors")

# id -> (engine, technique, level text, level note)
CHECKS = {}


def reg(pid, engine, technique, text, note, section):
    CHECKS[pid] = dict(engine=engine, technique=technique, text=text, note=note, section=section)


reg('C14', 'SEQ+ENUM',
    'explicit-state BFS to closure over reader operation histories, lockstep with a flat-cursor reference model',
    'For every configuration (data x source chunking x chunk size x declared length) the complete reachable state graph of the real '
    'sync and async BufferedReader under 40 operations (incl. nested delimit) is explored to closure; every transition is compared '
    'with a cursor over the flat byte string (return value, DelimiterError, tell/eof, sizes requested from the source). '
    'Exhaustive within the stated data/chunk bounds; history length is unbounded because the state space is closed.',
    'pure-Python readers from the working tree; canonical state = full attribute and generator-frame state; the stale compiled '
    'cyutil reader artifact cannot be rebuilt offline and is not covered', 'DESIGN.md section 5 C14')

reg('C07', 'SEQ+ENUM',
    'explicit-state BFS to closure over stream operation histories per (body, Content-Length, server chunking) configuration, invariant + io-semantics oracle on a flat cursor',
    'For every configuration (bytes sent x Content-Length absent/shorter/exact/longer x wsgi.input kind or ASGI event shape incl. missing keys, empty and '
    'oversized chunks and a disconnect at every position) the reachable state graph of the real WSGI and ASGI BoundedStream (through Request and directly) '
    'is explored to closure; on every transition: returned bytes are a prefix of body[:CL], sized reads are bounded, the fake server records that it was '
    'never asked for bytes beyond CL / never awaited after the last event, eof and tell() agree with the cursor.',
    'pure-Python streams from the working tree; blocking modelled by WouldBlock; exact io-semantics only for a buffered wsgi.input', 'DESIGN.md section 5 C07')

reg('C01', 'SEQ+ENUM',
    'bounded-exhaustive enumeration of add_route histories (accepted and rejected, lazy and eager compile) x representative paths, lockstep with a transactional reference router (interpretive DFS)',
    'Every history of <=2 adds over 181 templates (13 segment kinds, depth <=2, 12 must-be-rejected shapes), <=3 adds over a 25-template core '
    '(thorough: depth-3 templates, <=4 adds, quote/backslash literals) is run on a fresh CompiledRouter and on an independent reference router; '
    'after every add the accept/reject outcome, the tree shape and every lookup over the complete representative path set of that history '
    '(matched resource, uri_template, exact typed params; no exception) are compared.',
    'pure-Python router from the working tree; ASCII segment alphabet without newline; built-in converters int/uuid/path', 'DESIGN.md section 5 C01')

reg('C18', 'AIO+CHOICE',
    'stateless exhaustive exploration of all interleavings of loop steps and environment events on a hand-stepped asyncio loop, invariant oracle on every state',
    'A real falcon.asgi.App serves one WebSocket on a virtual event loop; after a deterministic handshake prelude EVERY interleaving of '
    '{next ready loop handle, server delivery, gated application step, send completion, external cancel} is enumerated for k<=3 (thorough 4) '
    'deliveries, capacities 0-4 and four application shapes; FIFO/lossless prefix, queue bound, disconnect ordering, no lost wake-up at idle points, '
    'and clean termination are checked after every step and in every terminal state.',
    'asyncio FIFO ready-queue discipline is kept (specified); held messages measured externally (pulls issued - messages returned); fake server '
    'keeps a delivered-but-unconsumed message on cancellation like asyncio.Queue', 'DESIGN.md section 5 C18')

PENDING = {}

ALL = ['C%02d' % i for i in range(1, 21)]


def main():
    checks = []
    for pid in ALL:
        if pid not in CHECKS:
            continue
        c = CHECKS[pid]
        checks.append({
            'property_id': pid,
            'quick_cmd': './check %s quick' % pid,
            'thorough_cmd': './check %s thorough' % pid,
            'evidence_file': 'evidence/%s.json' % pid,
            'replay_cmd_template': './check %s --replay {path}' % pid,
            'engine': c['engine'],
            'level_claimed': {'category': 'model_checking', 'text': c['text'], 'design_ref': c['section']},
            'level_note': c['note'],
            'technique': c['technique'],
        })
    na = [{'property_id': p, 'reason': PENDING.get(p, 'check not built yet in this round (model checking applies; see DESIGN.md section 5)')}
          for p in ALL if p not in CHECKS]
    man = {
        'version': 1,
        'setup_cmd': 'true',
        'hooks': {
            'guard': 'FALCON_VERIF',
            'enable': 'none needed: checks import the .py sources of /repo directly (mc/core/srcload.py); no source hooks exist',
            'baseline_off_cmd': BASELINE,
            'source_commits': [],
            'add_only': True,
        },
        'engines': [
            {'name': 'CHOICE', 'path': 'mc/core/choice.py', 'kind_free_text': 'deviation-bounded DFS over choice sequences (stateless exploration of the real code)'},
            {'name': 'SEQ', 'path': 'mc/core/seq.py', 'kind_free_text': 'explicit-state BFS over operation histories with complete-state hashing, lockstep reference model'},
            {'name': 'ENUM', 'path': 'mc/core/enumx.py', 'kind_free_text': 'bounded-exhaustive input/configuration enumeration'},
            {'name': 'AIO', 'path': 'mc/core/vloop.py', 'kind_free_text': 'hand-stepped asyncio loop; environment events are choices'},
            {'name': 'THR', 'path': 'mc/core/thr.py', 'kind_free_text': 'preemption-bounded thread scheduler (settrace + baton)'},
        ],
        'checks': checks,
        'not_applicable': na,
        'notes': ('Checks import falcon from the .py sources of /repo (the git-ignored Cython .so files next to them are stale build output '
                  'that cannot be rebuilt offline: no Cython in this image); edits to .pyx files are therefore invisible to every check. '
                  'Exit codes: 0 held, 1 VIOLATION, 2 harness error.'),
    }
    for e in man['engines']:
        e['serves_properties'] = [p for p, c in CHECKS.items() if e['name'] in c['engine']]
    with open(os.path.join(HERE, 'MANIFEST.json'), 'w') as f:
        json.dump(man, f, indent=1)


if __name__ == '__main__':
    main()
