"""Regenerates MANIFEST.json from the table below (keeps it valid at all times)."""
import json
import os

HERE = os.path.dirname(os.path.dirname(os.path.abspath(__file__)))
BASELINE = ("cd /repo && /venv/bin/python -m pytest -ra -q -p no:cacheprovider --timeout=900 "
            "--continue-on-collection-errors")

# id -> (engine, technique, level text, level note)
CHECKS = {}


def reg(pid, engine, technique, text, note, section):
    CHECKS[pid] = dict(engine=engine, technique=technique, text=text, note=note, section=section)


reg('C14', 'SEQ+ENUM',
    'explicit-state BFS to closure over reader operation histories, lockstep with a flat-cursor reference model',
    'For every configuration (data x source chunking x chunk size x declared length) the complete reachable state graph of the real '
    'sync and async BufferedReader under 40 operations (incl. nested delimit) is explored to closure; every transition is compared '
    'with a cursor over the flat byte string (return value, DelimiterError, tell/eof, sizes requested from the source). '
    'Exhaustive within the stated data/chunk bounds; history length is unbounded because the state space is closed.',
    'pure-Python readers from the working tree; canonical state = full attribute and generator-frame state; the stale compiled '
    'cyutil reader artifact cannot be rebuilt offline and is not covered', 'DESIGN.md section 5 C14')

reg('C07', 'SEQ+ENUM',
    'explicit-state BFS to closure over stream operation histories per (body, Content-Length, server chunking) configuration, invariant + io-semantics oracle on a flat cursor',
    'For every configuration (bytes sent x Content-Length absent/shorter/exact/longer x wsgi.input kind or ASGI event shape incl. missing keys, empty and '
    'oversized chunks and a disconnect at every position) the reachable state graph of the real WSGI and ASGI BoundedStream (through Request and directly) '
    'is explored to closure; on every transition: returned bytes are a prefix of body[:CL], sized reads are bounded, the fake server records that it was '
    'never asked for bytes beyond CL / never awaited after the last event, eof and tell() agree with the cursor.',
    'pure-Python streams from the working tree; blocking modelled by WouldBlock; exact io-semantics only for a buffered wsgi.input', 'DESIGN.md section 5 C07')

reg('C01', 'SEQ+ENUM',
    'bounded-exhaustive enumeration of add_route histories (accepted and rejected, lazy and eager compile) x representative paths, lockstep with a transactional reference router (interpretive DFS)',
    'Every history of <=2 adds over 203 templates (13 segment kinds, depth <=2, 12 must-be-rejected shapes), float/dt converter kinds next to their fall-back templates, <=3 adds over a 25-template core '
    '(thorough: depth-3 templates, <=4 adds, quote/backslash literals) is run on a fresh CompiledRouter and on an independent reference router; '
    'after every add the accept/reject outcome, the tree shape and every lookup over the complete representative path set of that history '
    '(matched resource, uri_template, exact typed params; no exception) are compared.',
    'pure-Python router from the working tree; ASCII segment alphabet without newline; built-in converters int/uuid/path/float/dt', 'DESIGN.md section 5 C01')

reg('C18', 'AIO+CHOICE',
    'stateless exhaustive exploration of all interleavings of loop steps and environment events on a hand-stepped asyncio loop, invariant oracle on every state',
    'A real falcon.asgi.App serves one WebSocket on a virtual event loop; after a deterministic handshake prelude EVERY interleaving of '
    '{next ready loop handle, server delivery, gated application step, send completion, external cancel} is enumerated for k<=3 (thorough 5) '
    'deliveries, capacities 0-4 and six application shapes (single/burst receiver, receiver+sender, cancelled receive, close racing a receive, close frame that cannot be sent), text and binary payloads; FIFO/lossless prefix, queue bound, disconnect ordering, no lost wake-up at idle points, '
    'and clean termination are checked after every step and in every terminal state.',
    'asyncio FIFO ready-queue discipline is kept (specified); held messages measured externally (pulls issued - messages returned); fake server '
    'keeps a delivered-but-unconsumed message on cancellation like asyncio.Queue', 'DESIGN.md section 5 C18')

reg('C02', 'SEQ+ENUM',
    'bounded-exhaustive enumeration of registration histories (routes/suffixes/sinks/static routes, both orders) x requests, lockstep with a list model of the history',
    'Every registration history within the bound (quick 3 716, thorough 83 004 histories over nested alphabets incl. all 32 method subsets, falsy resources, suffix resource '
    'kinds, 8 sink prefixes (incl. flag-dependent precompiled), static routes, rejected registrations) is built as a real WSGI and ASGI app under both sink_before_static_route values and '
    'queried with 7 methods x 14 boundary paths, after the last and after every registration; status, which responder/sink/file ran with which kwargs and '
    'the Allow multiset are compared with a dispatch table computed from the history.',
    'URI-template matching itself is C01; custom routers and set_default_responders overrides are not generated', 'DESIGN.md section 5 C02')

reg('C05', 'ENUM+CHOICE',
    'full product enumeration of the response matrix + deviation-bounded DFS over fault points (stream raises, send fails, server abandons), independent PEP 3333 / ASGI monitors and a length/precedence model',
    'Every cell of status form (26) x method x all 16 body-source subsets x stream kind x preset Content-Length/Content-Type x cookies x response class is '
    'served by a real app on both stacks; the drivers\' protocol monitors, the exact body by the documented precedence, Content-Length, Content-Type '
    'presence, Set-Cookie lines and close() counts are checked; fault points (stream raises at chunk k, send fails at call k, server abandons after k chunks, '
    'SSE client disconnect) are Chooser deviations explored to bound 1 (thorough 2); also: falsy values, stream shapes, assignment orders with renders in between, responses composed by an error handler after a failed render.',
    'HTTP/2 rules and trailers out of scope', 'DESIGN.md section 5 C05')

reg('C08', 'ENUM',
    'bounded-exhaustive enumeration of all query strings up to length L over an 11-symbol alphabet (+ token sequences) x option combinations, against an independent form-urlencoded reader; getter x value x occurrence tables; to_query_str round trip',
    'All strings <=5 (thorough <=7) over {& = , + % 4 1 a G NUL e-acute} and all token sequences over 14 escape tokens are parsed by '
    'falcon.uri.parse_query_string under the 4 option combinations and compared with a byte-level reference; the ASCII sub-space also runs through real WSGI '
    'and ASGI requests (params, has_param, get_param, get_param_as_list); 131 values x 9-11 occurrence patterns x 224 getter/kwargs calls are compared with '
    'stdlib conversions (value or 400, store/default/required/min/max exact); 23 260 dicts round-trip through to_query_str.',
    'the compiled cyutil twin is not covered (stale artifact, cannot be rebuilt)', 'DESIGN.md section 5 C08')

reg('C09', 'ENUM',
    'bounded-exhaustive enumeration of ABNF derivations per header family and all their edit-distance-1 mutants, against independent RFC-level parsers with a VALID=>exact / INVALID=>value-or-4xx contract',
    'Nine header families (Content-Length, Range, HTTP-date, entity-tags, Cookie, Forwarded, X-Forwarded-*, Host/URL, Accept) are derived to a bounded depth '
    'with all single-character mutants (quick 36 656, thorough 702 129 values); every accessor is read twice on one Request and once on a fresh one on WSGI '
    'and ASGI, URL compositions are checked against their parts, header lookup casings and the response date/etag round trip are enumerated; any exception '
    'other than a 4xx HTTPError is a violation.',
    'RFC readings chosen where the RFC leaves representation open are listed in the harness docstring', 'DESIGN.md section 5 C09')

reg('C10', 'ENUM',
    'bounded-exhaustive enumeration of all strings up to length L over an 18-symbol alphabet (+ systematic inflations crossing the 8-escape switch, token sequences, authority forms), against a byte-level reference codec',
    'All strings <=5 (thorough <=6) over {% + 4 1 A f G / ? ~ - SP NUL LF DEL, 2/3/4-byte code points}, their 9-fold repetitions, prefix/suffix inflations, token '
    'sequences, 4 180 authorities (incl. the empty port) and all quoted-string candidates are run through decode/encode/encode_value/the check-escaped encoders/parse_host/'
    'unquote_string and compared with an independent reference (equality, output grammar, round trip, idempotence, fixed point).',
    'lone surrogates outside the alphabet; compiled cyutil twin not covered', 'DESIGN.md section 5 C10')

reg('C11', 'ENUM+SEQ',
    'bounded-exhaustive enumeration of Accept headers (all sequences of <=k members of a 95-member range grammar) x candidate lists against an own RFC 9110 precedence model; depth-bounded unmerged search over handler-map mutation histories against a dict model',
    'Every header of <=2 (thorough <=3) members x 159 candidate lists through quality/best_match/client_accepts/client_prefers on both request classes; every '
    'history of <=3 (thorough <=4, <=5 on a sub-alphabet) of 25 mapping operations incl. copy (both objects stay observed), with a resolution battery '
    '(14 types x 2 defaults x 3 raise modes via _resolve, get_media, resp.media and an event stream served by a long-lived ASGI app) after every operation, warm and cold caches.',
    'the resolver lru_cache is unobservable state: histories are not merged', 'DESIGN.md section 5 C11')

reg('C15', 'SEQ+ENUM',
    'explicit-state BFS (merged on the complete header/cookie stores of both stacks) over response header operation histories against a case-insensitive map + cookie jar model; full cookie attribute product; URI-helper strings',
    'Histories of <=3 (thorough <=4) of 74 operations (set/append/delete/set_headers/typed properties/append_link/cookies/raw Set-Cookie in several casings); '
    'after every operation get_header in 3 casings, resp.headers, the typed properties and the header list emitted to both drivers are compared; the full '
    'product of cookie attributes (13 824 per stack) is parsed with an RFC 6265 reader and echoed back through the request API; all strings <=3 (thorough <=4) '
    'over 7 symbols go through the URI-bearing helpers and are decoded with an independent RFC 3986 decoder.',
    'header order is not compared; default Content-Type/forced Content-Length are C05', 'DESIGN.md section 5 C15')

reg('C20', 'ENUM',
    'full product enumeration of CORS configuration x middleware composition x stack x target x origin x request shape against a decision table applied to a baseline response',
    'The product of 48 (thorough 126) configurations, 15 compositions, 2 stacks, 11 targets, 5-7 origins and 8-11 request shapes (5*10^5 / 2.6*10^6 cells) is '
    'served by real apps; the response is compared with the same app\'s response with a do-nothing component in the CORS slot plus exactly the headers the '
    'decision table grants.',
    'a preflight whose exchange failed may keep simple grants or withdraw everything (statement ambiguous); approval headers never', 'DESIGN.md section 5 C20')

reg('C03', 'CHOICE+ENUM',
    'deviation-bounded DFS over fault placements (every reached call site asks the Chooser: return / complete / raise ...) inside an enumeration of middleware/hook shapes, against an interpreter of the documented stack discipline',
    'For every stack shape (N<=3 components x method subsets x independent/dependent x target x registration style x WSGI / ASGI plain / ASGI *_async twins, '
    'hook stackings) every assignment of actions to the call sites actually reached is explored up to 2 (thorough 3) deviations; the complete call trace '
    '(arguments, req_succeeded, params, error-handler calls, decoys never called, final status) must equal the model\'s. ASGI lifespan startup/shutdown '
    'sequences are enumerated exhaustively.',
    'handlers raising non-HTTP exceptions are outside the alphabet', 'DESIGN.md section 5 C03')

reg('C04', 'SEQ+ENUM',
    'explicit-state BFS over add_error_handler histories for all small exception DAGs (merged on real + model registry) x raise probes; full product of raise sites; bounded enumeration of default error renderings against independent JSON/XML decoders',
    'All exception DAGs with <=2 (thorough 3) generated classes under Exception/HTTPError/HTTPNotFound/HTTPStatus plus five named 4-class DAGs x registration '
    'histories of depth 2-3; after every registration an instance of every class is raised and the handler chosen must be the MRO-nearest, last-registered one, '
    'called once with text/data/media reset. 9 raise sites x 9 registries x 8 classes; 3 005 default renderings per stack decoded and compared with a document '
    'built from the constructor arguments (Vary, status, headers, href encoding, Accept negotiation).',
    'BaseException-only classes and XML-unrepresentable characters are out of scope', 'DESIGN.md section 5 C04')

reg('C06', 'ENUM',
    't-wise exhaustive enumeration (every combination of any t dimensions, rest at defaults; t=3 quick, t=4 thorough, plus targeted full products) of requests x responders x options; differential oracle over four executions per case',
    'Each case runs on falcon.App and falcon.asgi.App through the spec-faithful drivers and again through falcon.testing.simulate_request; a digest of ~75 request '
    'attributes and the normalised response (status, header multiset, body) must agree pairwise (wsgi~asgi, wsgi~wsgi-sim, asgi~asgi-sim) after the eleven '
    'documented by-design normalisations.',
    'the full product of all alphabets (7*10^8) is replaced by t-wise coverage; raw non-ASCII query bytes and repeated singleton headers are excluded', 'DESIGN.md section 5 C06')

reg('C16', 'ENUM',
    'bounded-exhaustive enumeration of request paths from a traversal grammar (raw and percent-encoded renderings) x route options x stacks with every file open audited (sys.addaudithook); Range x If-Modified-Since x file size product with RFC 9110 arithmetic',
    'All sequences of <=2 (thorough <=3) of 20 hostile/benign segment tokens (+ deeper over a core, + all edit-distance-1 mutants of existing names) in three '
    'escapings against a real fixture tree: every audited open must be inside the directory or be the fallback; clean names are served byte-exactly; 59 Range '
    'values x 10 If-Modified-Since values x sizes 0-4 x GET/HEAD are compared with own range arithmetic; WSGI, WSGI+file_wrapper and ASGI.',
    'symlinks excluded by the property; Windows path semantics not modelled', 'DESIGN.md section 5 C16')

reg('C19', 'THR+AIO+SEQ',
    'preemption-bounded exhaustive exploration of thread schedules (controlled scheduler, line-granularity scheduling points, cooperative lock), exhaustive ASGI task interleavings on a hand-stepped loop, and all sequential request orders; oracle: every response equals the solo response',
    '(1) 2-3 first-ever WSGI requests run as real threads under a deterministic scheduler; every schedule with <=2 preemptions at line granularity '
    'inside the router (thorough: also App.__call__/_get_responder), and with <=1 (thorough 2) preemptions at ANY falcon line, is executed, deadlock included; '
    '(2) 2 ASGI requests run as tasks on a virtual loop and every interleaving of their receive/send completions with the loop steps is executed, 3 requests with '
    '<=3 (thorough 5) departures from the default order; (3) the requests run sequentially in every order on one app, cold '
    'and warm process-wide caches. Each observation (status line, headers, body incl. params/context seen by the responder, exception) must equal that of the same '
    'request alone on a fresh app as the first request of a fresh process.',
    'line granularity under the GIL; threading.Lock in falcon.routing.compiled is rebound to a cooperative lock from the harness; a defect that also breaks '
    'the solo run is outside this differential oracle (C01/C02 cover it)', 'DESIGN.md section 5 C19')

reg('C12', 'ENUM+SEQ',
    'bounded-exhaustive enumeration of JSON documents / form mappings x content types x stacks x chunkings with independent strict decoders; depth-bounded enumeration of get_media/.media call histories with counting handlers',
    'All depth-1 (thorough depth-2, ~43 500) JSON documents over nasty scalars and 756-834 form mappings are assigned as response media on one stack, sent back '
    'as a request on either stack under every chunking of the bound, decoded type-exactly; every truncation / re-encoding / empty / whitespace body must give '
    'the strict decoder\'s value, MediaNotFoundError or MediaMalformedError; all call histories of length <=3 (thorough 4) over get_media(), '
    'get_media(default_when_empty=..), .media must parse once, never touch the stream again, return the same object / re-raise the same exception.',
    'special floats excluded by the property; custom dumps/loads not generated', 'DESIGN.md section 5 C12')

reg('C13', 'ENUM',
    'bounded-exhaustive enumeration of multipart forms (reference encoder) x envelopes x reader chunk sizes x every 1-cut (2-cut) transport split x per-part consumption tuples x limit thresholds x every single-byte edit, against an independent strict decoder and cross-geometry agreement',
    'Forms of <=2 (thorough 3) parts over tricky contents and boundaries of length 1-70 are parsed by the sync and async parsers under every reader geometry, '
    'every cut position and all 7^n consumption patterns; parts must equal what was encoded. Limits are probed at threshold-1/threshold/threshold+1. Every '
    'deletion/substitution/truncation of the base bodies must yield parts or MultipartParseError only, identically across geometries and parsers, under a '
    'CPU-time watchdog.',
    'nested multipart/mixed and -charset- fields are not generated', 'DESIGN.md section 5 C13')

reg('C17', 'ENUM+CHOICE',
    'bounded-exhaustive enumeration of responder scripts (all sequences of <=k operations) x client scripts x spec versions x queue sizes x routing/middleware/handler variants, one injected send() failure at every call index; independent ASGI WebSocket monitor + (state x operation) outcome table',
    'Every responder script of <=3 operations over 17 operations (thorough: <=4 over a 12-operation core) runs as a real session on falcon.asgi.App for each client '
    'script, spec version, queue size; the outgoing event stream is checked by an independent automaton (one accept, data only while open, one close, nothing '
    'after close or after the disconnect was handed over, accept headers / close reason by spec version, a close always owed) and against the expected event '
    'list; every operation outcome is compared with the documented error table; close codes 3404/3405/3000+status/error_close_code(3011 fallback); one failing '
    'server send() at every call index x 4 error kinds.',
    'default deterministic schedule (exhaustive pump scheduling is C18); binary media payloads not judged (no msgpack in the image)', 'DESIGN.md section 5 C17')

PENDING = {}

ALL = ['C%02d' % i for i in range(1, 21)]


def main():
    checks = []
    for pid in ALL:
        if pid not in CHECKS:
            continue
        c = CHECKS[pid]
        checks.append({
            'property_id': pid,
            'quick_cmd': './check %s quick' % pid,
            'thorough_cmd': './check %s thorough' % pid,
            'evidence_file': 'evidence/%s.json' % pid,
            'replay_cmd_template': './check %s --replay {path}' % pid,
            'engine': c['engine'],
            'level_claimed': {'category': 'model_checking', 'text': c['text'], 'design_ref': c['section']},
            'level_note': c['note'],
            'technique': c['technique'],
        })
    na = [{'property_id': p, 'reason': PENDING.get(p, 'check not built yet in this round (model checking applies; see DESIGN.md section 5)')}
          for p in ALL if p not in CHECKS]
    man = {
        'version': 1,
        'setup_cmd': 'true',
        'hooks': {
            'guard': 'FALCON_VERIF',
            'enable': 'none needed: checks import the .py sources of /repo directly (mc/core/srcload.py); no source hooks exist',
            'baseline_off_cmd': BASELINE,
            'source_commits': [],
            'add_only': True,
        },
        'engines': [
            {'name': 'CHOICE', 'path': 'mc/core/choice.py', 'kind_free_text': 'deviation-bounded DFS over choice sequences (stateless exploration of the real code)'},
            {'name': 'SEQ', 'path': 'mc/core/seq.py', 'kind_free_text': 'explicit-state BFS over operation histories with complete-state hashing, lockstep reference model'},
            {'name': 'ENUM', 'path': 'mc/core/enumx.py', 'kind_free_text': 'bounded-exhaustive input/configuration enumeration'},
            {'name': 'AIO', 'path': 'mc/core/vloop.py', 'kind_free_text': 'hand-stepped asyncio loop; environment events are choices'},
            {'name': 'THR', 'path': 'mc/core/thr.py', 'kind_free_text': 'preemption-bounded thread scheduler (settrace + baton)'},
        ],
        'checks': checks,
        'not_applicable': na,
        'notes': ('Checks import falcon from the .py sources of /repo (the git-ignored Cython .so files next to them are stale build output '
                  'that cannot be rebuilt offline: no Cython in this image); edits to .pyx files are therefore invisible to every check. '
                  'Exit codes: 0 held, 1 VIOLATION, 2 harness error.'),
    }
    for e in man['engines']:
        e['serves_properties'] = [p for p, c in CHECKS.items() if e['name'] in c['engine']]
    with open(os.path.join(HERE, 'MANIFEST.json'), 'w') as f:
        json.dump(man, f, indent=1)


if __name__ == '__main__':
    main()
