"""Run checks against hand-written mutants in a scratch copy of falcon (never in /repo).

usage: python tools/mutate.py [--tier quick] [--only NAME_SUBSTR] [--prop CNN]
Mutants are listed in tools/mutants.json: {name, property, file, old, new, note}.
Exit 0 always; prints one line per mutant: CAUGHT / MISSED / BROKEN(exit 2).
"""
import argparse
import json
import os
import shutil
import subprocess
import sys
import tempfile

HERE = os.path.dirname(os.path.dirname(os.path.abspath(__file__)))


def main():
    ap = argparse.ArgumentParser()
    ap.add_argument('--tier', default='quick')
    ap.add_argument('--only')
    ap.add_argument('--prop')
    ap.add_argument('--workers', default='16')
    a = ap.parse_args()
    muts = json.load(open(os.path.join(HERE, 'tools', 'mutants.json')))
    results = []
    for m in muts:
        if a.only and a.only not in m['name']:
            continue
        if a.prop and a.prop != m['property']:
            continue
        tmp = tempfile.mkdtemp(prefix='mut_')
        try:
            subprocess.check_call(['rsync', '-a', '--exclude', '*.so', '--exclude', '*.c', '--exclude', '__pycache__',
                                   '/repo/falcon', tmp + '/'])
            edits = m.get('edits') or [{'file': m['file'], 'old': m['old'], 'new': m['new']}]
            stale = False
            for e in edits:
                path = os.path.join(tmp, e['file'])
                src = open(path).read()
                if src.count(e['old']) != 1:
                    print('%-40s %s  STALE (old text found %d times in %s)' % (m['name'], m['property'], src.count(e['old']), e['file']))
                    stale = True
                    break
                open(path, 'w').write(src.replace(e['old'], e['new']))
            if stale:
                continue
            env = dict(os.environ, FALCON_REPO=tmp, MC_WORKERS=a.workers, MC_EVIDENCE_DIR=os.path.join(tmp, 'ev'))
            props = m['property'] if isinstance(m['property'], list) else [m['property']]
            for pid in props:
                p = subprocess.run([os.path.join(HERE, 'check'), pid, a.tier], env=env, stdout=subprocess.PIPE,
                                   stderr=subprocess.STDOUT, text=True, timeout=3600)
                verdict = {0: 'MISSED', 1: 'CAUGHT'}.get(p.returncode, 'BROKEN(exit %d)' % p.returncode)
                kinds = [l.strip() for l in p.stdout.splitlines() if l.strip().startswith('kind:')][:3]
                print('%-40s %s  %s  %s' % (m['name'], pid, verdict, ' '.join(kinds)[:200]))
                if verdict.startswith('BROKEN'):
                    print(p.stdout[-1500:])
                results.append((m['name'], pid, verdict))
                sys.stdout.flush()
        finally:
            shutil.rmtree(tmp, ignore_errors=True)
    print('caught %d / %d' % (sum(1 for r in results if r[2] == 'CAUGHT'), len(results)))


if __name__ == '__main__':
    main()
