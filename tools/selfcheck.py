"""Validate MANIFEST.json and evidence/*.json against the schemas (python3-vt)."""
import glob
import json
import sys

import jsonschema

ok = True
man = json.load(open('MANIFEST.json'))
jsonschema.validate(man, json.load(open('/root/.vp/MANIFEST.schema.json')))
es = json.load(open('/root/.vp/EVIDENCE.schema.json'))
claimed = {c['property_id'] for c in man['checks']}
na = {c['property_id'] for c in man.get('not_applicable', [])}
props = [json.loads(l)['id'] for l in open('properties.jsonl')]
for p in props:
    if (p in claimed) == (p in na):
        print('MANIFEST: %s must be either claimed or not_applicable' % p)
        ok = False
for f in sorted(glob.glob('evidence/*.json')):
    try:
        jsonschema.validate(json.load(open(f)), es)
    except Exception as e:
        print('INVALID', f, str(e)[:300])
        ok = False
for c in man['checks']:
    import os
    if not os.path.exists(c['evidence_file']):
        print('missing evidence', c['evidence_file'])
print('selfcheck', 'OK' if ok else 'FAILED', 'claimed=%d not_applicable=%d' % (len(claimed), len(na)))
sys.exit(0 if ok else 1)
