"""Run the repository's test suite against the .py sources (not the stale .so
files): python tools/pytest_pure.py [repo_dir] -- <pytest args>"""
import os
import sys

args = sys.argv[1:]
repo = '/repo'
if args and args[0] != '--' and os.path.isdir(args[0]):
    repo = os.path.abspath(args.pop(0))
if args and args[0] == '--':
    args.pop(0)
os.environ['FALCON_REPO'] = repo
sys.path.insert(0, os.path.dirname(os.path.dirname(os.path.abspath(__file__))))
from mc.core import srcload  # noqa: E402

srcload.REPO = repo
srcload.PKG = os.path.join(repo, 'falcon')
srcload.install('pure')
os.chdir(repo)
import pytest  # noqa: E402

sys.exit(pytest.main(['-q', '-p', 'no:cacheprovider'] + args))
