"""Minimal ASGI 3.0 HTTP server driver + monitor.  Shares nothing with falcon.testing."""
from mc.core import vloop
from mc.drivers.wsgi import pct_decode_bytes


def make_scope(method='GET', raw_path='/', query='', headers=(), scheme='http', host='falconframework.org', port=80,
               root_path='', remote_addr='127.0.0.1', http_version='1.1', spec_version='2.1', include_host=True):
    path_bytes = pct_decode_bytes(raw_path)
    hdrs = []
    have_host = False
    for name, value in headers:
        n = name.lower().encode('latin-1')
        if n == b'host':
            have_host = True
        hdrs.append((n, value.encode('latin-1')))
    if include_host and not have_host:
        default = (scheme in ('http', 'ws') and port == 80) or (scheme in ('https', 'wss') and port == 443)
        hdrs.insert(0, (b'host', (host if default else '%s:%d' % (host, port)).encode()))
    scope = {
        'type': 'http', 'asgi': {'version': '3.0', 'spec_version': spec_version}, 'http_version': http_version,
        'method': method, 'scheme': scheme, 'path': path_bytes.decode('utf-8', 'replace'),
        'raw_path': raw_path.encode('latin-1') if isinstance(raw_path, str) else raw_path,
        'query_string': query.encode('latin-1') if isinstance(query, str) else query, 'root_path': root_path,
        'headers': hdrs, 'server': (host, port),
    }
    if remote_addr is not None:
        scope['client'] = (remote_addr, 60000)
    return scope


class WouldBlock(Exception):
    """receive() awaited although no further event can ever arrive."""


class Result:
    def __init__(self):
        self.events = []
        self.status = None
        self.headers = None        # list of (bytes, bytes)
        self.body = b''
        self.problems = []
        self.exc = None
        self.receives = 0
        self.receive_after_end = 0

    @property
    def code(self):
        return self.status

    def header_multi(self):
        return sorted((k.decode('latin-1').lower(), v.decode('latin-1')) for k, v in (self.headers or []))

    def get(self, name, default=None):
        n = name.lower().encode()
        for k, v in self.headers or []:
            if k.lower() == n:
                return v.decode('latin-1')
        return default

    def get_all(self, name):
        n = name.lower().encode()
        return [v.decode('latin-1') for k, v in self.headers or [] if k.lower() == n]


def body_events(body, chunks=None, trailing_empty=False):
    """Event list for a request body. chunks: list of byte strings (default: one event)."""
    if chunks is None:
        chunks = [body or b'']
    evs = []
    for i, c in enumerate(chunks):
        last = i == len(chunks) - 1 and not trailing_empty
        evs.append({'type': 'http.request', 'body': c, 'more_body': not last})
    if trailing_empty:
        evs.append({'type': 'http.request', 'body': b'', 'more_body': False})
    return evs


def call(app, scope=None, events=None, send_fail_at=None, send_exc=OSError, disconnect_when_done=True,
         loop=None, **kw):
    """Drive one HTTP request to completion on a VLoop.
    events: list of receive events (default: one empty http.request).
    send_fail_at=k: the k-th send() call (0-based) raises send_exc.
    After the listed events, receive() returns http.disconnect once the response is complete,
    and is a WouldBlock (reported) if awaited before that with nothing left."""
    body = kw.pop('body', None)
    chunks = kw.pop('chunks', None)
    scope = scope if scope is not None else make_scope(**kw)
    if events is None:
        events = body_events(body or b'', chunks)
    events = list(events)
    res = Result()
    state = {'started': False, 'complete': False, 'sends': 0, 'i': 0}

    async def receive():
        res.receives += 1
        if state['i'] < len(events):
            ev = events[state['i']]
            state['i'] += 1
            return dict(ev)
        if state['complete'] or disconnect_when_done:
            res.receive_after_end += 1
            return {'type': 'http.disconnect'}
        raise WouldBlock('receive() awaited with no event left')

    async def send(ev):
        k = state['sends']
        state['sends'] += 1
        if send_fail_at is not None and k == send_fail_at:
            raise send_exc('send failed (injected)')
        res.events.append(ev)
        t = ev.get('type') if isinstance(ev, dict) else None
        if state['complete']:
            res.problems.append('event %r sent after the response was complete' % (t,))
            return
        if t == 'http.response.start':
            if state['started']:
                res.problems.append('second http.response.start')
            state['started'] = True
            st = ev.get('status')
            if type(st) is not int or not 100 <= st <= 999:
                res.problems.append('status %r is not an int in range' % (st,))
            res.status = st
            hs = ev.get('headers', [])
            ok = []
            for item in hs:
                try:
                    n, v = item
                except Exception:
                    res.problems.append('header item %r is not a pair' % (item,))
                    continue
                if type(n) is not bytes or type(v) is not bytes:
                    res.problems.append('header %r is not (bytes, bytes)' % (item,))
                    continue
                if n != n.lower():
                    res.problems.append('header name %r is not lower-case' % (n,))
                if not n or any(c in n for c in b' :\r\n') or any(c in v for c in b'\r\n'):
                    res.problems.append('illegal characters in header %r' % (item,))
                ok.append((n, v))
            res.headers = ok
        elif t == 'http.response.body':
            if not state['started']:
                res.problems.append('http.response.body before http.response.start')
            b = ev.get('body', b'')
            if type(b) is not bytes:
                res.problems.append('body is %s, not bytes' % type(b).__name__)
                b = b''
            res.body += b
            more = ev.get('more_body', False)
            if type(more) is not bool:
                res.problems.append('more_body is %r' % (more,))
            if not more:
                state['complete'] = True
        else:
            res.problems.append('unexpected event type %r' % (t,))

    own = loop is None
    lp = loop or vloop.VLoop()
    try:
        lp.run_until_complete(app(scope, receive, send))
    except BaseException as e:  # noqa
        res.exc = e
    finally:
        res.loop_errors = list(lp.errors)
        if own:
            try:
                lp.run_until_idle()
            except Exception:
                pass
            lp.close()
    res.started = state['started']
    res.complete = state['complete']
    if res.exc is None and send_fail_at is None and not state['complete']:
        res.problems.append('app returned without completing the response')
    return res
