"""Minimal PEP 3333 server driver + monitor.  Shares nothing with falcon.testing."""
import io
import sys

HOP_BY_HOP = {'connection', 'keep-alive', 'proxy-authenticate', 'proxy-authorization', 'te', 'trailers',
              'transfer-encoding', 'upgrade'}


_HEX = b'0123456789abcdefABCDEF'


def pct_decode_bytes(s):
    """Percent-decode to bytes; malformed escapes stay literal (what servers do)."""
    b = s.encode('utf-8') if isinstance(s, str) else s
    out = bytearray()
    i, n = 0, len(b)
    while i < n:
        c = b[i]
        if c == 0x25 and i + 2 < n + 0 and b[i + 1] in _HEX and b[i + 2] in _HEX:
            out.append(int(b[i + 1:i + 3].decode('ascii'), 16))
            i += 3
            continue
        if c == 0x25 and i + 2 == n - 0 - 0 and False:
            pass
        out.append(c)
        i += 1
    return bytes(out)


class Input:
    """wsgi.input; records every call.  kind: 'buffered' (full reads) or 'short' (one byte short when >1)."""

    def __init__(self, data, kind='buffered'):
        self.data = data
        self.pos = 0
        self.kind = kind
        self.calls = []

    def read(self, size=-1):
        self.calls.append(('read', size))
        if size is None or size < 0:
            size = len(self.data) - self.pos
        if self.kind == 'short' and size > 1:
            size -= 1
        r = self.data[self.pos:self.pos + size]
        self.pos += len(r)
        return r

    def readline(self, size=-1):
        self.calls.append(('readline', size))
        i = self.data.find(b'\n', self.pos)
        end = len(self.data) if i < 0 else i + 1
        if size is not None and size >= 0:
            end = min(end, self.pos + size)
        r = self.data[self.pos:end]
        self.pos = end
        return r

    def readlines(self, hint=-1):
        self.calls.append(('readlines', hint))
        out, total = [], 0
        while True:
            line = self.readline()
            self.calls.pop()
            if not line:
                break
            out.append(line)
            total += len(line)
            if hint is not None and hint > 0 and total >= hint:
                break
        return out

    def __iter__(self):
        return self

    def __next__(self):
        self.calls.append(('next',))
        line = self.readline()
        self.calls.pop()
        if not line:
            raise StopIteration
        return line


def make_environ(method='GET', raw_path='/', query='', headers=(), body=None, scheme='http', host='falconframework.org',
                 port=80, root_path='', remote_addr='127.0.0.1', http_version='1.1', input_kind='buffered',
                 file_wrapper=None, content_length='auto'):
    path = pct_decode_bytes(raw_path).decode('latin-1')
    env = {
        'REQUEST_METHOD': method, 'SCRIPT_NAME': root_path, 'PATH_INFO': path, 'QUERY_STRING': query,
        'SERVER_NAME': host, 'SERVER_PORT': str(port), 'SERVER_PROTOCOL': 'HTTP/' + http_version,
        'REMOTE_ADDR': remote_addr, 'RAW_URI': raw_path + ('?' + query if query else ''),
        'wsgi.version': (1, 0), 'wsgi.url_scheme': scheme, 'wsgi.errors': io.StringIO(),
        'wsgi.multithread': False, 'wsgi.multiprocess': False, 'wsgi.run_once': False,
    }
    inp = Input(body or b'', input_kind)
    env['wsgi.input'] = inp
    if file_wrapper is not None:
        env['wsgi.file_wrapper'] = file_wrapper
    have_host = False
    merged = {}
    for name, value in headers:
        k = name.upper().replace('-', '_')
        if k == 'HOST':
            have_host = True
        if k in ('CONTENT_TYPE', 'CONTENT_LENGTH'):
            key = k
        else:
            key = 'HTTP_' + k
        if key in merged:
            merged[key] = merged[key] + (', ' if k != 'COOKIE' else '; ') + value
        else:
            merged[key] = value
    env.update(merged)
    if not have_host:
        default = (scheme == 'http' and port == 80) or (scheme == 'https' and port == 443)
        env['HTTP_HOST'] = host if default else '%s:%d' % (host, port)
    if content_length == 'auto':
        if body is not None and 'CONTENT_LENGTH' not in env:
            env['CONTENT_LENGTH'] = str(len(body))
    elif content_length is not None:
        env['CONTENT_LENGTH'] = str(content_length)
    return env


class Result:
    def __init__(self):
        self.status = None        # status line as given
        self.headers = None       # list of (name, value) as given
        self.body = b''
        self.chunks = []
        self.problems = []        # PEP 3333 monitor findings
        self.exc = None           # exception that escaped the app callable / iteration
        self.start_calls = 0
        self.closed = None
        self.environ = None

    @property
    def code(self):
        try:
            return int(self.status[:3])
        except Exception:
            return None

    def header_multi(self):
        return sorted((k.lower(), v) for k, v in (self.headers or []))

    def get(self, name, default=None):
        name = name.lower()
        for k, v in self.headers or []:
            if k.lower() == name:
                return v
        return default

    def get_all(self, name):
        name = name.lower()
        return [v for k, v in self.headers or [] if k.lower() == name]


def call(app, env=None, abandon_after=None, **kw):
    """Drive one request.  abandon_after=k: the server stops iterating after k chunks
    (and calls close(), as PEP 3333 requires)."""
    env = env if env is not None else make_environ(**kw)
    res = Result()
    res.environ = env

    def start_response(status, headers, exc_info=None):
        res.start_calls += 1
        if res.start_calls > 1 and exc_info is None:
            res.problems.append('start_response called %d times without exc_info' % res.start_calls)
        if type(status) is not str:
            res.problems.append('status is %s, not a native str' % type(status).__name__)
        else:
            if len(status) < 5 or not status[:3].isdigit() or status[3] != ' ' or not status[4:].strip():
                res.problems.append('malformed status line %r' % (status,))
            try:
                status.encode('latin-1')
            except UnicodeError:
                res.problems.append('status line not latin-1 encodable')
            if any(ord(c) < 32 for c in status):
                res.problems.append('control character in status line')
        if type(headers) is not list:
            res.problems.append('headers is %s, not a list' % type(headers).__name__)
        for item in headers:
            if type(item) is not tuple or len(item) != 2:
                res.problems.append('header item %r is not a 2-tuple' % (item,))
                continue
            n, v = item
            if type(n) is not str or type(v) is not str:
                res.problems.append('header %r: name/value not native str' % (item,))
                continue
            try:
                n.encode('latin-1')
                v.encode('latin-1')
            except UnicodeError:
                res.problems.append('header %r not latin-1 encodable' % (item,))
            if n.lower() in HOP_BY_HOP:
                res.problems.append('hop-by-hop header %r' % n)
            if not n or any(c in n for c in ' :\r\n\t') or any(c in v for c in '\r\n'):
                res.problems.append('illegal characters in header %r' % (item,))
            if n.lower() == 'status':
                res.problems.append('header named Status')
        res.status = status
        res.headers = list(headers)

        def write(data):
            res.problems.append('legacy write() callable used')
        return write

    try:
        it = app(env, start_response)
    except BaseException as e:  # noqa
        res.exc = e
        return res
    try:
        n = 0
        iterator = iter(it)
        while True:
            if abandon_after is not None and n >= abandon_after:
                break
            try:
                chunk = next(iterator)
            except StopIteration:
                break
            if res.start_calls == 0:
                res.problems.append('body chunk yielded before start_response')
            if type(chunk) is not bytes:
                res.problems.append('body chunk is %s, not bytes' % type(chunk).__name__)
                chunk = bytes(chunk) if isinstance(chunk, (bytearray, memoryview)) else b''
            res.chunks.append(chunk)
            n += 1
    except BaseException as e:  # noqa
        res.exc = e
    finally:
        close = getattr(it, 'close', None)
        if close is not None:
            try:
                close()
                res.closed = True
            except BaseException as e:  # noqa
                if res.exc is None:
                    res.exc = e
    if res.start_calls == 0 and res.exc is None:
        res.problems.append('start_response never called')
    res.body = b''.join(res.chunks)
    return res
