"""CLI: python -m mc.run --property C14 --tier quick|thorough [--replay file]"""
import argparse
import importlib
import json
import os
import sys


def main():
    ap = argparse.ArgumentParser()
    ap.add_argument('--property', required=True)
    ap.add_argument('--tier', default=os.environ.get('VERIF_TIER', 'quick'))
    ap.add_argument('--replay')
    a = ap.parse_args()
    if os.environ.get('PYTHONHASHSEED') != '0':
        os.environ['PYTHONHASHSEED'] = '0'
        os.execv(sys.executable, [sys.executable, '-m', 'mc.run'] + sys.argv[1:])
    pid = a.property.upper()
    try:
        seed = int(os.environ.get('VERIF_SEED', '0') or 0)
    except ValueError:
        seed = 0
    from mc.core import srcload
    srcload.install()
    from mc.core import report
    try:
        import falcon  # noqa
        mod = importlib.import_module('mc.props.' + pid.lower())
    except SystemExit:
        raise
    except BaseException:
        import traceback
        sys.stderr.write('HARNESS-ERROR: cannot import falcon / harness for %s\n%s' % (pid, traceback.format_exc()))
        # a tree that no longer imports is not a property verdict
        sys.exit(2)
    srcload.verify()
    if a.replay:
        with open(a.replay) as f:
            rec = json.load(f)
        r = mod.replay(report.unjson(rec['replay']))
        print(json.dumps(report.jsonable(r), indent=1, ensure_ascii=True))
        sys.exit(1 if r and r.get('violation') else 0)
    rep = report.Report(pid, a.tier, seed)
    mod.check(rep)
    srcload.verify()
    sys.exit(report.finish(rep))


if __name__ == '__main__':
    main()
