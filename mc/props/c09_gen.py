"""Value generators for C09: small ABNF-derived grammars enumerated to a depth, and all
edit-distance-1 mutants of a value.  Deterministic, simplest first, de-duplicated."""
import itertools

SUBS = ' ,;:="[a0'


def mutants(s):
    """All single-character deletions, substitutions and insertions (from SUBS) of s."""
    out = []
    n = len(s)
    for i in range(n):
        out.append(s[:i] + s[i + 1:])
    for i in range(n):
        for c in SUBS:
            if c != s[i]:
                out.append(s[:i] + c + s[i + 1:])
    for i in range(n + 1):
        for c in SUBS:
            out.append(s[:i] + c + s[i:])
    return out


def dedupe(seq):
    seen = set()
    out = []
    for x in seq:
        if x not in seen:
            seen.add(x)
            out.append(x)
    return out


def with_mutants(bases, mutate):
    """bases first (simplest first), then the mutants of the values in `mutate`."""
    out = list(bases)
    for b in mutate:
        out.extend(mutants(b))
    return dedupe(out)


def with_mutants2(values, twice):
    """values, then all edit-distance-2 mutants of the (short) strings in `twice`."""
    out = list(values)
    for b in twice:
        for m in dedupe(mutants(b)):
            out.extend(mutants(m))
    return dedupe(out)


def lists(atoms, depth, seps):
    """All sequences of 1..depth atoms; sequences of length 2 with every separator, longer ones with seps[0]."""
    out = list(atoms)
    if depth >= 2:
        for sep in seps:
            for a, b in itertools.product(atoms, repeat=2):
                out.append(a + sep + b)
    for d in range(3, depth + 1):
        for tup in itertools.product(atoms, repeat=d):
            out.append(seps[0].join(tup))
    return out


# names that VERIF_SEED may rename (the abstract space stays the same)
NAMES = [
    dict(host='example.com', sub='a.b.example.com', single='localhost', v4='192.0.2.43', v4b='203.0.113.60',
         v6='2001:db8::1', obf='_hidden', obfport='_obf', ck1='a', ck2='b', tag='a', unit2='items', srv='srv.test',
         xhost='h.example', ip1='198.51.100.7', ip2='198.51.100.8'),
    dict(host='falcon.test', sub='x.y.falcon.test', single='intranet', v4='198.51.100.17', v4b='192.0.2.60',
         v6='2001:db8:cafe::17', obf='_secret', obfport='_p1', ck1='sid', ck2='k', tag='xyzzy', unit2='rows',
         srv='backend', xhost='front.example', ip1='203.0.113.9', ip2='203.0.113.10'),
    dict(host='h-1.example.org', sub='www.h-1.example.org', single='box', v4='203.0.113.195', v4b='198.51.100.1',
         v6='::1', obf='_n.0-x', obfport='_99', ck1='x-1', ck2='y.2', tag='0', unit2='pages', srv='app-7',
         xhost='edge.example.net', ip1='192.0.2.1', ip2='192.0.2.2'),
]


def names(seed):
    return NAMES[seed % len(NAMES)]
