"""Reference models for C04 (independent of falcon: nothing is imported from it).

* Registry          -- exception class -> handler id; last registration per class wins;
                       lookup = first class of type(ex).__mro__ that has an entry.
* prefers()         -- RFC 9110 section 12.5.1 media-range matching, reduced to what the error
                       serializer needs: the candidate with the highest quality, first candidate on ties.
* error_fields()    -- the document an HTTP error must be encoded as, built from the constructor arguments.
* decode_json / decode_xml -- independent decoders (json / xml.etree) back to that document.
* ref_encode_href() -- RFC 3986: everything but unreserved and reserved characters percent-encoded as UTF-8.
"""
import json
import xml.etree.ElementTree as ET


class Registry:
    def __init__(self, defaults):
        self.map = dict(defaults)

    def register(self, classes, hid):
        for c in classes:
            self.map[c] = hid

    def resolve(self, cls):
        for c in cls.__mro__:
            if c in self.map:
                return self.map[c]
        return None

    def key(self):
        return tuple(sorted((c.__name__, h) for c, h in self.map.items()))


# ---------------------------------------------------------------------------
# Accept negotiation
# ---------------------------------------------------------------------------
_TCHAR = set("!#$%&'*+-.^_`|~0123456789abcdefghijklmnopqrstuvwxyzABCDEFGHIJKLMNOPQRSTUVWXYZ")


def _token(s):
    return bool(s) and all(ch in _TCHAR for ch in s)


def parse_accept(header):
    """-> list of (type, subtype, params dict, q) or None when the header is not a valid Accept value."""
    out = []
    for part in header.split(','):
        part = part.strip()
        if not part:
            continue
        bits = [b.strip() for b in part.split(';')]
        rng = bits[0]
        if rng.count('/') != 1:
            return None
        t, s = rng.split('/')
        t, s = t.strip().lower(), s.strip().lower()
        if not _token(t) or not _token(s):
            return None
        if t == '*' and s != '*':
            return None
        q = 1.0
        params = {}
        for b in bits[1:]:
            if '=' not in b:
                return None
            k, v = b.split('=', 1)
            k, v = k.strip().lower(), v.strip()
            if k == 'q':
                try:
                    q = float(v)
                except ValueError:
                    return None
                if not 0.0 <= q <= 1.0:
                    return None
            else:
                params[k] = v.strip('"')
        out.append((t, s, params, q))
    return out or None


def quality(candidate, ranges):
    ct, cs = candidate.lower().split('/')
    best = None
    for t, s, params, q in ranges:
        if params:
            continue      # candidates in this harness carry no parameters: a parametrised range cannot match better
        if t == '*' and s == '*':
            spec = 0
        elif t == ct and s == '*':
            spec = 1
        elif t == ct and s == cs:
            spec = 2
        else:
            continue
        if best is None or spec > best[0]:
            best = (spec, q)
    return 0.0 if best is None else best[1]


def prefers(accept, candidates):
    """The candidate the client prefers, or None.  accept=None: header absent (= */*)."""
    if accept is None or accept == '':
        accept = '*/*'
    ranges = parse_accept(accept)
    if ranges is None:
        return None
    best, bq = None, 0.0
    for c in candidates:
        q = quality(c, ranges)
        if q > bq:
            best, bq = c, q
    return best


JSON = 'application/json'
FORM = 'application/x-www-form-urlencoded'
XML = 'application/xml'
TEXT_XML = 'text/xml'


def error_media_type(accept, xml_enabled, extra_types):
    """Which representation the default serializer must choose for an HTTP error.
    Returns one of JSON, XML, TEXT_XML, a member of extra_types, or None (no body)."""
    cands = [JSON] + ([TEXT_XML, XML] if xml_enabled else []) + list(extra_types)
    p = prefers(accept, cands)
    if p is None and accept:
        # documented fall-back: vendor types built on JSON / XML
        low = accept.lower()
        if '+json' in low:
            return JSON
        if '+xml' in low:
            return XML if xml_enabled else None
    return p


# ---------------------------------------------------------------------------
# documents
# ---------------------------------------------------------------------------
_UNRESERVED = 'ABCDEFGHIJKLMNOPQRSTUVWXYZabcdefghijklmnopqrstuvwxyz0123456789-._~'
_RESERVED = ":/?#[]@!$&'()*+,;="


def ref_encode_href(href):
    out = []
    for b in href.encode('utf-8'):
        ch = chr(b)
        if b < 128 and (ch in _UNRESERVED or ch in _RESERVED):
            out.append(ch)
        else:
            out.append('%%%02X' % b)
    return ''.join(out)


def error_fields(title, description=None, code=None, href=None, href_text=None):
    d = {'title': title}
    if description is not None:
        d['description'] = description
    if code is not None:
        d['code'] = code
    if href:
        d['link'] = {'text': href_text or 'Documentation related to this error', 'href': ref_encode_href(href),
                     'rel': 'help'}
    return d


def decode_json(body):
    return json.loads(body.decode('utf-8'))


def decode_xml(body):
    """-> dict shaped like error_fields(); element text None is ''; code is an int."""
    root = ET.fromstring(body)
    if root.tag != 'error':
        raise ValueError('root element is %r' % root.tag)
    d = {}
    for child in root:
        if child.tag in d:
            raise ValueError('duplicate element %r' % child.tag)
        if child.tag == 'link':
            link = {}
            for sub in child:
                link[sub.tag] = sub.text or ''
            d['link'] = link
        elif child.tag == 'code':
            d['code'] = int(child.text)
        else:
            d[child.tag] = child.text or ''
    return d


def decode_form(body):
    from urllib.parse import parse_qsl
    pairs = parse_qsl(body.decode('utf-8'), keep_blank_values=True, strict_parsing=True)
    d = dict(pairs)
    if len(d) != len(pairs):
        raise ValueError('duplicate keys')
    return d


def status_code_of(status):
    """int | 'NNN reason' | http.HTTPStatus -> int"""
    v = getattr(status, 'value', status)
    if isinstance(v, int):
        return v
    if isinstance(v, bytes):
        v = v.decode('ascii')
    return int(str(v).split(' ', 1)[0])


_REASONS = {200: 'OK', 208: 'Already Reported', 301: 'Moved Permanently', 302: 'Found', 303: 'See Other',
            307: 'Temporary Redirect', 308: 'Permanent Redirect', 400: 'Bad Request', 401: 'Unauthorized',
            404: 'Not Found', 405: 'Method Not Allowed', 409: 'Conflict', 418: "I'm a Teapot",
            429: 'Too Many Requests', 500: 'Internal Server Error', 503: 'Service Unavailable'}


def default_title(status):
    """The title an HTTP error gets when none is given: its status line."""
    if hasattr(status, 'phrase'):
        return '%d %s' % (status.value, status.phrase)
    if isinstance(status, str) and ' ' in status:
        return status
    code = int(status)
    return '%d %s' % (code, _REASONS.get(code, 'Unknown'))
