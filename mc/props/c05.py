"""C05 -- responses are protocol-valid and length-consistent on WSGI and ASGI.

Engine: ENUM over the response matrix; CHOICE (mc.core.choice.explore) for the
fault points of every cell whose body is streamed.

Alphabet (one *cell* = one way an application fills in a response)
  stack    wsgi | asgi
  status   200 {int, '200 OK', HTTPStatus, custom line}, 201 int, 299 {int, custom line},
           404 {int, HTTPStatus}, 599 int, and 100/101/204/304 each as int / standard
           line / line with a custom reason / HTTPStatus                  (26)
  method   GET, HEAD, POST
  body     all 16 subsets of {text, data, media, stream}
  stream   WSGI: list, generator, iterator with/without close(), file-like with/without
           close(), the two file-likes also behind wsgi.file_wrapper;
           ASGI: async generator, async iterator with/without close(), async file-like
           with/without close(), SSE emitter (resp.sse; only as the sole body source)
  preset   Content-Length {unset, correct, wrong} x Content-Type {unset, set}
  cookies  {0,1,2} x raw appended Set-Cookie (+ one extra plain header) {0,1}
                                                          (quick: (0,0), (1,1), (2,0))
  class    falcon's Response | a subclass overriding render_body()
  part B   falsy values: every subset with every member either normal or empty
           ('' / b'' / {} / a stream without chunks)
  part C   stream shapes: 0..3 chunks incl. an empty chunk in the middle
  part D   assignment order / render_body() between assignments
  part E   the responder's media cannot be serialized; the error handler registered for that exception
           fills in the response (every non-stream subset) -- same rules for what is then sent
  headers  with raw=1 also header values that are not str yet (append_header/set_header of an int)
Fault points (Chooser deviations, only reached points are expanded):
  stream-raise@k   the stream's k-th read/__next__/__anext__ raises
  send-fail@k      the ASGI server's k-th send() raises
  abandon@k        the WSGI server stops iterating before chunk k and calls close()
  disconnect@k     (SSE) the client disconnects: the k-th receive() returns http.disconnect
Bound: <=1 deviation (quick), <=2 (thorough); every cell of the stated product is run.

Oracle (reference model below; imports nothing from falcon):
  * the drivers' PEP 3333 / ASGI HTTP monitors report nothing; nothing escapes the app
    unless a fault was injected (then only the injected exception);
  * status: ASGI int == code; WSGI line == the given line / 'code phrase' of the enum /
    starts with 'code ' for an int;
  * body bytes == first present of text > data > media > stream (exact; media by JSON
    decoding; the subclass wraps it in <>) -- and none at all for HEAD or 100/101/204/304;
    under one fault: exactly the chunks before the fault;
  * non-HEAD, body-bearing status, not streamed: Content-Length present and == bytes sent;
    HEAD: a framework-supplied Content-Length, if any, equals what GET would send;
    streamed: an application-set Content-Length is passed through, none is invented;
  * Content-Type: the application's if it set one; else absent on 204/304, else the app's
    default media type (text/event-stream for SSE);
  * one Set-Cookie line per cookie and per raw line, every plain header once;
  * close(): exactly once if the stream's read/__next__/__anext__ was called at least once
    (at most once otherwise) -- in every fault scenario; a real generator's finally block
    has run exactly once if it was started.
"""
import http
import itertools
import json

from mc.core import choice, par
from mc.drivers import asgi as asgi_drv
from mc.drivers import wsgi as wsgi_drv
from mc.props import c05_streams as S

import falcon
import falcon.asgi

DEFAULT_MEDIA_TYPE = 'application/json'
PRESET_CT = 'application/json; v=1'

TEXT, DATA, MEDIA, STREAM = 1, 2, 4, 8
BODILESS = (100, 101, 204, 304)
TYPELESS = (204, 304)
PHRASES = {200: 'OK', 201: 'Created', 404: 'Not Found', 100: 'Continue', 101: 'Switching Protocols',
           204: 'No Content', 304: 'Not Modified'}
CUSTOM = {200: 'Okay', 299: 'Whatever', 100: 'Go On', 101: 'Switch', 204: 'Nothing', 304: 'Same'}

# (code, form)
STATUS_FULL = ([(200, 'int'), (200, 'line'), (200, 'enum'), (200, 'custom'), (201, 'int'), (299, 'int'),
                (299, 'custom'), (404, 'int'), (404, 'enum'), (599, 'int')]
               + [(c, f) for c in (204, 304, 100, 101) for f in ('int', 'line', 'enum', 'custom')])
METHODS = ('GET', 'POST', 'HEAD')


def status_value(code, form):
    if form == 'int':
        return code
    if form == 'line':
        return '%d %s' % (code, PHRASES[code])
    if form == 'custom':
        return '%d %s' % (code, CUSTOM[code])
    return http.HTTPStatus(code)


# ---------------------------------------------------------------------------
# cells
# ---------------------------------------------------------------------------
class Cell:
    __slots__ = ('stack', 'code', 'form', 'method', 'mask', 'kind', 'cl', 'ct', 'cookies', 'raw', 'klass',
                 'falsy', 'chunks', 'seed', 'order')

    def __init__(self, stack, code, form, method, mask, kind=None, cl='unset', ct=False, cookies=0, raw=0,
                 klass='std', falsy=0, chunks=(b'ab', b'c'), seed=0, order='fwd'):
        # order: 'fwd' text,data,media | 'rev' media,data,text | 'rmid' like rev with render_body() called after every
        # assignment (a signing / ETag middleware does that) | 'rfirst' render_body() right after the first assignment
        self.order = order
        self.stack, self.code, self.form, self.method, self.mask, self.kind = stack, code, form, method, mask, kind
        self.cl, self.ct, self.cookies, self.raw, self.klass = cl, ct, cookies, raw, klass
        self.falsy, self.chunks, self.seed = falsy, tuple(chunks), seed

    def to_dict(self):
        d = {k: getattr(self, k) for k in self.__slots__}
        d['chunks'] = list(self.chunks)
        return d

    @classmethod
    def from_dict(cls, d):
        d = dict(d)
        d['chunks'] = tuple(bytes(c) for c in d.get('chunks', ()))
        return cls(**d)

    def key(self):
        return tuple(getattr(self, k) for k in self.__slots__)

    # values the application assigns (seed renames the payloads only)
    def text(self):
        return '' if self.falsy & TEXT else 'té%d' % self.seed      # 2-byte char: len(str) != len(bytes)

    def data(self):
        return b'' if self.falsy & DATA else b'data-%d!' % self.seed

    def media(self):
        return {} if self.falsy & MEDIA else {'m': ['v', self.seed]}

    def stream_chunks(self):
        return () if self.falsy & STREAM else self.chunks

    def sse_events(self):
        return [{'data': b'raw%d' % self.seed}, None, {'text': 'hi', 'event': 'ev', 'event_id': '7', 'retry': 5},
                {'json': {'k': self.seed}, 'comment': 'c'}][:max(1, len(self.stream_chunks()) + 1)]

    def cookie_names(self):
        return ['ck%d%s' % (self.seed, 'ab'[i]) for i in range(self.cookies)]

    def describe(self):
        src = [n for b, n in ((TEXT, 'text'), (DATA, 'data'), (MEDIA, 'media'), (STREAM, 'stream')) if self.mask & b]
        return ('%s %s status=%r body={%s}%s%s preset-CL=%s preset-CT=%s cookies=%d raw=%d class=%s'
                % (self.stack, self.method, status_value(self.code, self.form), ','.join(src),
                   (' stream=%s%r' % (self.kind, list(self.stream_chunks()))) if self.mask & STREAM else '',
                   ' falsy=%d' % self.falsy if self.falsy else '', self.cl, self.ct, self.cookies, self.raw,
                   self.klass) + ('' if self.order == 'fwd' else ' assignment-order=%s' % self.order))


# ---------------------------------------------------------------------------
# reference model
# ---------------------------------------------------------------------------
class Expect:
    __slots__ = ('code', 'suppressed', 'typeless', 'src', 'payload', 'wrap', 'wire', 'events')


def model(cell):
    e = Expect()
    e.code = cell.code
    e.suppressed = cell.method == 'HEAD' or cell.code in BODILESS
    e.typeless = cell.code in TYPELESS
    e.wrap = cell.klass == 'sub'
    e.wire = None
    e.events = None
    if cell.mask & TEXT:
        e.src, e.payload = 'text', cell.text().encode('utf-8')
    elif cell.mask & DATA:
        e.src, e.payload = 'data', cell.data()
    elif cell.mask & MEDIA:
        e.src, e.payload = 'media', cell.media()
    elif cell.mask & STREAM:
        e.src = 'stream'
        if cell.kind == 'sse':
            e.events = cell.sse_events()
            e.payload = None
        else:
            e.wire = S.wire_chunks(cell.kind, cell.stream_chunks())
            e.payload = b''.join(e.wire)
    else:
        e.src, e.payload = 'none', b''
    return e


def body_matches(e, body):
    """Exact comparison of the complete (fault-free) body with the model."""
    if e.src in ('stream', 'none'):
        return body == e.payload
    if e.wrap:
        if not (body.startswith(b'<') and body.endswith(b'>') and len(body) >= 2):
            return False
        body = body[1:-1]
    if e.src == 'media':
        try:
            return json.loads(body.decode('utf-8')) == e.payload
        except ValueError:
            return False
    return body == e.payload


def sse_event_matches(ev, raw):
    p = S.sse_parse_block(raw)
    if p is None:
        return False
    fields, comments = p
    if ev is None:
        return not fields and len(comments) == 1      # a keep-alive comment
    want = {}
    if ev.get('event') is not None:
        want['event'] = ev['event']
    if ev.get('event_id') is not None:
        want['id'] = ev['event_id']
    if ev.get('retry') is not None:
        want['retry'] = str(ev['retry'])
    got = dict(fields)
    gd = got.pop('data', None)
    if got != want:
        return False
    if ev.get('comment') is not None and comments != [ev['comment']]:
        return False
    if ev.get('data') is not None:
        return gd == ev['data'].decode('utf-8')
    if ev.get('text') is not None:
        return gd == ev['text']
    if ev.get('json') is not None:
        try:
            return gd is not None and json.loads(gd) == ev['json']
        except ValueError:
            return False
    return gd is None


# ---------------------------------------------------------------------------
# the applications under test
# ---------------------------------------------------------------------------
class _Holder:
    fill = None
    recover = None


class WsgiSub(falcon.Response):
    def render_body(self):
        d = super().render_body()
        return None if d is None else b'<' + d + b'>'


class AsgiSub(falcon.asgi.Response):
    async def render_body(self):
        d = await super().render_body()
        return None if d is None else b'<' + d + b'>'


class _Unserializable:
    pass


def _wsgi_recover(req, resp, ex, params):
    # the representation chosen by the responder could not be rendered: this handler composes the response
    # instead (the cell's filler), to which the same rules apply
    for _ in _Holder.recover(resp) or ():
        pass


async def _asgi_recover(req, resp, ex, params):
    for _ in _Holder.recover(resp) or ():
        pass


class _WsgiResource:
    def on_get(self, req, resp):
        if _Holder.recover is not None:
            resp.media = {'cannot': _Unserializable()}
            return
        for _ in _Holder.fill(resp) or ():
            resp.render_body()

    on_post = on_head = on_get


class _AsgiResource:
    async def on_get(self, req, resp):
        if _Holder.recover is not None:
            resp.media = {'cannot': _Unserializable()}
            return
        for _ in _Holder.fill(resp) or ():
            await resp.render_body()

    on_post = on_head = on_get


_APPS = {}


def get_app(stack, klass):
    k = (stack, klass)
    if k not in _APPS:
        if stack == 'wsgi':
            app = falcon.App(media_type=DEFAULT_MEDIA_TYPE, response_type=WsgiSub if klass == 'sub' else None)
            app.add_route('/', _WsgiResource())
            app.add_error_handler(TypeError, _wsgi_recover)
        else:
            app = falcon.asgi.App(media_type=DEFAULT_MEDIA_TYPE, response_type=AsgiSub if klass == 'sub' else None)
            app.add_route('/', _AsgiResource())
            app.add_error_handler(TypeError, _asgi_recover)
        _APPS[k] = app
    return _APPS[k]


def make_filler(cell, e, stream):
    def fill(resp):
        resp.status = status_value(cell.code, cell.form)
        if cell.ct:
            resp.content_type = PRESET_CT
        steps = [(TEXT, 'text', cell.text), (DATA, 'data', cell.data), (MEDIA, 'media', cell.media)]
        if cell.order != 'fwd':
            steps.reverse()
        first = True
        for bit, attr, value in steps:
            if cell.mask & bit:
                setattr(resp, attr, value())
                if cell.order == 'rmid' or (cell.order == 'rfirst' and first):
                    yield 'render'
                first = False
        n = preset_cl(cell, e)
        if cell.mask & STREAM:
            if cell.kind == 'sse':
                resp.sse = stream
            elif cell.cl == 'correct':
                resp.set_stream(stream, n)
            else:
                resp.stream = stream
        if n is not None and not (cell.mask & STREAM and cell.cl == 'correct' and cell.kind != 'sse'):
            resp.content_length = n
        for name in cell.cookie_names():
            resp.set_cookie(name, 'v' + name)
        if cell.raw:
            resp.append_header('Set-Cookie', 'raw%d=1' % cell.seed)
            resp.set_header('X-Extra', 'e%d' % cell.seed)
            # values that are not str yet (a counter): both calls hand the server native strings
            resp.append_header('X-Count', 7)
            resp.append_header('X-Count', 8)
            resp.set_header('X-Num', 5)
            resp.append_header('X-Once', 3)
    return fill


def preset_cl(cell, e):
    if cell.cl == 'unset':
        return None
    if e.src == 'stream' and e.payload is not None:
        n = len(e.payload)
    elif e.src == 'media':
        n = len(json.dumps(e.payload)) + (2 if e.wrap else 0)
    elif e.payload is not None:
        n = len(e.payload) + (2 if e.wrap else 0)
    else:
        n = 10
    return n if cell.cl == 'correct' else n + 3


# ---------------------------------------------------------------------------
# one execution + oracle
# ---------------------------------------------------------------------------
def execute(cell, e, ch):
    rec = S.Rec()
    stream = None
    if cell.mask & STREAM:
        if cell.kind == 'sse':
            stream = S.sse_emitter(cell.sse_events(), falcon.asgi.SSEvent, rec, ch)
        else:
            stream = S.make_stream(cell.kind, cell.stream_chunks(), rec, ch)
    _Holder.fill = make_filler(cell, e, stream)
    _Holder.recover = _Holder.fill if cell.order == 'recover' else None
    app = get_app(cell.stack, cell.klass)
    if cell.stack == 'wsgi':
        def app2(env, start_response):
            it = app(env, start_response)
            return S.AbandonIterable(it, rec, ch) if ch is not None else it
        fw = S.FileWrapper if (cell.kind or '').endswith('_fw') else None
        res = wsgi_drv.call(app2, method=cell.method, file_wrapper=fw)
    else:
        st = {'sends': 0, 'recv': 0}

        async def app2(scope, receive, send):
            async def send2(ev):
                k = st['sends']
                st['sends'] += 1
                if ch is not None and ch.choose(2, 'send-fail@%d' % k):
                    rec.faults.append(('send-fail', k))
                    raise S.SendFault('injected at send %d' % k)
                await send(ev)

            async def receive2():
                k = st['recv']
                st['recv'] += 1
                if k == 0 or cell.kind != 'sse':
                    return await receive()
                if ch is not None and ch.choose(2, 'disconnect@%d' % k):
                    rec.faults.append(('disconnect', k))
                    return {'type': 'http.disconnect'}
                import asyncio
                await asyncio.get_running_loop().create_future()      # the client stays connected

            await app(scope, receive2, send2)
        res = asgi_drv.call(app2, method=cell.method)
    _Holder.fill = _Holder.recover = None
    if stream is not None and hasattr(stream, 'aclose') and cell.stack == 'asgi':
        # finalize abandoned async generators deterministically (not judged)
        try:
            c = stream.aclose()
            c.send(None)
        except BaseException:  # noqa
            pass
    return res, rec


def judge(cell, e, res, rec):
    """-> list of (kind, extra-sig dict, explanation)."""
    out = []
    faults = list(rec.faults)
    nf = len(faults)
    wsgi = cell.stack == 'wsgi'

    def bad(kind, msg, **extra):
        out.append((kind, extra, msg))

    # -- protocol monitors ------------------------------------------------
    for p in res.problems:
        if nf and p.startswith('app returned without completing'):
            continue
        bad('protocol', 'protocol monitor: ' + p, what=''.join(c for c in p if c.isalpha() or c == ' ')[:40].strip())
    if res.exc is not None:
        injected = isinstance(res.exc, (S.StreamFault, S.SendFault))
        if not (nf and injected):
            bad('exception-escaped', 'escaped the app: %r' % (res.exc,), exc=type(res.exc).__name__)
            return out
    if not wsgi and not nf and getattr(res, 'loop_errors', None):
        bad('loop-error', 'event loop error log: %r' % (res.loop_errors[:1],))
    started = (res.start_calls == 1) if wsgi else bool(res.started)
    send_fail0 = ('send-fail', 0) in faults
    if not started:
        if not send_fail0:
            bad('no-start', 'response was never started (faults %r)' % (faults,))
        return out + judge_close(cell, e, rec, faults)
    if wsgi and res.start_calls != 1:
        bad('start-count', 'start_response called %d times' % res.start_calls)

    # -- status -----------------------------------------------------------
    given = status_value(cell.code, cell.form)
    if wsgi:
        if cell.form in ('line', 'custom'):
            ok = res.status == given
        elif cell.form == 'enum':
            ok = res.status == '%d %s' % (given.value, given.phrase)
        else:
            ok = isinstance(res.status, str) and res.status.startswith('%d ' % cell.code) and len(res.status) > 4
    else:
        ok = res.status == cell.code and type(res.status) is int
    if not ok:
        bad('status', 'status given %r, server received %r' % (given, res.status))

    # -- body ---------------------------------------------------------------
    body = res.body
    if e.suppressed:
        if body != b'':
            bad('bodiless-has-body', '%s response to %s carries %d body bytes %r'
                % (res.status, cell.method, len(body), body[:20]))
    elif e.src == 'stream' and e.events is not None:
        chunks = list(res.chunks) if wsgi else [ev.get('body', b'') for ev in res.events
                                               if ev.get('type') == 'http.response.body']
        if chunks and chunks[-1] == b'':
            chunks = chunks[:-1]                 # the closing (empty) body event
        if not nf and len(chunks) != len(e.events):
            bad('sse-count', '%d SSE events emitted, %d sent' % (len(e.events), len(chunks)))
        for ev, raw in zip(e.events, chunks):
            if not sse_event_matches(ev, raw):
                bad('sse-event', 'SSE event %r serialized as %r' % (ev, raw))
                break
        if len(chunks) > len(e.events):
            bad('sse-count', 'more SSE messages than events: %r' % (chunks,))
    elif nf == 0:
        if not body_matches(e, body):
            bad('body', 'expected body from %s (%r%s), got %r' % (e.src, e.payload, ' wrapped in <>' if e.wrap and e.src not in ('stream', 'none') else '', body))
    elif e.src == 'stream':
        kind0, k0 = faults[0]
        if nf == 1 and kind0 in ('stream-raise', 'abandon'):
            want = b''.join(e.wire[:k0])
            if body != want:
                bad('body-under-fault', 'fault %r: expected exactly %r, got %r' % (faults, want, body))
        elif nf == 1 and kind0 == 'send-fail':
            want = b''.join(e.wire[:max(0, k0 - 1)])
            if body != want:
                bad('body-under-fault', 'fault %r: expected exactly %r, got %r' % (faults, want, body))
        elif not e.payload.startswith(body):
            bad('body-under-fault', 'faults %r: body %r is not a prefix of %r' % (faults, body, e.payload))

    # -- Content-Length ---------------------------------------------------------
    cls = res.get_all('content-length')
    preset = preset_cl(cell, e)
    if len(cls) > 1:
        bad('header-duplicated', 'Content-Length sent %d times' % len(cls), name='content-length')
    cl = cls[0] if cls else None
    if cell.code in BODILESS:
        pass                                    # the statement makes no claim
    elif cell.method == 'HEAD':
        if preset is None and cl is not None and e.src != 'stream':
            want = get_length(cell, e)
            if want is not None and cl != str(want):
                bad('head-content-length', 'HEAD Content-Length %r, GET would send %d bytes' % (cl, want))
    elif e.src == 'stream':
        if preset is not None:
            if cl != str(preset):
                bad('content-length-streamed', 'application set Content-Length %d on a stream, server got %r'
                    % (preset, cl))
        elif cl is not None and (nf or cl != str(len(body))):
            bad('content-length-streamed', 'framework invented Content-Length %r for a stream' % (cl,))
    else:
        if cl is None:
            bad('content-length-missing', 'non-streamed body of %d bytes without Content-Length' % len(body))
        elif cl != str(len(body)) and not nf:
            bad('content-length-wrong', 'Content-Length %r but %d body bytes sent (preset %r)' % (cl, len(body), preset))

    # -- Content-Type -----------------------------------------------------------
    cts = res.get_all('content-type')
    if len(cts) > 1:
        bad('header-duplicated', 'Content-Type sent %d times' % len(cts), name='content-type')
    ct = cts[0] if cts else None
    rendered_media = (cell.mask & MEDIA) and not (cell.mask & (TEXT | DATA))
    if cell.ct:
        if ct != PRESET_CT:
            bad('content-type-lost', 'application set Content-Type %r, server got %r' % (PRESET_CT, ct))
    elif e.typeless:
        if ct is not None:
            bad('typeless-has-content-type', '%s response carries framework-supplied Content-Type %r'
                % (res.status, ct), via='media-render' if rendered_media else 'default')
    else:
        want = 'text/event-stream' if (e.events is not None and not e.suppressed) else DEFAULT_MEDIA_TYPE
        if ct is None:
            bad('content-type-missing', '%s response without Content-Type' % (res.status,))
        elif ct != want:
            bad('content-type-wrong', 'expected default Content-Type %r, got %r' % (want, ct))

    # -- cookies and plain headers ----------------------------------------------
    sc = res.get_all('set-cookie')
    got = sorted(v.split(';', 1)[0].strip() for v in sc)
    want = sorted(['%s=v%s' % (n, n) for n in cell.cookie_names()] + (['raw%d=1' % cell.seed] if cell.raw else []))
    if got != want:
        bad('set-cookie-lines', 'expected one Set-Cookie line each for %r, got %r' % (want, sc))
    xe = res.get_all('x-extra')
    if xe != (['e%d' % cell.seed] if cell.raw else []):
        bad('plain-header', 'X-Extra: expected %r got %r' % (['e%d' % cell.seed] if cell.raw else [], xe))
    for hn, hv in (('x-count', '7, 8'), ('x-num', '5'), ('x-once', '3')):
        got_h = res.get_all(hn)
        if got_h != ([hv] if cell.raw else []):
            bad('plain-header', '%s: expected %r got %r' % (hn, [hv] if cell.raw else [], got_h))
    names = [n for n, _ in res.header_multi() if n != 'set-cookie']
    if len(names) != len(set(names)):
        bad('header-duplicated', 'plain header repeated: %r' % (names,), name='other')
    return out + judge_close(cell, e, rec, faults)


def get_length(cell, e):
    """Bytes a GET of the same non-streamed cell sends (None: serializer-dependent)."""
    if e.src == 'media':
        return None
    return len(e.payload) + (2 if e.wrap and e.src != 'none' else 0)


def judge_close(cell, e, rec, faults):
    out = []
    if not (cell.mask & STREAM):
        return out
    begun = rec.pulls > 0
    if rec.has_close:
        if begun and rec.closes != 1:
            out.append(('close-count', {'begun': 'yes', 'closes': min(rec.closes, 2)},
                        'stream %s was read %d times and closed %d times (faults %r)'
                        % (cell.kind, rec.pulls, rec.closes, faults)))
        elif not begun and rec.closes > 1:
            out.append(('close-count', {'begun': 'no', 'closes': 2},
                        'stream %s never read but closed %d times' % (cell.kind, rec.closes)))
    elif rec.closes:
        out.append(('close-count', {'begun': 'n/a', 'closes': min(rec.closes, 2)}, 'close() on a stream without close'))
    if cell.kind == 'gen' and begun and rec.finalized != 1:
        out.append(('generator-not-finalized', {}, 'generator was started but its finally block ran %d times (faults %r)'
                    % (rec.finalized, faults)))
    return out


FAULT_DEPENDENT = frozenset(['close-count', 'generator-not-finalized', 'body-under-fault', 'exception-escaped',
                             'protocol', 'no-start', 'loop-error', 'sse-count', 'sse-event',
                             'content-length-streamed'])


def first_fault(rec):
    return rec.faults[0][0] if rec.faults else 'none'


def faultable_cell(cell, e, wide):
    """Fault points are offered where the model says the body is streamed; in the
    thorough tier in every cell that assigns a stream at all (send/abandon faults on
    responses whose stream must stay untouched)."""
    if wide:
        return bool(cell.mask & STREAM)
    return e.src == 'stream' and not e.suppressed


def run_cell(cell, bound, rep, wide=False):
    e = model(cell)
    faultable = faultable_cell(cell, e, wide)
    rep.state()

    def run(ch):
        res, rec = execute(cell, e, ch)
        rep.trans()
        rep.trace()
        viols = judge(cell, e, res, rec)
        choices = list(ch.choices) if ch is not None else []
        for kind, extra, msg in viols:
            # status form: only "line with a non-standard reason" vs. the rest matters to the code paths
            # the fault class is part of the kind only where the failure depends on the fault
            sig = {'kind': kind, 'stack': cell.stack, 'status': 'custom' if cell.form == 'custom' else 'standard',
                   'fault': first_fault(rec) if kind in FAULT_DEPENDENT else 'none'}
            if kind == 'bodiless-has-body':
                sig['why'] = 'status' if cell.code in BODILESS else 'HEAD'
            if kind in ('close-count', 'generator-not-finalized', 'body-under-fault'):
                sig['stream'] = cell.kind
            sig.update(extra)
            rep.violation(sig, {'cell': cell.to_dict(), 'choices': choices, 'wide': wide},
                          '%s; faults=%r: %s' % (cell.describe(), rec.faults, msg))
        oc = '%s/%s/%s/%s' % (cell.stack, 'suppressed' if e.suppressed else e.src, first_fault(rec),
                              'viol' if viols else 'ok')
        rep.outcome(oc)
        if rec.pulls or rec.faults:
            rep.nt((cell.key(), tuple(choices)))
        if rec.faults:
            rep.c['executions_with_fault'] += 1
        return None

    if not faultable:
        run(None)
        return
    n, pts, capped = choice.explore(run, bound)
    rep.c['choice_points'] += pts
    if capped:
        rep.cap('choice cap')


# ---------------------------------------------------------------------------
# enumeration
# ---------------------------------------------------------------------------
def popcount(m):
    return bin(m).count('1')


def gen_cells(tier, seed):
    quick = tier == 'quick'
    statuses = STATUS_FULL
    ckraw = [(0, 0), (1, 1), (2, 0)] if quick else [(0, 0), (1, 0), (0, 1), (1, 1), (2, 0), (2, 1)]
    masks = sorted(range(16), key=lambda m: (popcount(m), m))
    cells = []
    # part A: the matrix
    for mask in masks:
        for klass in ('std', 'sub'):
            for cl in ('unset', 'correct', 'wrong'):
                for ct in (False, True):
                    for ck, raw in ckraw:
                        for code, form in statuses:
                            for method in METHODS:
                                for stack in ('wsgi', 'asgi'):
                                    if mask & STREAM:
                                        kinds = S.WSGI_KINDS if stack == 'wsgi' else S.ASGI_KINDS
                                    else:
                                        kinds = (None,)
                                    for kind in kinds:
                                        if kind == 'sse' and mask != STREAM:
                                            continue   # resp.sse is documented as *the* body; no precedence claim
                                        cells.append(Cell(stack, code, form, method, mask, kind, cl, ct, ck, raw,
                                                          klass, seed=seed))
    na = len(cells)
    # part B: falsy values
    for mask in masks:
        subs = [b for b in (TEXT, DATA, MEDIA, STREAM) if mask & b]
        for r in range(1, len(subs) + 1):
            for fs in itertools.combinations(subs, r):
                falsy = sum(fs)
                for klass in ('std', 'sub'):
                    for method in ('GET', 'HEAD'):
                        for code, form in ((200, 'int'), (204, 'int')):
                            for stack in ('wsgi', 'asgi'):
                                if mask & STREAM:
                                    kinds = (('iter', 'file', 'gen', 'file_fw') if stack == 'wsgi'
                                             else ('aiter', 'afile', 'agen'))
                                else:
                                    kinds = (None,)
                                for kind in kinds:
                                    cells.append(Cell(stack, code, form, method, mask, kind, klass=klass,
                                                      falsy=falsy, seed=seed))
    nb = len(cells) - na
    # part C: stream shapes
    shapes = [(), (b'a',), (b'a', b'', b'b'), (b'ab', b'c', b'd')] + ([] if quick else [(b'', b'a'), (b'a', b'b', b'c', b'd')])
    for shape in shapes:
        for cl in ('unset', 'correct'):
            for klass in ('std', 'sub'):
                for code, form in ((200, 'int'), (404, 'enum')):
                    for method in ('GET', 'POST'):
                        for stack in ('wsgi', 'asgi'):
                            for kind in (S.WSGI_KINDS if stack == 'wsgi' else S.ASGI_KINDS):
                                cells.append(Cell(stack, code, form, method, STREAM, kind, cl=cl, klass=klass,
                                                  chunks=shape, seed=seed))
    nc = len(cells) - na - nb
    # part D: assignment order and rendering between assignments (the precedence is a property of the final
    # values, not of the order in which they were assigned or of what was rendered on the way)
    for order in ('rev', 'rmid', 'rfirst'):
        for mask in masks:
            if popcount(mask & (TEXT | DATA | MEDIA)) < 2 or mask & STREAM:
                continue
            for falsy in (0, DATA, TEXT):
                if falsy & ~mask:
                    continue
                for klass in ('std', 'sub'):
                    for code, form in ((200, 'int'), (204, 'int'), (404, 'enum')):
                        if code == 204 and order != 'rev' and mask & MEDIA:
                            # an application that itself calls render_body() on a 204 with media has asked for the
                            # media type to be filled in: whose Content-Type that is, the statement does not say
                            continue
                        for method in ('GET', 'HEAD'):
                            for stack in ('wsgi', 'asgi'):
                                cells.append(Cell(stack, code, form, method, mask, None, klass=klass, falsy=falsy,
                                                  seed=seed, order=order))
    nd = len(cells) - na - nb - nc
    # part E: the responder's representation cannot be rendered (unserializable media); the error handler for that
    # exception composes the response -- which is then subject to the same precedence / length rules
    for mask in masks:
        if mask & STREAM or not mask:
            continue
        for falsy in (0, TEXT, DATA):
            if falsy & ~mask:
                continue
            for klass in ('std', 'sub'):
                for code, form in ((200, 'int'), (204, 'int'), (404, 'enum')):
                    for method in ('GET', 'HEAD', 'POST'):
                        for ck, raw in ((0, 0), (1, 1)):
                            for stack in ('wsgi', 'asgi'):
                                cells.append(Cell(stack, code, form, method, mask, None, klass=klass, falsy=falsy,
                                                  cookies=ck, raw=raw, seed=seed, order='recover'))
    ne = len(cells) - na - nb - nc - nd
    return cells, {'matrix': na, 'falsy_values': nb, 'stream_shapes': nc, 'assignment_orders': nd, 'recovered_render_failure': ne}


def run_batch(shard, rep):
    tier, seed, lo, hi, bound = shard
    cells, _ = _cells(tier, seed)
    for cell in cells[lo:hi]:
        run_cell(cell, bound, rep, wide=(tier == 'thorough'))
        if cell.mask == STREAM and cell.method == 'GET' and cell.code == 200 and cell.cl == 'unset':
            rep.sample(cell.describe())


_CELLS = {}


def _cells(tier, seed):
    k = (tier, seed)
    if k not in _CELLS:
        _CELLS[k] = gen_cells(tier, seed)
    return _CELLS[k]


def check(rep):
    cells, parts = _cells(rep.tier, rep.seed)
    bound = 1 if rep.tier == 'quick' else 2
    for stack in ('wsgi', 'asgi'):
        for klass in ('std', 'sub'):
            get_app(stack, klass)
    rep.bounds = {'cells': len(cells), 'parts': parts, 'max_fault_deviations': bound,
                  'statuses': [repr(status_value(c, f)) for c, f in STATUS_FULL],
                  'methods': list(METHODS), 'body_subsets': 16, 'wsgi_stream_kinds': list(S.WSGI_KINDS),
                  'asgi_stream_kinds': list(S.ASGI_KINDS), 'preset_content_length': ['unset', 'correct', 'wrong'],
                  'preset_content_type': [False, True], 'response_classes': ['std', 'render_body-subclass'],
                  'fault_points': ['stream-raise@k', 'send-fail@k (ASGI)', 'abandon@k (WSGI)', 'disconnect@k (SSE)']}
    rep.rule = ('every cell of the stated product is executed once on the real app through the spec drivers; cells whose '
                'body is streamed are additionally explored under every fault sequence within the deviation bound; '
                'non-trivial = distinct (cell, fault sequence) in which a stream was read or a body had to be suppressed')
    rep.assumptions = ['pure-Python falcon from the working tree', 'HTTP/1.1; trailers and HTTP/2 rules out of scope',
                       'close() of an async generator is not judged (it has aclose(), not close())',
                       'Content-Length on 100/101/204/304 is not judged (the statement makes no claim)']
    rep.parts.update({k: {'cells': v} for k, v in parts.items()})
    bs = 400
    shards = [(rep.tier, rep.seed, i, min(i + bs, len(cells)), bound) for i in range(0, len(cells), bs)]
    par.run_shards(run_batch, shards, rep)


def replay(rec):
    from mc.core.report import Report
    rep = Report('C05')
    cell = Cell.from_dict(rec['cell'])
    e = model(cell)
    choices = tuple(rec.get('choices') or ())
    ch = choice.Chooser(choices) if (choices or faultable_cell(cell, e, rec.get('wide', False))) else None
    res, r = execute(cell, e, ch)
    viols = judge(cell, e, res, r)
    return {'violation': bool(viols), 'cell': cell.describe(), 'faults': r.faults,
            'observed': {'status': res.status, 'headers': res.header_multi(), 'body': res.body,
                         'problems': res.problems, 'exc': repr(res.exc), 'pulls': r.pulls, 'closes': r.closes},
            'details': [m for _, _, m in viols]}
