"""C06 -- WSGI, ASGI and the test client are observationally equivalent.

Engine: ENUM, differential.  Every abstract HTTP request of the explored space is
executed FOUR times against the same application logic:

  wsgi      falcon.App        through mc.drivers.wsgi.call        (spec-faithful PEP 3333 driver)
  asgi      falcon.asgi.App   through mc.drivers.asgi.call        (spec-faithful ASGI HTTP driver, VLoop)
  wsgi-sim  falcon.App        through falcon.testing.simulate_request   } falcon.testing is a SUBJECT
  asgi-sim  falcon.asgi.App   through falcon.testing.simulate_request   } under test here, never an oracle

and three pairs are compared: wsgi~asgi (the two stacks agree), wsgi~wsgi-sim and
asgi~asgi-sim (the test client shows what a real server would show).  What is compared:
the *digest* of ~60 request attributes computed inside the responder (each accessor wrapped,
an exception becomes 'EXC:<class>:<status>'), and the normalised response (status code,
case-folded sorted header multiset, body bytes).

Space (one value per dimension; index 0 = default):
  op       responder: digest | media echo | text/data/media/stream responses | 204 (int and custom
           reason line) | HTTPError family | redirects | HTTPStatus | cookies | multi-value headers |
           uncaught exception | partial resource (405/OPTIONS) | no matching route (404)
  method   GET POST PUT HEAD DELETE OPTIONS
  path     /a / /a/ /%C3%A9 /%E2%82 /%FF /a%2Fb /a+b // /a/b /a%20b /A /a% /a%zz /a/b/ /a// ///  (routes /, /a, /a/{x}, /{x} + sink)
  query    '' a=1 a=1&a=2 a=1,2 a= %zz a=%C3%A9 a=%FF = a=1&b=true a=+x a a=1&&b a=%26 a=,  b=0&a=x
  headers  20 header sets (repeated / mixed-case names, Accept, Range, If-*-Match, dates, Forwarded,
           X-Forwarded-*, Cookie with duplicate names, auth/referer/expect, explicit Host, malformed
           values, latin-1 value)
  body     none | b'' | JSON | 3 bytes | urlencoded form | truncated JSON
  chunk    one http.request event | one per byte | trailing empty event   (simulate_request: asgi_chunk_size 4096 | 1 | 4096)
  net      (scheme, host, port, root_path, remote_addr, http_version) x 10 (HTTP/1.0 = no Host header)
  opts     the 8 combinations of strip_url_path_trailing_slash, keep_blank_qs_values, auto_parse_qs_csv
Bound: t-wise exhaustive -- every combination of values of any t dimensions, all other
dimensions at their default; quick t=3, thorough t=4; plus the full product
path x query x opts x {GET, POST} (quick) / x net (thorough).

By-design differences that are NORMALISED (and therefore not compared):
  N1  req.headers: WSGI spells names upper-case, ASGI lower-case (documented) -> keys lower-cased;
      req.headers_lower is compared verbatim.
  N2  req.env / req.scope / req.log_error exist on one stack only -> not in the digest.
  N3  the body is read with req.bounded_stream.read() (WSGI) / await req.stream.read() (ASGI), media with
      req.get_media() / await req.get_media(): the sync and async flavours of the same call.
  N4  repeated header lines: a WSGI server joins them before the app sees them and the separator is
      server-dependent; the harness's WSGI "server" joins with ',' (gunicorn/wsgiref do; falcon's ASGI
      request does the same).  Repeated *singleton* headers are not generated (DESIGN C06 L).
  N5  falcon.testing adds a default User-Agent: every generated request carries its own.
  N6  falcon.testing leaves REMOTE_ADDR / scope['client'] out when remote_addr is not given: always given.
  N7  Content-Length of an empty body: simulate_request(body=b'') sends no Content-Length on WSGI but
      'Content-Length: 0' on ASGI, body=None sends none; the abstract request "empty body with
      Content-Length: 0" is therefore passed to simulate_request with the header spelled out.
  N8  response status: WSGI status line vs ASGI integer -> the code is compared; header names are
      case-folded; order is ignored (sorted multiset).
  N9  falcon.testing.Result.headers is a mapping (documented: last value wins) -> for the *-sim pairs the
      driver's header list is collapsed the same way and Set-Cookie is compared through Result.cookies
      (name -> value).
  N10 the client port / REMOTE_PORT / SERVER_SOFTWARE / wsgi.* flags are not observed.
  N11 Response.unset_cookie() stamps the wall clock into 'expires': not part of the cookie responder.
Excluded inputs (DESIGN C06 L): raw non-ASCII bytes in the query string (the two specs tunnel them
differently; defect #12 lives there and is C08's), repeated singleton headers, header values with
surrounding blanks (falcon.testing strips them by contract), invalid Content-Length (wsgiref.validate
inside simulate_request refuses the environ).
"""
import io
import itertools
import json
import warnings

from mc.core import par
from mc.core.report import digest as _dg
from mc.drivers import asgi as adrv
from mc.drivers import wsgi as wdrv

import falcon
import falcon.asgi
import falcon.testing as ft     # SUBJECT under test (C06 only)

UA = 'mc-c06/1'
warnings.filterwarnings('ignore', category=falcon.util.deprecation.DeprecatedWarning)

# ---------------------------------------------------------------------------
# alphabets
# ---------------------------------------------------------------------------
METHODS = ['GET', 'POST', 'PUT', 'HEAD', 'DELETE', 'OPTIONS']
PATHS = ['/a', '/', '/a/', '/%C3%A9', '/%E2%82', '/%FF', '/a%2Fb', '/a+b', '//', '/a/b', '/a%20b', '/A', '/a%', '/a%zz', '/a/b/',
         '/a//', '///']
BODIES = [('none', None, None), ('empty', b'', None), ('json', b'{"k": "v\\u00e9", "n": [1, 2]}', 'application/json'),
          ('raw3', b'abc', 'application/octet-stream'), ('form', b'a=5&c=6', 'application/x-www-form-urlencoded'),
          ('badjson', b'{"k": ', 'application/json'),
          # a form with a part of EXACTLY the configured max_body_part_buffer_size (64), one byte less and one more
          ('mp', (b'--BB\r\nContent-Disposition: form-data; name="at"\r\n\r\n' + b'x' * 64 +
                  b'\r\n--BB\r\nContent-Disposition: form-data; name="under"; filename="u.bin"\r\n\r\n' + b'y' * 63 +
                  b'\r\n--BB\r\nContent-Disposition: form-data; name="over"\r\n\r\n' + b'z' * 65 +
                  b'\r\n--BB--\r\n'), 'multipart/form-data; boundary=BB')]
MP_PART_LIMIT = 64
CHUNKS = ['one', 'bytes', 'trailing']
NETS = [('http', 'falconframework.org', 80, '', '127.0.0.1', '1.1'),
        ('https', 'ex.org', 443, '/app', '10.0.0.1', '1.1'),
        ('http', 'sub.ex.org', 8080, '', '::1', '1.1'),
        ('https', 'a.b.ex.org', 8443, '/r/s', '192.0.2.1', '1.1'),
        ('http', '[::1]', 8080, '', '::1', '1.1'),
        ('http', 'old.ex.org', 8000, '/app', '10.0.0.2', '1.0'),
        ('https', 'old.ex.org', 443, '', '10.0.0.3', '1.0'),
        ('http', 'old.ex.org', 80, '', '10.0.0.3', '1.0'),
        # no Host header and the OTHER scheme's default port: it is not this scheme's default, so it shows in netloc
        ('http', 'old.ex.org', 443, '', '10.0.0.4', '1.0'),
        ('https', 'old.ex.org', 80, '/app', '10.0.0.4', '1.0')]
OPTS = [(s, k, c) for s in (False, True) for k in (True, False) for c in (False, True)]   # index 0 = falcon defaults
OPS = ['digest', 'media', 'text', 'data201', 'media-resp', 'stream-len', 'stream-nolen', 'status204', 'status204-custom',
       'err404', 'err400-headers', 'err-invalid-header', 'err422', 'err405', 'redir301', 'redir302', 'redir303',
       'redir307', 'redir308', 'httpstatus', 'cookies', 'multi-header', 'boom', 'resp-attrs', 'partial', 'noroute',
       'empty-data-media', 'empty-text-data', 'empty-media-stream', 'stream-file',
       'mw-dep-complete', 'mw-indep-complete', 'mw-dep-refuse', 'params-write', 'status204-media', 'status304-media',
       # a registered error handler COMPOSES a draft (media / data / text) and then raises an HTTPStatus without
       # text, an HTTPStatus with text, or an HTTPError: the draft is discarded on both stacks alike
       'eh-media-status', 'eh-data-status', 'eh-text-status', 'eh-media-statustext', 'eh-text-error', 'eh-data-error']


class _EhErr(Exception):
    pass


def _eh_body(op, resp):
    draft, then = op.split('-')[1:3]
    if draft == 'media':
        resp.media = {'draft': 'composed by the handler \xe9'}
    elif draft == 'data':
        resp.data = b'draft-bytes'
    else:
        resp.text = 'draft text'
    resp.set_header('X-Draft', draft)
    if then == 'status':
        raise falcon.HTTPStatus(falcon.HTTP_202, headers={'X-S': 's'})
    if then == 'statustext':
        raise falcon.HTTPStatus(falcon.HTTP_203, text='final \xe9')
    raise falcon.HTTPTooManyRequests(title='slow', description='down', retry_after=3)


def names(seed):
    """Seed-dependent renaming of the symbols the application logic looks up."""
    return {'p1': ('a', 'p', 'k')[seed % 3], 'p2': ('b', 'q', 'j')[seed % 3],
            'hdr': ('X-Multi', 'X-Many', 'X-Trace')[seed % 3], 'ck': ('a', 'sid', 'c1')[seed % 3]}


def queries(nm):
    a, b = nm['p1'], nm['p2']
    return ['', a + '=1', '%s=1&%s=2' % (a, a), a + '=1,2', a + '=', '%zz', a + '=%C3%A9', a + '=%FF', '=',
            '%s=1&%s=true' % (a, b), a + '=+x', a, '%s=1&&%s' % (a, b), a + '=%26', a + '=,', '%s=0&%s=x' % (b, a)]


def header_sets(nm):
    h, ck = nm['hdr'], nm['ck']
    mixed = ''.join(c.upper() if i % 2 else c.lower() for i, c in enumerate(h))
    return [
        [],
        [(h, 'one'), (h, 'two')],
        [(mixed, 'one'), (h.upper(), 'two,three'), (h.lower(), '')],
        [('Accept', 'application/xml;q=0.9, */*;q=0.1')],
        [('accept', 'text/plain, application/x-msgpack'), ('ACCEPT', 'application/json;q=0.5')],
        [('Range', 'bytes=0-3'), ('If-Range', '"v1"')],
        [('If-Match', '"a", W/"b"'), ('If-None-Match', '*')],
        [('If-Modified-Since', 'Sun, 06 Nov 1994 08:49:37 GMT'), ('If-Unmodified-Since', 'Mon, 07 Nov 1994 08:49:37 GMT'),
         ('Date', 'Tue, 08 Nov 1994 08:49:37 GMT')],
        [('Forwarded', 'For=1.2.3.4;Proto=HTTPS;host=F.ex.org, for="[2001:db8::1]:81";by=9.9.9.9')],
        [('X-Forwarded-For', '1.1.1.1, 2.2.2.2'), ('X-Forwarded-Proto', 'HTTPS'), ('X-Forwarded-Host', 'XF.ex.org:8443'),
         ('X-Real-IP', '3.3.3.3')],
        [('X-Real-IP', '3.3.3.3'), ('X-Forwarded-Prefix', '/pfx')],
        [('Cookie', '%s=1; z=2; %s=3; bad; q="x y"' % (ck, ck))],
        [('Authorization', 'Basic Zm9vOmJhcg=='), ('Referer', 'http://ex.org/caf\xe9'), ('Expect', '100-continue'),
         ('X-Int', '42')],
        [('Host', 'other.example:8081')],
        [('Host', 'bare.example')],      # no port in the header: the scheme's default, whatever port the server listens on
        [('Range', 'bytes=x'), ('If-Modified-Since', 'garbage'), ('If-Match', 'nonsense'), ('Date', 'x'), ('X-Int', 'x')],
        [('Range', 'items=1-2, 5-6'), ('Forwarded', 'garbage;;'), ('Accept', 'nonsense')],
        # the connecting peer's own address in the MIDDLE of the forwarding chain (last-hop test vs membership)
        [('X-Forwarded-For', '127.0.0.1, 9.9.9.9')],
        [('Forwarded', 'for=127.0.0.1, for=9.9.9.9')],
        # a repeated header whose FIRST occurrence is empty (truthiness vs membership when folding)
        [(h, ''), (h, 'beta'), ('X-Forwarded-For', ''), ('X-Forwarded-For', '203.0.113.9')],
    ]


# ---------------------------------------------------------------------------
# application logic, written once; sync / async shells below
# ---------------------------------------------------------------------------
def _norm(v, depth=0):
    import datetime
    if isinstance(v, (str, int, float, bool)) or v is None:
        return v
    if isinstance(v, bytes):
        return 'bytes:' + v.decode('latin-1')
    if isinstance(v, (datetime.datetime, datetime.date)):
        return 'dt:' + v.isoformat()
    if isinstance(v, dict):
        return {'$dict': sorted(([_norm(k, depth + 1), _norm(x, depth + 1)] for k, x in v.items()), key=repr)}
    if isinstance(v, (list, tuple)):
        return [_norm(x, depth + 1) for x in v]
    cls = type(v).__name__
    if cls == 'ETag':
        return 'etag:%s:%s' % (str(v), getattr(v, 'is_weak', None))
    if cls == 'Forwarded':
        return ['fwd', v.src, v.dest, v.host, v.scheme]
    return 'obj:' + cls


def _safe(fn):
    try:
        return _norm(fn())
    except Exception as e:   # noqa
        return 'EXC:%s:%s' % (type(e).__name__, getattr(e, 'status', ''))


def make_digest(req, kw, body, nm):
    a, b, h, ck = nm['p1'], nm['p2'], nm['hdr'], nm['ck']
    g = lambda name: (lambda: getattr(req, name))   # noqa
    d = []
    for name in ('method', 'path', 'query_string', 'uri_template', 'content_type', 'content_length', 'user_agent', 'auth',
                 'expect', 'if_range', 'referer', 'accept', 'client_accepts_json', 'client_accepts_xml',
                 'client_accepts_msgpack', 'date', 'if_match', 'if_none_match', 'if_modified_since', 'if_unmodified_since',
                 'range', 'range_unit', 'root_path', 'app', 'scheme', 'forwarded_scheme', 'host', 'forwarded_host', 'port',
                 'netloc', 'subdomain', 'prefix', 'forwarded_prefix', 'uri', 'url', 'forwarded_uri', 'relative_uri',
                 'forwarded', 'access_route', 'remote_addr', 'headers_lower', 'cookies', 'params', 'is_websocket'):
        d.append([name, _safe(g(name))])
    d.append(['kw', _norm(kw)])
    d.append(['headers(N1)', _safe(lambda: {k.lower(): v for k, v in req.headers.items()})])
    d.append(['client_accepts(text/plain)', _safe(lambda: req.client_accepts('text/plain'))])
    d.append(['client_prefers', _safe(lambda: req.client_prefers(['text/plain', 'application/xml', 'application/json']))])
    for spelled in (h, h.lower(), h.upper(), 'Content-Type', 'content-length', 'HOST', 'Cookie', 'X-Absent'):
        d.append(['get_header(%s)' % spelled, _safe(lambda: req.get_header(spelled))])
    d.append(['get_header(default)', _safe(lambda: req.get_header('X-Absent', default='dflt'))])
    d.append(['get_header(required)', _safe(lambda: req.get_header('X-Absent', required=True))])
    d.append(['get_header_as_int', _safe(lambda: req.get_header_as_int('X-Int'))])
    d.append(['get_header_as_datetime', _safe(lambda: req.get_header_as_datetime('Date'))])
    d.append(['get_header_as_datetime(obs)', _safe(lambda: req.get_header_as_datetime('If-Modified-Since', obs_date=True))])
    d.append(['get_cookie_values', _safe(lambda: req.get_cookie_values(ck))])
    d.append(['get_cookie_values(absent)', _safe(lambda: req.get_cookie_values('nope'))])
    d.append(['get_param', _safe(lambda: req.get_param(a))])
    d.append(['get_param(default)', _safe(lambda: req.get_param('zz', default='D'))])
    d.append(['get_param(required)', _safe(lambda: req.get_param('zz', required=True))])
    d.append(['get_param_as_list', _safe(lambda: req.get_param_as_list(a))])
    d.append(['get_param_as_int', _safe(lambda: req.get_param_as_int(a))])
    d.append(['get_param_as_float', _safe(lambda: req.get_param_as_float(a))])
    d.append(['get_param_as_bool', _safe(lambda: req.get_param_as_bool(b))])
    d.append(['get_param_as_bool(blank)', _safe(lambda: req.get_param_as_bool(a, blank_as_true=True))])
    d.append(['has_param', _safe(lambda: [req.has_param(a), req.has_param(b), req.has_param('')])])
    d.append(['body', body])
    return d


_SIDE = []     # digests computed by the responder during the current execution (in-process side channel)


def _logic(op, nm, is_async, req, resp, kw):
    """Generator: yields 'body' / 'media' when it needs the request body; receives the value
    (or has the exception thrown in).  Everything else is stack-independent."""
    if op == 'digest' or op == 'partial' or op == 'noroute' or op == 'params-write':
        if op == 'params-write':
            # application code annotating ITS OWN request's parameter mapping (a tenant / trace id looked up later)
            req.params['_w'] = '%s %s?%s' % (req.method, req.path, req.query_string)
        try:
            body = yield 'body'
            body = _norm(body)
        except Exception as e:   # noqa
            body = 'EXC:%s:%s' % (type(e).__name__, getattr(e, 'status', ''))
        dg = make_digest(req, kw, body, nm)
        _SIDE.append(dg)
        resp.data = json.dumps(dg, ensure_ascii=True).encode('ascii')
        resp.content_type = 'application/x-digest'
    elif op == 'media':
        if (req.content_type or '').startswith('multipart/'):
            parts = yield 'parts'
            resp.media = {'parts': parts, 'ctype': req.content_type}
        else:
            m = yield 'media'
            again = yield 'media'
            resp.media = {'got': m, 'same': m == again, 'ctype': req.content_type}
    elif op == 'text':
        resp.text = 'h\xe9llo €'
        resp.set_header('X-A', 'caf\xe9')
        resp.etag = 'v1'
    elif op == 'data201':
        resp.status = falcon.HTTP_201
        resp.data = b'\x00\xff created'
        resp.location = '/things/\xe9 1'
        resp.content_type = 'application/octet-stream'
    elif op == 'media-resp':
        resp.status = '200 OK'
        resp.media = {'m': req.method, 'p': req.path, 'u': '\xe9'}
    elif op in ('stream-len', 'stream-nolen'):
        chunks = [b'ab', b'', b'cd\xff']
        if is_async:
            async def agen():
                for c in chunks:
                    yield c
            stream = agen()
        else:
            stream = iter(chunks)
        if op == 'stream-len':
            resp.set_stream(stream, 5)
        else:
            resp.stream = stream
        resp.content_type = 'application/octet-stream'
    elif op == 'stream-file':
        # a file-like stream that, like a pipe or a socket, returns fewer bytes than asked for before it is exhausted
        # (read() -> b'' is the only end-of-file signal); with and without close()
        pieces = [b'first,', b'second,', b'third\xff']

        class _F:
            def __init__(self):
                self.left = list(pieces)

            def _next(self, size):
                if not self.left:
                    return b''
                piece = self.left.pop(0)
                if size is not None and 0 <= size < len(piece):
                    self.left.insert(0, piece[size:])
                    piece = piece[:size]
                return piece
        if is_async:
            class F(_F):
                async def read(self, size=-1):
                    return self._next(size)
        else:
            class F(_F):
                def read(self, size=-1):
                    return self._next(size)
        resp.stream = F()
        resp.content_type = 'application/octet-stream'
    elif op == 'empty-data-media':
        # an explicitly EMPTY higher-precedence body source still wins (text > data > media > stream)
        resp.media = {'m': 'must not be sent'}
        resp.data = b''
    elif op == 'empty-text-data':
        resp.data = b'must not be sent'
        resp.text = ''
    elif op == 'empty-media-stream':
        resp.text = ''
        if is_async:
            async def agen2():
                yield b'must not be sent'
            resp.stream = agen2()
        else:
            resp.stream = iter([b'must not be sent'])
    elif op == 'status204':
        resp.status = 204
        resp.text = 'ignored'
    elif op == 'status204-media':
        resp.status = 204
        resp.media = {'ignored': True}
    elif op == 'status304-media':
        resp.status = '304 Not Modified'
        resp.media = ['ignored']
    elif op == 'status204-custom':
        resp.status = '204 Nothing'
        resp.text = 'ignored'
    elif op == 'err404':
        raise falcon.HTTPNotFound(title='Nope', description='no such thing: \xe9 <&>')
    elif op == 'err400-headers':
        raise falcon.HTTPBadRequest(title='Bad', description='d', headers={'X-Err': 'e1'}, code=77, href='http://h/x y')
    elif op == 'err-invalid-header':
        raise falcon.HTTPInvalidHeader('must be nice', 'X-Thing')
    elif op == 'err422':
        raise falcon.HTTPUnprocessableEntity(description='u')
    elif op == 'err405':
        raise falcon.HTTPMethodNotAllowed(['GET', 'POST'], title='no')
    elif op.startswith('redir'):
        cls = {'301': falcon.HTTPMovedPermanently, '302': falcon.HTTPFound, '303': falcon.HTTPSeeOther,
               '307': falcon.HTTPTemporaryRedirect, '308': falcon.HTTPPermanentRedirect}[op[5:]]
        raise cls('/new/place?x=1&y=%C3%A9', headers={'X-R': op})
    elif op == 'httpstatus':
        raise falcon.HTTPStatus(falcon.HTTP_202, headers={'X-S': 's'}, text='accepted \xe9')
    elif op == 'cookies':
        resp.set_cookie('one', '1', max_age=60, path='/p', secure=False, http_only=False)
        import datetime
        resp.set_cookie('two', 'deux', domain='ex.org', same_site='Lax',
                        expires=datetime.datetime(2030, 1, 2, 3, 4, 5, tzinfo=datetime.timezone.utc))
        # (unset_cookie() stamps the wall clock into 'expires': not comparable across executions)
        resp.text = 'c'
    elif op == 'multi-header':
        resp.append_header('X-M', 'a')
        resp.append_header('x-m', 'b')
        resp.append_link('/l', 'next')
        resp.set_headers([('X-N', '1'), ('X-O', '2')])
        resp.text = 'm'
    elif op == 'boom':
        raise RuntimeError('boom')
    elif op.startswith('eh-'):
        resp.text = 'responder draft'
        raise _EhErr()
    elif op.startswith('mw-'):
        resp.text = 'responder ran'
    elif op == 'resp-attrs':
        import datetime
        resp.text = 'x'
        resp.content_type = 'text/plain; charset=utf-8'
        resp.cache_control = ['no-store', 'max-age=0']
        resp.last_modified = datetime.datetime(2020, 1, 2, 3, 4, 5, tzinfo=datetime.timezone.utc)
        resp.vary = ['Accept', 'X-A']
        resp.retry_after = 7
        resp.downloadable_as = '\xe9t\xe9.txt'
        resp.content_location = '/c/\xe9'
        resp.accept_ranges = 'bytes'
        resp.content_range = (0, 0, 1)
    else:
        raise AssertionError(op)
    if False:
        yield


class SyncRes:
    def __init__(self, op, nm):
        self.op, self.nm = op, nm

    def run(self, req, resp, **kw):
        g = _logic(self.op, self.nm, False, req, resp, kw)
        try:
            want = next(g)
            while True:
                try:
                    if want == 'parts':
                        val = []
                        for part in req.get_media():
                            try:
                                val.append([part.name, part.filename, part.content_type, _norm(part.get_data())])
                            except falcon.HTTPError as e:
                                val.append([part.name, 'EXC:%s:%s' % (type(e).__name__, e.status)])
                    else:
                        val = req.bounded_stream.read() if want == 'body' else req.get_media()
                except Exception as e:   # noqa
                    want = g.throw(e)
                else:
                    want = g.send(val)
        except StopIteration:
            pass

    on_get = on_post = on_put = on_head = on_delete = run


class AsyncRes:
    def __init__(self, op, nm):
        self.op, self.nm = op, nm

    async def run(self, req, resp, **kw):
        g = _logic(self.op, self.nm, True, req, resp, kw)
        try:
            want = next(g)
            while True:
                try:
                    if want == 'parts':
                        val = []
                        async for part in (await req.get_media()):
                            try:
                                val.append([part.name, part.filename, part.content_type, _norm(await part.get_data())])
                            except falcon.HTTPError as e:
                                val.append([part.name, 'EXC:%s:%s' % (type(e).__name__, e.status)])
                    else:
                        val = (await req.stream.read()) if want == 'body' else (await req.get_media())
                except Exception as e:   # noqa
                    want = g.throw(e)
                else:
                    want = g.send(val)
        except StopIteration:
            pass

    on_get = on_post = on_put = on_head = on_delete = run


def _mw_stack(op, is_async):
    """Three components; the middle one short-circuits (resp.complete) or refuses the request in process_request; the outer
    and the inner one stamp the response in process_response.  Same stack, sync and async spelling."""
    def stamp(name):
        if is_async:
            class S:
                async def process_request(self, req, resp):
                    resp.append_header('X-Seen', name)

                async def process_response(self, req, resp, resource, ok):
                    resp.append_header('X-Stamp', '%s:%s' % (name, ok))
        else:
            class S:
                def process_request(self, req, resp):
                    resp.append_header('X-Seen', name)

                def process_response(self, req, resp, resource, ok):
                    resp.append_header('X-Stamp', '%s:%s' % (name, ok))
        return S()

    def gate_body(req, resp):
        if op.endswith('complete'):
            resp.text = 'short-circuited'
            resp.complete = True
        else:
            raise falcon.HTTPForbidden(title='refused')
    if is_async:
        class G:
            async def process_request(self, req, resp):
                gate_body(req, resp)
    else:
        class G:
            def process_request(self, req, resp):
                gate_body(req, resp)
    return [stamp('outer'), G(), stamp('inner')]


def build_apps(op, opts, nm):
    """The same logic mounted on a WSGI and on an ASGI app."""
    out = {}
    for kind, cls in (('wsgi', falcon.App), ('asgi', falcon.asgi.App)):
        if op.startswith('mw-'):
            app = cls(middleware=_mw_stack(op, kind == 'asgi'), independent_middleware=op.startswith('mw-indep'))
        else:
            app = cls()
        if op.startswith('eh-'):
            if kind == 'wsgi':
                def eh(req, resp, ex, params, _op=op):
                    _eh_body(_op, resp)
            else:
                async def eh(req, resp, ex, params, _op=op):
                    _eh_body(_op, resp)
            app.add_error_handler(_EhErr, eh)
        ro = app.req_options
        ro.strip_url_path_trailing_slash, ro.keep_blank_qs_values, ro.auto_parse_qs_csv = opts
        ro.media_handlers[falcon.MEDIA_MULTIPART].parse_options.max_body_part_buffer_size = MP_PART_LIMIT
        if op == 'partial':
            base = SyncRes if kind == 'wsgi' else AsyncRes
            res = type('Partial', (object,), {'__init__': base.__init__, 'on_get': base.run, 'on_post': base.run})(op, nm)
        else:
            res = (SyncRes if kind == 'wsgi' else AsyncRes)(op, nm)
        for tmpl in (('/a', '/a/{x}') if op == 'noroute' else ('/', '/a', '/a/{x}', '/{x}')):
            app.add_route(tmpl, res)
        if op != 'noroute' and op != 'partial':
            if kind == 'wsgi':
                def sink(req, resp, _r=res, **kw):
                    return _r.run(req, resp, **kw)
            else:
                async def sink(req, resp, _r=res, **kw):
                    return await _r.run(req, resp, **kw)
            app.add_sink(sink, '/')
        out[kind] = app
    return out


# ---------------------------------------------------------------------------
# the four executions
# ---------------------------------------------------------------------------
_SINGLETON = {'content-length', 'content-type', 'cookie', 'expect', 'from', 'host', 'max-forwards', 'referer', 'user-agent'}


def request_headers(hset, body, ctype):
    hs = [('User-Agent', UA)] + list(hset)
    if ctype is not None:
        hs.append(('Content-Type', ctype))
    return hs


def join_for_wsgi(hs):
    """N4: what a WSGI server does with repeated header lines (',' separator)."""
    out, idx = [], {}
    for n, v in hs:
        k = n.lower()
        if k in idx:
            i = idx[k]
            out[i] = (out[i][0], out[i][1] + ',' + v)
        else:
            idx[k] = len(out)
            out.append((n, v))
    return out


class Obs:
    """Normalised observation of one execution."""
    __slots__ = ('code', 'headers', 'body', 'exc', 'problems', 'cookies', 'hdict', 'digest')

    def __init__(self):
        self.code = None
        self.headers = None     # sorted list of (lower name, value) or None for *-sim
        self.hdict = None       # {lower name: value}, last wins, without set-cookie
        self.cookies = None     # {name: value}
        self.body = b''
        self.exc = None
        self.problems = []
        self.digest = None      # last digest computed by the responder (side channel)


def _cookie_pairs(values):
    out = {}
    for v in values:
        first = v.split(';', 1)[0]
        n, _, val = first.partition('=')
        out[n.strip()] = val.strip().strip('"')
    return out


def _obs_driver(res):
    o = Obs()
    if res.exc is not None:
        o.exc = '%s: %s' % (type(res.exc).__name__, str(res.exc)[:120])
        return o
    o.code = res.code
    o.headers = res.header_multi()
    o.hdict = {k: v for k, v in _ordered(res) if k != 'set-cookie'}
    o.cookies = _cookie_pairs(res.get_all('set-cookie'))
    o.body = res.body
    o.problems = list(res.problems)
    return o


def _ordered(res):
    for k, v in res.headers or []:
        if isinstance(k, bytes):
            yield k.decode('latin-1').lower(), v.decode('latin-1')
        else:
            yield k.lower(), v


def _obs_sim(fn):
    o = Obs()
    try:
        with warnings.catch_warnings():
            warnings.simplefilter('ignore')
            r = fn()
    except Exception as e:   # noqa
        o.exc = '%s: %s' % (type(e).__name__, str(e)[:120])
        return o
    o.code = r.status_code
    o.hdict = {k.lower(): v for k, v in r.headers.items() if k.lower() != 'set-cookie'}
    o.cookies = {n: c.value for n, c in r.cookies.items()}
    o.body = r.content
    return o


def execute(apps, req):
    """req: dict(method, path, query, hset, body, ctype, chunk, net). -> {'wsgi': Obs, 'asgi': ..., 'wsgi-sim': ..., 'asgi-sim': ...}"""
    scheme, host, port, root_path, remote_addr, httpv = req['net']
    body, chunk = req['body'], req['chunk']
    hs = request_headers(req['hset'], body, req['ctype'])
    drv_hs = list(hs)
    if body is not None:
        drv_hs.append(('Content-Length', str(len(body))))
    out = {}
    # 1. WSGI through the spec driver
    env = wdrv.make_environ(method=req['method'], raw_path=req['path'], query=req['query'], headers=join_for_wsgi(drv_hs),
                            body=body, scheme=scheme, host=host, port=port, root_path=root_path, remote_addr=remote_addr,
                            http_version=httpv)
    if httpv == '1.0' and not any(n.lower() == 'host' for n, _ in hs):
        env.pop('HTTP_HOST', None)
    del _SIDE[:]
    out['wsgi'] = _obs_driver(wdrv.call(apps['wsgi'], env=env))
    out['wsgi'].digest = _take()
    # 2. ASGI through the spec driver
    kw = dict(method=req['method'], raw_path=req['path'], query=req['query'], headers=drv_hs, scheme=scheme, host=host,
              port=port, root_path=root_path, remote_addr=remote_addr, http_version=httpv, include_host=httpv != '1.0')
    b = body or b''
    if chunk == 'bytes':
        events = adrv.body_events(b, [b[i:i + 1] for i in range(len(b))] or [b''])
    elif chunk == 'trailing':
        events = adrv.body_events(b, None, trailing_empty=True)
    else:
        events = adrv.body_events(b)
    out['asgi'] = _obs_driver(adrv.call(apps['asgi'], events=events, **kw))
    out['asgi'].digest = _take()
    # 3. + 4. both apps through falcon.testing (the subject)
    sim_hs = list(hs)
    if body == b'':
        sim_hs.append(('Content-Length', '0'))      # N7
    common = dict(method=req['method'], path=req['path'], query_string=req['query'], headers=sim_hs, body=body,
                  protocol=scheme, host=host, port=port, root_path=root_path or None, remote_addr=remote_addr,
                  http_version=httpv)
    out['wsgi-sim'] = _obs_sim(lambda: ft.simulate_request(apps['wsgi'], wsgierrors=io.StringIO(), **common))
    out['wsgi-sim'].digest = _take()
    out['asgi-sim'] = _obs_sim(lambda: ft.simulate_request(apps['asgi'], asgi_chunk_size=1 if chunk == 'bytes' else 4096,
                                                            **common))
    out['asgi-sim'].digest = _take()
    return out


def _take():
    d = list(_SIDE)
    del _SIDE[:]
    return d


PAIRS = (('wsgi', 'asgi'), ('wsgi', 'wsgi-sim'), ('asgi', 'asgi-sim'))


def _digest_diff(d1, d2):
    """First differing digest field of two digest lists (one digest per responder invocation)."""
    if len(d1) != len(d2):
        return 'responder-invocations', len(d1), len(d2)
    for g1, g2 in zip(d1, d2):
        for x, y in zip(g1, g2):
            if x != y:
                return x[0], x[1], y[1]
    return None


def compare(obs, op):
    """-> list of (sig-extra dict, text)"""
    out = []
    for st, o in obs.items():
        if o.problems:
            out.append(({'kind': 'protocol', 'pair': st, 'field': ''}, '%s: protocol monitor: %s' % (st, o.problems[0])))
    for x, y in PAIRS:
        a, b = obs[x], obs[y]
        pair = '%s~%s' % (x, y)
        if a.digest != b.digest:
            f, va, vb = _digest_diff(a.digest, b.digest)
            out.append(({'kind': 'request-attribute', 'pair': pair, 'field': f},
                        'req.%s: %s saw %r, %s saw %r' % (f, x, va, y, vb)))
            continue
        if a.exc or b.exc:
            if (a.exc is None) != (b.exc is None) or (a.exc or '').split(':')[0] != (b.exc or '').split(':')[0]:
                out.append(({'kind': 'exception', 'pair': pair, 'field': ((a.exc or b.exc).split(':')[0])},
                            '%s: %s ; %s: %s' % (x, a.exc or 'status %s' % a.code, y, b.exc or 'status %s' % b.code)))
            continue
        if a.code != b.code:
            out.append(({'kind': 'status', 'pair': pair, 'field': '%s/%s' % (a.code, b.code)},
                        '%s status %s, %s status %s' % (x, a.code, y, b.code)))
            continue
        if y == 'asgi':
            if a.headers != b.headers:
                diff = sorted(set(map(tuple, a.headers)) ^ set(map(tuple, b.headers)))
                out.append(({'kind': 'response-header', 'pair': pair, 'field': diff[0][0] if diff else 'multiplicity'},
                            'response headers: only one side has %r' % (diff[:4],)))
                continue
        else:
            if a.hdict != b.hdict:
                ks = sorted(k for k in set(a.hdict) | set(b.hdict) if a.hdict.get(k) != b.hdict.get(k))
                out.append(({'kind': 'response-header', 'pair': pair, 'field': ks[0]},
                            'response header %s: %s %r, %s %r' % (ks[0], x, a.hdict.get(ks[0]), y, b.hdict.get(ks[0]))))
                continue
            elif a.cookies != b.cookies:
                out.append(({'kind': 'response-cookie', 'pair': pair, 'field': ''},
                            'cookies: %s %r, %s %r' % (x, a.cookies, y, b.cookies)))
                continue
        if a.body != b.body:
            out.append(({'kind': 'body', 'pair': pair, 'field': ''},
                        'response body: %s %r, %s %r' % (x, a.body[:80], y, b.body[:80])))
    return out


# ---------------------------------------------------------------------------
# enumeration
# ---------------------------------------------------------------------------
DIMS = ('op', 'method', 'path', 'query', 'hset', 'body', 'chunk', 'net', 'opts')


def dim_sizes(nm):
    return {'op': len(OPS), 'method': len(METHODS), 'path': len(PATHS), 'query': len(queries(nm)),
            'hset': len(header_sets(nm)), 'body': len(BODIES), 'chunk': len(CHUNKS), 'net': len(NETS), 'opts': len(OPTS)}


def twise(sizes, t):
    """All index tuples with at most t non-default coordinates, simplest first."""
    n = len(DIMS)
    for k in range(t + 1):
        for dims in itertools.combinations(range(n), k):
            ranges = [range(1, sizes[DIMS[d]]) for d in dims]
            for vals in itertools.product(*ranges):
                c = [0] * n
                for d, v in zip(dims, vals):
                    c[d] = v
                yield tuple(c)


def extra_products(sizes, tier):
    """Full products over the dimensions whose interaction the statement names explicitly."""
    n = len(DIMS)
    ix = {d: i for i, d in enumerate(DIMS)}
    nets = range(sizes['net']) if tier == 'thorough' else (0,)
    for net in nets:
        for m in (0, 1):
            for p in range(sizes['path']):
                for q in range(sizes['query']):
                    for o in range(sizes['opts']):
                        c = [0] * n
                        c[ix['method']], c[ix['path']], c[ix['query']], c[ix['opts']], c[ix['net']] = m, p, q, o, net
                        yield tuple(c)


def concrete(case, nm):
    ix = dict(zip(DIMS, case))
    bname, body, ctype = BODIES[ix['body']]
    return {'op': OPS[ix['op']], 'method': METHODS[ix['method']], 'path': PATHS[ix['path']],
            'query': queries(nm)[ix['query']], 'hset': header_sets(nm)[ix['hset']], 'body': body, 'ctype': ctype,
            'chunk': CHUNKS[ix['chunk']], 'net': NETS[ix['net']], 'opts': OPTS[ix['opts']], 'bname': bname}


def input_class(case):
    """Names of the non-default dimensions (the shape of the input, not its value)."""
    return '+'.join(d for d, v in zip(DIMS, case) if v) or 'default'


_APPS = {}


def apps_for(op, opts, nm):
    k = (op, opts, tuple(sorted(nm.items())))
    if k not in _APPS:
        if len(_APPS) > 512:
            _APPS.clear()
        _APPS[k] = build_apps(op, opts, nm)
    return _APPS[k]


def run_one(rep, req, nm, case=None):
    apps = apps_for(req['op'], tuple(req['opts']), nm)
    obs = execute(apps, req)
    rep.trans(4)
    rep.trace()
    diffs = compare(obs, req['op'])
    w = obs['wsgi']
    rep.outcome('%s:%s' % (req['op'], w.code if w.exc is None else 'exc'))
    for sig, text in diffs:
        s = {'op': 'digest' if req['op'] in ('digest', 'partial', 'noroute') and sig['kind'] == 'request-attribute'
             else req['op']}
        s.update(sig)
        rep.violation(s, {'req': {k: (list(v) if isinstance(v, tuple) else v) for k, v in req.items()}, 'names': nm},
                      '%s %s?%s op=%s headers=%r body=%r chunk=%s net=%r opts(strip,keep_blank,csv)=%r: %s'
                      % (req['method'], req['path'], req['query'], req['op'], req['hset'], req['body'], req['chunk'],
                         tuple(req['net']), tuple(req['opts']), text))
    return obs, diffs


def run_batch(batch, rep):
    cases, nm = batch
    for i, case in enumerate(cases):
        req = concrete(case, nm)
        obs, diffs = run_one(rep, req, nm, case)
        rep.state()
        w = obs['wsgi']
        if w.exc is None and w.code is not None and sum(1 for v in case if v) >= 2:
            rep.nt(_dg(case))
        if i % 1999 == 0:
            rep.sample({k: v for k, v in req.items() if k != 'bname'})


def check(rep):
    nm = names(rep.seed)
    sizes = dim_sizes(nm)
    t = 3 if rep.tier == 'quick' else 4
    seen, cases = set(), []
    for c in itertools.chain(twise(sizes, t), extra_products(sizes, rep.tier)):
        if c not in seen:
            seen.add(c)
            cases.append(c)
    rep.bounds = {'dimensions': sizes, 't_wise': t, 'cases': len(cases), 'executions_per_case': 4,
                  'extra_full_product': 'path x query x opts x {GET,POST}' + (' x net' if rep.tier == 'thorough' else ''),
                  'pairs_compared': ['%s~%s' % p for p in PAIRS]}
    rep.rule = ('every case = one abstract HTTP request + responder + request options, executed on 4 stacks and compared '
                'pairwise (digest of request attributes, status, header multiset, body); state = distinct case; '
                'non-trivial = distinct cases with >= 2 non-default dimensions that produced a response on the WSGI driver')
    rep.assumptions = ['by-design differences N1-N10 (module docstring) are normalised before comparison',
                       'raw non-ASCII query bytes, repeated singleton headers, blank-padded header values and invalid '
                       'Content-Length are outside the input space (DESIGN C06 L)',
                       'falcon.testing is a subject under test here, never the oracle: the oracle is agreement with the '
                       'spec drivers in mc/drivers']
    bs = 400
    batches = [(cases[i:i + bs], nm) for i in range(0, len(cases), bs)]
    # shard order is seed-dependent (same set of shards)
    k = rep.seed % max(1, len(batches))
    batches = batches[k:] + batches[:k]
    par.run_shards(run_batch, batches, rep)


def replay(rec):
    from mc.core.report import Report
    rep = Report('C06')
    req = dict(rec['req'])
    req['hset'] = [tuple(x) for x in req['hset']]
    req['net'] = tuple(req['net'])
    req['opts'] = tuple(req['opts'])
    obs, diffs = run_one(rep, req, rec['names'])
    det = {st: {'status': o.code, 'exc': o.exc, 'headers': o.headers if o.headers is not None else o.hdict,
                'body': o.body[:300]} for st, o in obs.items()}
    return {'violation': bool(diffs), 'details': {'differences': [t for _, t in diffs], 'observations': det}}
