"""C19 -- concurrent requests do not influence one another, from the very first request.

Three parts, one oracle: every request's complete observation (status, header multiset,
body, the route params / context the responder saw, exception) equals the observation of
the same request served ALONE by a fresh app.

(1) THR  threads on a WSGI app.  2-3 first-ever requests race on the lazily compiled router.
         Real threads under mc.core.thr: scheduling points = every line event inside
         CompiledRouter.find/_compile_and_find/_compile/_generate_ast/_generate_conversion_ast/
         _instantiate_converter (thorough: also App.__call__/_get_responder), the router lock is
         replaced by a cooperative lock; ALL schedules with <= 2 preemptions are explored
         (CHOICE engine, sharded by schedule prefix).
(2) AIO  tasks on an ASGI app.  2-3 requests as tasks on one VLoop; every receive()/send()
         suspends until the environment resolves it; ALL interleavings of those resolutions
         and the loop's steps are explored.
(3) SEQ  histories.  The same requests sequentially on ONE app in every order (permutations,
         with repetition of the first request at the end), cold and warm process-wide caches.
"""
import asyncio
import itertools
import json

import falcon
import falcon.asgi
import falcon.routing.compiled as compiled_mod

from mc.core import choice, par, thr
from mc.core.vloop import VLoop
from mc.core.report import digest
from mc.drivers import wsgi as wsgid, asgi as asgid

compiled_mod.Lock = thr.CoopLock   # every router built from now on uses the cooperative lock


# ---------------------------------------------------------------------------
# generated application
# ---------------------------------------------------------------------------
class AppError(Exception):
    pass


def build_app(kind, size):
    """size: 'small' (2 routes) | 'full' (routes with fields/converters/multi-field, middleware, media, errors)"""
    is_asgi = kind == 'asgi'

    def observe(req, kw, extra=None):
        d = {'params': {k: repr(v) for k, v in sorted(kw.items())}, 'path': req.path, 'q': req.params,
             'rid': getattr(req.context, 'rid', None), 'hdr': req.get_header('X-Rid')}
        if extra is not None:
            d['body'] = extra
        return d

    if not is_asgi:
        class Echo:
            def __init__(self, name):
                self.name = name

            def on_get(self, req, resp, **kw):
                resp.media = dict(observe(req, kw), res=self.name)
                resp.set_header('X-Res', self.name)

            def on_post(self, req, resp, **kw):
                # application code annotating ITS OWN request's parameter mapping
                req.params.setdefault('_by', req.get_header('X-Rid'))
                resp.media = dict(observe(req, kw, req.get_media(default_when_empty=None)), res=self.name)

        class Err:
            def on_get(self, req, resp, **kw):
                if kw.get('code') == 1:
                    raise AppError('boom')
                if kw.get('code') == 3:
                    raise falcon.HTTPTooManyRequests(title='slow down', retry_after=30)
                raise falcon.HTTPNotFound(title='nope %s' % (kw.get('code'),), description=req.get_header('X-Rid'))

        class Widget:
            def on_get(self, req, resp, wid):
                # a status line with an application-chosen reason phrase that names the request's own parameter
                resp.status = '404 No Widget %s' % wid
                resp.media = {'widget': wid}

        class MW:
            def process_request(self, req, resp):
                req.context.rid = req.get_header('X-Rid')

            def process_response(self, req, resp, resource, ok):
                resp.set_header('X-Rid-Echo', str(getattr(req.context, 'rid', None)))

        def handle(req, resp, ex, params):
            resp.status = 418
            resp.media = {'handled': str(ex), 'rid': getattr(req.context, 'rid', None)}
        class Auth:
            def process_request(self, req, resp):
                if req.get_header('X-Deny'):
                    raise falcon.HTTPUnauthorized(title='denied')

            def process_response(self, req, resp, resource, ok):
                resp.set_header('X-Auth-Seen', '1')

        class Tail:
            def process_response(self, req, resp, resource, ok):
                resp.set_header('X-Tail', str(ok))
        if size == 'dep':
            app = falcon.App(middleware=[MW(), Auth(), Tail()], independent_middleware=False)
        else:
            app = falcon.App(middleware=[MW()] if size == 'full' else None)
    else:
        class Echo:
            def __init__(self, name):
                self.name = name

            async def on_get(self, req, resp, **kw):
                resp.media = dict(observe(req, kw), res=self.name)
                resp.set_header('X-Res', self.name)

            async def on_post(self, req, resp, **kw):
                req.params.setdefault('_by', req.get_header('X-Rid'))
                resp.media = dict(observe(req, kw, await req.get_media(default_when_empty=None)), res=self.name)

        class Err:
            async def on_get(self, req, resp, **kw):
                if kw.get('code') == 1:
                    raise AppError('boom')
                if kw.get('code') == 3:
                    raise falcon.HTTPTooManyRequests(title='slow down', retry_after=30)
                raise falcon.HTTPNotFound(title='nope %s' % (kw.get('code'),), description=req.get_header('X-Rid'))

        class Widget:
            async def on_get(self, req, resp, wid):
                resp.status = '404 No Widget %s' % wid
                resp.media = {'widget': wid}

        class MW:
            async def process_request(self, req, resp):
                req.context.rid = req.get_header('X-Rid')

            async def process_response(self, req, resp, resource, ok):
                resp.set_header('X-Rid-Echo', str(getattr(req.context, 'rid', None)))

        async def handle(req, resp, ex, params):
            resp.status = 418
            resp.media = {'handled': str(ex), 'rid': getattr(req.context, 'rid', None)}
        class Auth:
            async def process_request(self, req, resp):
                if req.get_header('X-Deny'):
                    raise falcon.HTTPUnauthorized(title='denied')

            async def process_response(self, req, resp, resource, ok):
                resp.set_header('X-Auth-Seen', '1')

        class Tail:
            async def process_response(self, req, resp, resource, ok):
                resp.set_header('X-Tail', str(ok))
        if size == 'dep':
            app = falcon.asgi.App(middleware=[MW(), Auth(), Tail()], independent_middleware=False)
        else:
            app = falcon.asgi.App(middleware=[MW()] if size == 'full' else None)
    app.add_route('/a/{x}', Echo('a'))
    app.add_route('/b/{y:int}', Echo('b'))
    if size in ('full', 'dep'):
        app.add_route('/c/{p}-{q}', Echo('c'))
        app.add_route('/a/{x}/d/{z:int(2)}', Echo('d'))
        app.add_route('/e/{code:int}', Err())
        app.add_route('/w/{wid}', Widget())
        app.add_route('/t/{when:dt}', Echo('t'))       # one converter INSTANCE serves every request on the route
        app.add_static_route('/st', static_dir())
        app.add_error_handler(AppError, handle)
    return app


_STATIC = [None]


def static_dir():
    """Two files whose media types only falcon's own suffix table knows; created once (before any fork), removed at exit."""
    if _STATIC[0] is None:
        import atexit
        import os
        import shutil
        import tempfile
        d = tempfile.mkdtemp(prefix='mc_c19_')
        pid = os.getpid()

        def cleanup():
            if os.getpid() == pid:
                shutil.rmtree(d, ignore_errors=True)
        atexit.register(cleanup)
        for name, data in (('x.yaml', b'a: 1\n'), ('y.yml', b'- b\n')):
            with open(os.path.join(d, name), 'wb') as f:
                f.write(data)
            os.utime(os.path.join(d, name), (1600000000, 1600000000))
        _STATIC[0] = d
    return _STATIC[0]


REQS = {
    'a1': dict(method='GET', raw_path='/a/1', query='k=1', headers=[('X-Rid', 'r-a1'), ('Accept', 'application/json')]),
    'a2': dict(method='GET', raw_path='/a/two', query='', headers=[('X-Rid', 'r-a2')]),
    'b2': dict(method='GET', raw_path='/b/2', query='k=2&k=3', headers=[('X-Rid', 'r-b2'), ('Accept', 'application/xml, */*;q=0.1')]),
    'bx': dict(method='GET', raw_path='/b/x', query='', headers=[('X-Rid', 'r-bx')]),
    'c': dict(method='GET', raw_path='/c/k-v', query='', headers=[('X-Rid', 'r-c')]),
    'd': dict(method='GET', raw_path='/a/9/d/42', query='', headers=[('X-Rid', 'r-d')]),
    'e1': dict(method='GET', raw_path='/e/1', query='', headers=[('X-Rid', 'r-e1')]),
    'e2': dict(method='GET', raw_path='/e/2', query='', headers=[('X-Rid', 'r-e2'), ('Accept', 'application/xml')]),
    'p1': dict(method='POST', raw_path='/a/7', query='', headers=[('X-Rid', 'r-p1'), ('Content-Type', 'application/json')],
               body=b'{"n": 1}'),
    'p2': dict(method='POST', raw_path='/b/8', query='', headers=[('X-Rid', 'r-p2'), ('Content-Type', 'application/json')],
               body=b'{"n": [2, 2]}'),
    'f1': dict(method='POST', raw_path='/a/8', query='', headers=[('X-Rid', 'r-f1'), ('Content-Type', 'application/x-www-form-urlencoded'),
                                                                  ('Accept', 'text/plain, */*;q=0.5')], body=b'n=1&m=two'),
    'pq': dict(method='POST', raw_path='/a/5', query='k=1', headers=[('X-Rid', 'r-pq'), ('Content-Type', 'application/json')],
               body=b'{"q": true}'),
    # query values with more than 7 percent-escapes (the decoder's long-input path)
    'u1': dict(method='GET', raw_path='/a/u1', query='q=%41%6C%69%63%65%2D%2D%41%41%41&z=%31', headers=[('X-Rid', 'r-u1')]),
    'u2': dict(method='GET', raw_path='/a/u2', query='q=%42%6F%62%2D%2D%2D%2D%42%42%42%42%42', headers=[('X-Rid', 'r-u2')]),
    'deny': dict(method='GET', raw_path='/b/4', query='', headers=[('X-Rid', 'r-deny'), ('X-Deny', '1')]),
    'o': dict(method='OPTIONS', raw_path='/a/1', query='', headers=[('X-Rid', 'r-o')]),
    'm': dict(method='DELETE', raw_path='/b/3', query='', headers=[('X-Rid', 'r-m')]),
    'nf': dict(method='GET', raw_path='/nope', query='', headers=[('X-Rid', 'r-nf')]),
    # errors that carry their own headers (Allow of two different routes, Retry-After)
    'm2': dict(method='DELETE', raw_path='/e/5', query='', headers=[('X-Rid', 'r-m2')]),
    'e3': dict(method='GET', raw_path='/e/3', query='', headers=[('X-Rid', 'r-e3')]),
    # same status code, request-specific reason phrases
    'w1': dict(method='GET', raw_path='/w/17', query='', headers=[('X-Rid', 'r-w1')]),
    'w2': dict(method='GET', raw_path='/w/99', query='', headers=[('X-Rid', 'r-w2')]),
    # static files (the response options' suffix table is consulted)
    's1': dict(method='GET', raw_path='/st/x.yaml', query='', headers=[('X-Rid', 'r-s1')]),
    's2': dict(method='GET', raw_path='/st/y.yml', query='', headers=[('X-Rid', 'r-s2')]),
    # parameterised content types: v=1 has been seen by a pre-history (see 'all+preN'), v=99 never
    'v1': dict(method='POST', raw_path='/a/7', query='', headers=[('X-Rid', 'r-v1'), ('Content-Type', 'application/json; v=1')],
               body=b'{"n": 1}'),
    'v99': dict(method='POST', raw_path='/b/8', query='', headers=[('X-Rid', 'r-v99'), ('Content-Type', 'application/json; v=99')],
                body=b'{"n": 99}'),
    # two broken JSON bodies: each client is told about ITS syntax error (position and kind differ)
    # one route, one dt converter instance, two different timestamps
    't1': dict(method='GET', raw_path='/t/2021-03-04T05:06:07Z', query='', headers=[('X-Rid', 'r-t1')]),
    't2': dict(method='GET', raw_path='/t/2022-05-06T07:08:09Z', query='', headers=[('X-Rid', 'r-t2')]),
    'j1': dict(method='POST', raw_path='/a/7', query='', headers=[('X-Rid', 'r-j1'), ('Content-Type', 'application/json')],
               body=b'{"first": '),
    'j2': dict(method='POST', raw_path='/b/8', query='', headers=[('X-Rid', 'r-j2'), ('Content-Type', 'application/json')],
               body=b'{"second": 1, "x" 2, "padding": "............"}'),
}


def obs_of(res):
    return (res.code, tuple(res.header_multi()), res.body, repr(res.exc) if res.exc is not None else None,
            tuple(res.problems), res.status)


def wsgi_req(app, name):
    r = dict(REQS[name])
    if 'body' in r:
        r['headers'] = r['headers'] + [('Content-Length', str(len(r['body'])))]
    return obs_of(wsgid.call(app, **r))


def asgi_req(app, name, loop=None):
    r = dict(REQS[name])
    if 'body' in r:
        r['headers'] = r['headers'] + [('Content-Length', str(len(r['body'])))]
    return obs_of(asgid.call(app, loop=loop, **r))


_SOLO = {}


def solo(kind, size, name):
    key = (kind, size, name)
    if key not in _SOLO:
        app = build_app(kind, size)
        _SOLO[key] = wsgi_req(app, name) if kind == 'wsgi' else asgi_req(app, name)
    return _SOLO[key]


def _pristine_one(key):
    if key[0] == 'aio':
        return key, aio_run(key[1], (key[2],), key[3], choice.Chooser(()))[0]
    kind, size, name = key
    app = build_app(kind, size)
    return key, (wsgi_req(app, name) if kind == 'wsgi' else asgi_req(app, name))


def ensure_pristine():
    """The reference observation of every request: alone, on a fresh app, as the FIRST request of a fresh process
    (forked from this one before it has served anything).  A baseline taken inside a process that has already served
    requests would absorb whatever those left behind in module- or class-level state."""
    if _SOLO.get('pristine'):
        return
    static_dir()
    import multiprocessing
    import os
    keys = [(kind, size, n) for kind in ('wsgi', 'asgi') for size in ('small', 'full', 'dep') for n in REQS]
    keys += [('aio', size, n, chunked) for size in ('small', 'full', 'dep') for n in REQS for chunked in (False, True)]
    workers = int(os.environ.get('MC_WORKERS', '0')) or min(16, os.cpu_count() or 1)
    with multiprocessing.get_context('fork').Pool(workers, maxtasksperchild=1) as pool:
        for key, obs in pool.imap_unordered(_pristine_one, keys, chunksize=1):
            _SOLO[key] = obs
    _SOLO['pristine'] = True


# ---------------------------------------------------------------------------
# (1) threads
# ---------------------------------------------------------------------------
ROUTER_FUNCS = {'find', '_compile_and_find', '_compile', '_generate_ast', '_generate_conversion_ast',
                '_instantiate_converter'}
APP_FUNCS = {'__call__', '_get_responder'}


def make_select(level):
    def select(code):
        fn = code.co_filename
        if fn.endswith('routing/compiled.py') and code.co_name in ROUTER_FUNCS:
            return True
        if level == 'app' and fn.endswith('falcon/app.py') and code.co_name in APP_FUNCS:
            return True
        if level == 'all':
            # every line of every falcon module (one preemption anywhere in the framework)
            return '/falcon/' in fn and '/falcon/testing/' not in fn
        return False
    return select


def thr_run_factory(size, names, level):
    # level 'all+preN': before the threads start, the app serves N requests with N distinct (parameterised) content
    # types -- bounded per-app memos (handler resolution) are then full / about to be recycled
    level, _, pre = level.partition('+pre')
    pre = int(pre) if pre else 0
    # 'all-cold': like 'all', but the racing requests are the app's first ever (lazy compile, lazily merged tables ...)
    cold = level == 'all-cold'
    if cold:
        level = 'all'
    select = make_select(level)

    def run(ch):
        app = build_app('wsgi', size)
        if level == 'all' and not cold:
            wsgi_req(app, 'nf')        # the lazy compile race is the 'router' configurations' subject
        for i in range(1, pre + 1):
            wsgid.call(app, method='POST', raw_path='/a/7', body=b'{"n": 1}',
                       headers=[('X-Rid', 'pre'), ('Content-Type', 'application/json; v=%d' % i), ('Content-Length', '8')])
        s = thr.Scheduler(ch, select, max_points=200000)
        thr.CURRENT = s
        try:
            res = s.run([(lambda n=n: wsgi_req(app, n)) for n in names])
        finally:
            thr.CURRENT = None
        return res, s.deadlock, s.switches, s.runaway
    return run


def thr_on_exec_factory(size, names, level, bound, rep):
    def on_exec(ch, out):
        res, deadlock, switches, runaway = out
        rep.trace()
        rep.trans(len(ch.choices))
        cfg = {'part': 'threads', 'size': size, 'names': list(names), 'level': level, 'bound': bound}
        if deadlock or runaway:
            rep.violation({'kind': 'deadlock' if deadlock else 'runaway', 'part': 'threads'},
                          {'cfg': cfg, 'choices': list(ch.choices)},
                          'threads %r schedule %r: %s' % (names, list(ch.choices), deadlock or 'scheduler point budget exhausted'))
            return
        for n, (r, e) in zip(names, res):
            want = solo('wsgi', size, n)
            if e is not None or r != want:
                what = 'exception' if (e is not None or (r and r[3])) else 'wrong-response'
                exc = type(e).__name__ if e is not None and not isinstance(e, str) else (str(e) if e else (r[3] or '').split('(')[0])
                rep.violation({'kind': what, 'part': 'threads', 'exc': exc},
                              {'cfg': cfg, 'choices': list(ch.choices)},
                              'threads %r schedule %r: request %s got %r / %r, alone it gets %r' % (names, list(ch.choices), n, r, e, want))
                rep.outcome('threads:violation')
                return
        rep.outcome('threads:%s:switches=%d' % (size, min(switches, 6)))
        if switches:
            rep.nt(digest(('thr', size, names, level, tuple(ch.choices))))
    return on_exec


def thr_shard(job, rep):
    size, names, level, bound, prefix = job
    run = thr_run_factory(size, names, level)
    n, pts, capped = choice.explore(run, bound, thr_on_exec_factory(size, names, level, bound, rep), start=[prefix])
    rep.state(pts)
    rep.c['thr_executions'] += n


def thr_jobs(cfgs, rep):
    jobs = []
    for size, names, level, bound in cfgs:
        run = thr_run_factory(size, names, level)
        front, n = choice.split(run, bound, 2, thr_on_exec_factory(size, names, level, bound, rep))
        rep.c['thr_executions'] += n
        rep.state(n)
        jobs += [(size, names, level, bound, p) for p in front]
        rep.sample({'part': 'threads', 'size': size, 'requests': list(names), 'points': level, 'preemption_bound': bound,
                    'subtrees': len(front)})
    return jobs


# ---------------------------------------------------------------------------
# (2) ASGI tasks
# ---------------------------------------------------------------------------
def aio_run(size, names, chunked, ch):
    loop = VLoop()
    loop.begin()
    try:
        app = build_app('asgi', size)
        slots = []
        for n in names:
            r = dict(REQS[n])
            body = r.pop('body', None)
            if body is not None:
                r['headers'] = r['headers'] + [('Content-Length', str(len(body)))]
            scope = asgid.make_scope(**r)
            if body is not None and chunked:
                k = max(1, len(body) // 2)
                events = asgid.body_events(body, [body[:k], body[k:]])
            else:
                events = asgid.body_events(body or b'')
            slot = {'name': n, 'events': events, 'i': 0, 'pend': None, 'res': asgid.Result(), 'done': False,
                    'state': {'started': False, 'complete': False}}
            slots.append(slot)

            def make(slot):
                async def receive():
                    fut = loop.create_future()
                    slot['pend'] = ('r', fut)
                    return await fut

                async def send(ev):
                    fut = loop.create_future()
                    slot['pend'] = ('s', fut, ev)
                    await fut
                return receive, send
            receive, send = make(slot)
            slot['task'] = loop.create_task(app(scope, receive, send))
        steps = 0
        while True:
            opts = []
            if loop.ready():
                opts.append(('L', None))
            for k, sl in enumerate(slots):
                p = sl['pend']
                if p is not None and not p[1].done():
                    opts.append(('E%d' % k, sl))
            if not opts:
                break
            i = ch.choose(len(opts), '|'.join(o[0] for o in opts)) if len(opts) > 1 else 0
            tag, sl = opts[i]
            if tag == 'L':
                loop.step()
            else:
                p = sl['pend']
                sl['pend'] = None
                if p[0] == 'r':
                    if sl['i'] < len(sl['events']):
                        ev = dict(sl['events'][sl['i']])
                        sl['i'] += 1
                    else:
                        ev = {'type': 'http.disconnect'}
                    p[1].set_result(ev)
                else:
                    ev = p[2]
                    res = sl['res']
                    res.events.append(ev)
                    if ev.get('type') == 'http.response.start':
                        res.status = ev.get('status')
                        res.headers = list(ev.get('headers', []))
                    elif ev.get('type') == 'http.response.body':
                        res.body += ev.get('body', b'')
                    p[1].set_result(None)
            steps += 1
            if steps > 20000:
                return 'runaway'
        out = []
        for sl in slots:
            t = sl['task']
            if not t.done():
                return 'deadlock: request %s never finished' % sl['name']
            if t.exception() is not None:
                sl['res'].exc = t.exception()
            out.append(obs_of(sl['res']))
        return out
    finally:
        for t in asyncio.all_tasks(loop):
            t.cancel()
        try:
            loop.run_until_idle(max_steps=1000)
        except Exception:
            pass
        loop.end()
        loop.close()


def aio_solo(size, name, chunked):
    key = ('aio', size, name, chunked)
    if key not in _SOLO:
        _SOLO[key] = aio_run(size, (name,), chunked, choice.Chooser(()))[0]
    return _SOLO[key]


ALL = 10 ** 9


def aio_cfg(c):
    """(size, names, chunked[, deviation bound]) -> 4-tuple; no bound = every interleaving."""
    return (c[0], c[1], c[2], c[3] if len(c) > 3 and c[3] is not None else ALL)


def aio_shard(job, rep):
    size, names, chunked, prefix, bound = job
    cfg = {'part': 'tasks', 'size': size, 'names': list(names), 'chunked': chunked}

    def run(ch):
        return aio_run(size, names, chunked, ch)

    def on_exec(ch, out):
        rep.trace()
        rep.trans(len(ch.choices))
        if isinstance(out, str):
            rep.violation({'kind': out.split(':')[0], 'part': 'tasks'}, {'cfg': cfg, 'choices': list(ch.choices)},
                          'tasks %r interleaving %r: %s' % (names, list(ch.choices), out))
            return
        for n, got in zip(names, out):
            want = aio_solo(size, n, chunked)
            if got != want:
                rep.violation({'kind': 'exception' if got[3] else 'wrong-response', 'part': 'tasks'},
                              {'cfg': cfg, 'choices': list(ch.choices)},
                              'tasks %r interleaving %r: request %s got %r, alone it gets %r' % (names, list(ch.choices), n, got, want))
                return
        rep.outcome('tasks:ok')
        if any(ch.choices):
            rep.nt(digest(('aio', size, names, chunked, tuple(ch.choices))))
    n, pts, capped = choice.explore(run, bound, on_exec, start=[prefix])
    rep.state(pts)
    rep.c['aio_executions'] += n


def aio_jobs(cfgs, rep):
    jobs = []
    for size, names, chunked, bound in map(aio_cfg, cfgs):
        front, n = choice.split(lambda ch: aio_run(size, names, chunked, ch), bound, 1 if bound == ALL else 2)
        if bound != ALL:
            # split() ran (and, with on_exec=None, did not judge) the root and its children: judge them in a worker
            jobs.append((size, names, chunked, 'top', bound))
        jobs += [(size, names, chunked, (), bound)] if not front and bound == ALL else [(size, names, chunked, p, bound) for p in front]
        if front and bound == ALL:
            # the root execution itself was run by split(); account for it in a worker-free way
            jobs.append((size, names, chunked, None, bound))
        rep.sample({'part': 'tasks', 'size': size, 'requests': list(names), 'body_chunked': chunked, 'subtrees': len(front),
                    'deviations<=': 'all' if bound == ALL else bound})
    return jobs


# ---------------------------------------------------------------------------
# (3) histories
# ---------------------------------------------------------------------------
def clear_global_caches():
    import functools
    import gc
    import falcon.util.mediatypes as mt
    import falcon.util.misc as misc
    import falcon.media.handlers as mh
    import falcon.asgi.ws as ws
    for mod in (mt, misc, mh, ws):
        for v in vars(mod).values():
            cc = getattr(v, 'cache_clear', None)
            if callable(cc):
                try:
                    cc()
                except Exception:
                    pass


def seq_shard(job, rep):
    kind, size, order, warm = job
    cfg = {'part': 'histories', 'kind': kind, 'size': size, 'order': list(order), 'warm': warm}
    want = {n: solo(kind, size, n) for n in set(order)}
    if not warm:
        clear_global_caches()
    app = build_app(kind, size)
    loop = VLoop() if kind == 'asgi' else None
    try:
        for idx, n in enumerate(order):
            got = wsgi_req(app, n) if kind == 'wsgi' else asgi_req(app, n, loop)
            rep.trans()
            if got != want[n]:
                rep.violation({'kind': 'exception' if got[3] else 'wrong-response', 'part': 'histories', 'stack': kind},
                              {'cfg': cfg},
                              '%s app, requests in order %r: #%d (%s) got %r, alone on a fresh app it gets %r'
                              % (kind, list(order), idx, n, got, want[n]))
                return
    finally:
        if loop is not None:
            loop.close()
    rep.trace()
    rep.state()
    rep.outcome('histories:%s:ok' % kind)
    rep.nt(digest(('seq', kind, size, order, warm)))


def seq_batch(batch, rep):
    for job in batch:
        seq_shard(job, rep)


# ---------------------------------------------------------------------------
# requests left out of the length-4 histories of the thorough tier (they take part in every history of length <= 3)
K4_SKIP = {'a2', 'bx', 'd', 'p2', 'u2', 'o', 'w2', 'm2', 's2', 'v1', 'v99', 'j2', 't2'}


def plan(tier, seed):
    if tier == 'quick':
        thr_cfgs = [('small', ('a1', 'b2'), 'router', 2), ('small', ('a1', 'a2'), 'router', 2), ('small', ('bx', 'nf'), 'router', 1),
                    ('full', ('c', 'd'), 'router', 1), ('small', ('a1', 'b2', 'nf'), 'router', 1),
                    # one preemption at ANY line of the framework, on a warm router: requests using different media types,
                    # Accept headers, error paths (shared resolver / negotiation caches, per-request objects)
                    ('full', ('p1', 'f1'), 'all', 1), ('full', ('e2', 'b2'), 'all', 1), ('full', ('pq', 'a1'), 'all', 1),
                    ('full', ('u1', 'u2'), 'all', 1), ('full', ('m', 'm2'), 'all', 1), ('full', ('w1', 'w2'), 'all', 1),
                    ('full', ('s1', 's2'), 'all', 1),
                    # a memoised resolution (v=1) next to a never-seen content type, the per-app memo holding 63 / 64 entries
                    ('full', ('v1', 'v99'), 'all+pre63', 1), ('full', ('v1', 'v99'), 'all+pre64', 1),
                    ('full', ('j1', 'j2'), 'all', 1), ('full', ('t1', 't2'), 'all', 1),
                    # first-ever requests that fall through the router to the static route
                    ('full', ('s1', 's2'), 'all-cold', 1)]
        aio_cfgs = [('full', ('j1', 'j2'), True), ('full', ('a1', 'b2'), False), ('full', ('p1', 'p2'), False), ('full', ('p1', 'e1'), True), ('full', ('c', 'e2'), False),
                    # dependent middleware mode: a request rejected half-way down the stack while another is parked at an await
                    ('dep', ('p1', 'deny'), True), ('dep', ('deny', 'p2'), True),
                    # three requests in flight: every interleaving with <=3 departures from the default order
                    ('full', ('a1', 'p1', 'e2'), False, 3), ('dep', ('p1', 'deny', 'a1'), True, 2)]
        names = ['a1', 'b2', 'c', 'e1', 'e2', 'p1', 'pq', 'nf', 'm', 'm2', 'e3', 'w1', 'w2', 's1', 'j1', 't1']
        perm_k = 3
    else:
        thr_cfgs = [('small', ('a1', 'b2', 'nf'), 'router', 2), ('full', ('c', 'd'), 'router', 2),
                    ('full', ('a1', 'e1'), 'router', 2), ('small', ('a1', 'b2'), 'app', 2), ('full', ('p1', 'b2'), 'app', 1),
                    ('full', ('p1', 'f1'), 'all', 1), ('full', ('e2', 'b2'), 'all', 1), ('full', ('f1', 'p2'), 'all', 1),
                    ('full', ('a1', 'p1', 'f1'), 'all', 1), ('full', ('o', 'm'), 'all', 1), ('full', ('u1', 'u2'), 'all', 1),
                    ('full', ('pq', 'a1'), 'all', 1), ('full', ('m', 'm2'), 'all', 1), ('full', ('w1', 'w2'), 'all', 1),
                    ('full', ('e3', 'm'), 'all', 1), ('full', ('w1', 'nf'), 'all', 1), ('full', ('s1', 's2'), 'all', 1),
                    ('full', ('s1', 'a1'), 'all', 1), ('full', ('u1', 'u2'), 'all', 2),
                    ('full', ('v1', 'v99'), 'all+pre63', 1), ('full', ('v1', 'v99'), 'all+pre64', 1), ('full', ('v1', 'v99'), 'all+pre65', 1),
                    ('full', ('v99', 'v1'), 'all+pre64', 1), ('full', ('j1', 'j2'), 'all', 1), ('full', ('j2', 'p1'), 'all', 1),
                    ('full', ('t1', 't2'), 'all', 1), ('full', ('s1', 's2'), 'all-cold', 1), ('full', ('s1', 'nf'), 'all-cold', 1),
                    ('full', ('t1', 't2'), 'all', 2)]
        aio_cfgs = [('full', ('j1', 'j2'), True), ('full', ('j1', 'j2'), False), ('full', ('a1', 'b2'), False), ('full', ('p1', 'p2'), True), ('full', ('p1', 'e1'), True), ('full', ('c', 'e2'), False),
                    # three requests in flight: the full interleaving space has 7.4e5 members per configuration (measured;
                    # 6 min each on 16 cores) -- explored here up to 5 (4) departures from the default order instead
                    ('full', ('a1', 'p1', 'e2'), False, 5), ('full', ('p1', 'p2', 'nf'), False, 5),
                    ('dep', ('p1', 'deny'), True), ('dep', ('deny', 'p2'), True), ('dep', ('p1', 'deny', 'a1'), True, 4)]
        names = list(REQS)
        perm_k = 4
    if seed % 2:
        thr_cfgs = [(s, tuple(reversed(n)), l, b) for s, n, l, b in thr_cfgs]
    seq_jobs = []
    for kind in ('wsgi', 'asgi'):
        for warm in (False, True):
            for k in range(1, perm_k + 1):
                for order in itertools.permutations(names, k):
                    if k == perm_k and tier == 'thorough' and (not (set(order) & {'p1', 'e1', 'b2', 'a1'}) or set(order) & K4_SKIP):
                        continue
                    seq_jobs.append((kind, 'full', order + (order[0],), warm))
    for kind in ('wsgi', 'asgi'):
        for order in itertools.permutations(['p1', 'deny', 'a1', 'pq'], 3):
            seq_jobs.append((kind, 'dep', order + (order[0],), True))
    return thr_cfgs, aio_cfgs, seq_jobs


def aio_shard_wrap(job, rep):
    if job[3] == 'top':
        # the top two levels of a deviation-bounded tree (root + every single deviation): run and judge them here
        size, names, chunked, _, bound = job
        cfg = {'part': 'tasks', 'size': size, 'names': list(names), 'chunked': chunked}

        def on_exec(ch, out):
            rep.trace()
            rep.c['aio_executions'] += 1
            if isinstance(out, str):
                rep.violation({'kind': out.split(':')[0], 'part': 'tasks'}, {'cfg': cfg, 'choices': list(ch.choices)},
                              'tasks %r interleaving %r: %s' % (names, list(ch.choices), out))
                return
            for n, got in zip(names, out):
                want = aio_solo(size, n, chunked)
                if got != want:
                    rep.violation({'kind': 'exception' if got[3] else 'wrong-response', 'part': 'tasks'},
                                  {'cfg': cfg, 'choices': list(ch.choices)},
                                  'tasks %r interleaving %r: request %s got %r, alone it gets %r' % (names, list(ch.choices), n, got, want))
                    return
        choice.explore(lambda ch: aio_run(size, names, chunked, ch), 1, on_exec)
        return
    if job[3] is None:
        # root execution (already run once by split in the parent to find the frontier): run + check it here
        size, names, chunked, _, _b = job
        out = aio_run(size, names, chunked, choice.Chooser(()))
        rep.trace()
        if isinstance(out, str):
            rep.violation({'kind': out.split(':')[0], 'part': 'tasks'}, {'cfg': {'part': 'tasks', 'size': size, 'names': list(names),
                          'chunked': chunked}, 'choices': []}, 'tasks %r default interleaving: %s' % (names, out))
            return
        for n, got in zip(names, out):
            want = aio_solo(size, n, chunked)
            if got != want:
                rep.violation({'kind': 'exception' if got[3] else 'wrong-response', 'part': 'tasks'},
                              {'cfg': {'part': 'tasks', 'size': size, 'names': list(names), 'chunked': chunked}, 'choices': []},
                              'tasks %r default interleaving: request %s got %r, alone %r' % (names, n, got, want))
        return
    aio_shard(job, rep)


def check(rep):
    thr_cfgs, aio_cfgs, seq_jobs = plan(rep.tier, rep.seed)
    rep.bounds = {'threads': [{'app': s, 'requests': list(n), 'points': l, 'preemptions<=': b} for s, n, l, b in thr_cfgs],
                  'tasks': [{'app': s, 'requests': list(n), 'chunked_body': c,
                             'interleavings': 'all' if b == ALL else 'all with <=%d departures from the default (FIFO, server answers at once) order' % b}
                            for s, n, c, b in map(aio_cfg, aio_cfgs)],
                  'histories': '%d sequential orders (permutations of <=%d of the request set + repeat of the first), WSGI and ASGI, '
                               'cold and warm process-wide caches' % (len(seq_jobs), 3 if rep.tier == 'quick' else 4)}
    rep.rule = ('oracle everywhere: observation == observation of the same request alone on a fresh app; threads: all schedules with '
                'at most the stated number of preemptions at line granularity in the router (thorough: + App.__call__/_get_responder); '
                'tasks: all interleavings of receive/send completions and loop steps; non-trivial = schedules with >=1 context switch / '
                'interleavings with >=1 non-default choice / every history')
    rep.assumptions = ['line-granularity scheduling under the GIL; free-threaded builds and C-level races are not modelled',
                       'falcon.routing.compiled.Lock is rebound to a cooperative lock by the harness (no source hook)',
                       "asyncio's FIFO ready queue is kept"]
    # Solo observations first.  This also brings the process-wide caches (media type parsing, status lines,
    # header names ...) into their steady state BEFORE any schedule is explored: a first execution that misses a
    # cache runs through different lines than the replays that hit it, which would make prefixes diverge.
    # (Cold-versus-warm behaviour is the subject of the sequential 'histories' part.)
    ensure_pristine()
    for kind in ('wsgi', 'asgi'):
        for size in ('small', 'full', 'dep'):
            for n in REQS:
                for _round in (0, 1):
                    app = build_app(kind, size)
                    got = wsgi_req(app, n) if kind == 'wsgi' else asgi_req(app, n)
                    rep.trans()
                    if got != solo(kind, size, n):
                        rep.violation({'kind': 'exception' if got[3] else 'wrong-response', 'part': 'isolation', 'stack': kind},
                                      {'cfg': {'part': 'isolation', 'kind': kind, 'size': size, 'name': n}},
                                      '%s/%s: request %s alone on a FRESH app, but in a process that has already served other '
                                      'requests (on other app instances), gets %r; as the first request of a fresh process it '
                                      'gets %r' % (kind, size, n, got, solo(kind, size, n)))
    # threads
    tj = thr_jobs(thr_cfgs, rep)
    par.run_shards(thr_shard, tj, rep)
    # tasks
    aj = aio_jobs(aio_cfgs, rep)
    par.run_shards(aio_shard_wrap, aj, rep)
    # histories
    bs = max(1, len(seq_jobs) // 128)
    par.run_shards(seq_batch, [seq_jobs[i:i + bs] for i in range(0, len(seq_jobs), bs)], rep)
    rep.parts['threads'] = {'executions': rep.c['thr_executions']}
    rep.parts['tasks'] = {'executions': rep.c['aio_executions']}
    rep.parts['histories'] = {'orders': len(seq_jobs)}


def replay(rec):
    from mc.core.report import Report
    rep = Report('C19')
    cfg = rec['cfg']
    ensure_pristine()
    if cfg['part'] != 'isolation':
        # the same process history as in check(): every request has been served twice on fresh apps before anything
        # is explored (a violation may depend on what those left behind in process-wide state)
        for kind in ('wsgi', 'asgi'):
            for size in ('small', 'full', 'dep'):
                for n in REQS:
                    for _round in (0, 1):
                        app = build_app(kind, size)
                        wsgi_req(app, n) if kind == 'wsgi' else asgi_req(app, n)
    if cfg['part'] == 'isolation':
        bad = []
        for kind in ('wsgi', 'asgi'):
            for size in ('small', 'full', 'dep'):
                for n in REQS:
                    app = build_app(kind, size)
                    got = wsgi_req(app, n) if kind == 'wsgi' else asgi_req(app, n)
                    if got != solo(kind, size, n):
                        bad.append((kind, size, n, got, solo(kind, size, n)))
        return {'violation': bool(bad), 'details': bad[:3]}
    if cfg['part'] == 'threads':
        names = tuple(cfg['names'])
        run = thr_run_factory(cfg['size'], names, cfg['level'])
        ch = choice.Chooser(tuple(rec['choices']))
        out = run(ch)
        thr_on_exec_factory(cfg['size'], names, cfg['level'], cfg['bound'], rep)(ch, out)
    elif cfg['part'] == 'tasks':
        names = tuple(cfg['names'])
        ch = choice.Chooser(tuple(rec['choices']))
        out = aio_run(cfg['size'], names, cfg['chunked'], ch)
        if isinstance(out, str):
            return {'violation': True, 'details': out}
        bad = [(n, got, aio_solo(cfg['size'], n, cfg['chunked'])) for n, got in zip(names, out)
               if got != aio_solo(cfg['size'], n, cfg['chunked'])]
        return {'violation': bool(bad), 'details': bad}
    else:
        seq_shard((cfg['kind'], cfg['size'], tuple(cfg['order']), cfg['warm']), rep)
    v = list(rep.viol.values())
    return {'violation': bool(v), 'details': [x['explain'] for x in v]}
