"""C20 -- the built-in CORS policy grants exactly the configured origins.

Engine: ENUM (DESIGN.md C20): the full product
  configuration  allow_origins x allow_credentials x expose_headers   (`configs()`)
x composition    CORSMiddleware alone / via cors_enable=True / between other components that
                 complete the request, raise in process_request / process_resource /
                 process_response, or supply an Allow header; independent_middleware T/F
x stack          WSGI, ASGI
x request        Origin (absent, each configured, unconfigured, case variant)
               x (method, Access-Control-Request-Method, Access-Control-Request-Headers)
               x target path (default OPTIONS, own on_options with/without Allow, responders
                 pre-setting Access-Control-Allow-Origin, raising responders, sinks with/without
                 Allow, static route hit/miss, unrouted)

Oracle (`expected()`): a decision table written from the property statement.  It
is applied to the *baseline response* = the response of the same application with
a do-nothing component in the CORS component's place, so "left untouched" is
literal: every header of the final response (multiset), the status and the body
are compared.
  * no Origin / Origin not allowed / CORS component not reached  -> baseline, unchanged
  * allowed                     -> + Access-Control-Allow-Origin (the origin when credentials are
                                   granted or the configuration is a list; '*' for the wildcard
                                   configuration without credentials), + Allow-Credentials: true
                                   iff the origin is configured for credentials, + Expose-Headers
                                   iff configured; a pre-set Allow-Origin is kept and then no
                                   credentials are granted
  * preflight (OPTIONS + Access-Control-Request-Method) that succeeded
        - baseline has Allow    -> approved: Allow removed, Allow-Methods = that Allow,
                                   Allow-Headers = requested headers or '*', Max-Age = integer
        - no Allow              -> ALL Access-Control-* headers absent, Allow absent
  * preflight that did not succeed -> not approved; (statement is ambiguous whether the simple
                                   grants stay) either the simple grants or everything withdrawn
"""
import itertools
import logging
import os
import shutil
import tempfile

from mc.core import par, vloop
from mc.drivers import asgi as adrv
from mc.drivers import wsgi as wdrv

import falcon
import falcon.asgi

logging.getLogger('falcon').setLevel(100)

AC = 'access-control-'
ACAO = 'access-control-allow-origin'
ACAC = 'access-control-allow-credentials'
ACEH = 'access-control-expose-headers'
ACAM = 'access-control-allow-methods'
ACAH = 'access-control-allow-headers'
ACMA = 'access-control-max-age'


# ---------------------------------------------------------------------------
# alphabet (VERIF_SEED only renames hosts / header names / path names)
# ---------------------------------------------------------------------------
def names(seed):
    k = seed % 3
    host = ('example', 'test', 'invalid')[k]
    o1 = 'https://a.%s' % host
    return {
        'o1': o1, 'o2': 'https://b.%s' % host, 'o3': 'http://c.%s:8080' % host,
        'oc': o1.upper(),                                 # case variant of o1
        'om': 'https://M.%s' % host.capitalize(),         # a CONFIGURED origin that is not all lower-case
        'pre': 'https://preset.%s' % host,                # what a responder pre-sets
        'xa': ('X-A', 'X-Trace', 'ETag')[k], 'xb': ('X-B', 'X-Rate', 'Link')[k],
        'reqh': ('X-Custom, Content-Type', 'Authorization', 'x-one,x-two')[k],
        'file': ('f.txt', 'g.txt', 'h.bin')[k],
    }


def configs(nm, tier):
    """[(allow_origins, allow_credentials, expose_headers)] -- constructor arguments."""
    o1, o2, o3 = nm['o1'], nm['o2'], nm['o3']
    ao = ['*', o1, [o1, o2], [], [nm['om'], o2]]
    ac = [None, '*', o1, [o1, o3]]
    eh = [None, nm['xa'], [nm['xa'], nm['xb']]]
    if tier != 'quick':
        ao += [(o1,), [o2, o3, o1]]
        ac += [o3, [], [o2]]
    return list(itertools.product(ao, ac, eh))


class Policy:
    """The reading of a configuration (independent of CORSMiddleware.__init__)."""

    def __init__(self, ao, ac, eh):
        self.wild = ao == '*'
        self.origins = None if self.wild else ({ao} if isinstance(ao, str) else set(ao))
        self.cred_wild = ac == '*'
        self.creds = set() if ac is None or self.cred_wild else ({ac} if isinstance(ac, str) else set(ac))
        self.expose = None if eh is None else (eh if isinstance(eh, str) else ', '.join(eh))

    def allowed(self, origin):
        return origin is not None and (self.wild or origin in self.origins)

    def cred(self, origin):
        return self.allowed(origin) and (self.cred_wild or origin in self.creds)


def origins(nm, tier='quick'):
    # ... and a proper PREFIX and a proper INFIX of a configured origin (substring vs membership tests)
    o = [None, nm['o1'], nm['o2'], nm['o3'], nm['oc'], nm['o1'][:-1], nm['o1'][8:], nm['om'], nm['om'].lower()]
    if tier != 'quick':
        o += ['null', nm['o2'] + '/']          # opaque origin; configured origin with a trailing slash (a different string)
    return o


def req_shapes(nm, tier):
    """(method, ACRM, ACRH)"""
    s = [('GET', None, None), ('OPTIONS', 'GET', None), ('OPTIONS', None, None), ('POST', None, None),
         ('OPTIONS', 'POST', nm['reqh']), ('DELETE', None, None), ('GET', 'GET', None), ('OPTIONS', None, nm['reqh'])]
    if tier != 'quick':
        s += [('HEAD', None, None), ('POST', 'POST', nm['reqh']), ('OPTIONS', 'BOGUS', '*')]
    return s


PATHS = ['/plain', '/own', '/noallow', '/preset', '/preset2', '/raise', '/sinkallow/1', '/sinkno/1',
         '/static/@file', '/static/missing', '/nothing']

# model of the targets: routed resource?  which (path, method) return normally?
ROUTED = {'/plain', '/own', '/noallow', '/preset', '/preset2', '/raise'}
OK = {
    '/plain': {'GET', 'POST', 'OPTIONS'},
    '/own': {'GET', 'OPTIONS'},
    '/noallow': {'GET', 'OPTIONS'},
    '/preset': {'GET', 'POST', 'OPTIONS'},
    '/preset2': {'GET', 'OPTIONS'},
    '/raise': set(),
    '/sinkallow/1': None,      # None = every method
    '/sinkno/1': None,
    '/static/@file': None,
    '/static/missing': {'OPTIONS'},
    '/nothing': set(),
}

# compositions: (name, outer kind, inner kind, independent_middleware, how)
COMPOSITIONS = [
    ('alone', None, None, True, 'mw'),
    ('alone-positional', None, None, True, 'mwpos'),
    ('cors_enable', None, None, True, 'flag'),
    ('cors_enable+noop', 'noop', None, True, 'flag'),       # App(cors_enable=True, middleware=[noop])
    ('cors_enable+single', 'noop', None, True, 'flag1'),    # middleware given as a bare object
    # the built-in component is APPENDED (below the user's, whichever call form): in dependent mode a user component
    # that refuses the request keeps it from running at all
    ('dep:cors_enable+single-raises', 'raise_req', None, False, 'flag1'),
    ('dep:cors_enable+list-raises', 'raise_req', None, False, 'flag'),
    ('between-noops', 'noop', 'noop', True, 'mw'),
    ('outer-completes', 'complete', None, True, 'mw'),
    ('outer-completes-allow', 'complete_allow', None, True, 'mw'),
    ('outer-raises-req', 'raise_req', None, True, 'mw'),
    # ... with an error that itself advertises Allow (405): a FAILED exchange that carries an Allow header
    ('outer-raises-req-allow', 'raise_req_allow', None, True, 'mw'),
    ('inner-raises-resp', None, 'raise_resp', True, 'mw'),
    ('inner-raises-rsrc', None, 'raise_rsrc', True, 'mw'),
    ('inner-sets-allow', None, 'set_allow', True, 'mw'),
    ('dep:alone', None, None, False, 'mw'),
    ('dep:outer-raises-req', 'raise_req', None, False, 'mw'),
    ('dep:outer-raises-req-allow', 'raise_req_allow', None, False, 'mw'),
    ('dep:outer-completes', 'complete', 'noop', False, 'mw'),
    ('dep:inner-raises-resp', 'noop', 'raise_resp', False, 'mw'),
]


def model_exchange(comp, path, method):
    """(cors component's process_response runs?, exchange succeeded as seen there?)
    -- the documented middleware discipline for the few shapes generated here."""
    _, outer, inner, independent, _ = comp
    exc = False
    complete = False
    cors_runs = True
    if outer in ('complete', 'complete_allow'):
        complete = True
    elif outer in ('raise_req', 'raise_req_allow'):
        exc = True
        if not independent:
            cors_runs = False          # its process_request was never reached
    if not exc and not complete:
        if path in ROUTED and inner == 'raise_rsrc':
            exc = True
        else:
            ok = OK[path]
            if ok is not None and method not in ok:
                exc = True
    succeeded = not exc
    if inner == 'raise_resp':
        succeeded = False              # runs before the CORS component's process_response
    return cors_runs, succeeded


# ---------------------------------------------------------------------------
# the decision table
# ---------------------------------------------------------------------------
def _has(h, name):
    return any(k == name for k, _ in h)


def _get(h, name):
    for k, v in h:
        if k == name:
            return v
    return None


def _without(h, pred):
    return [(k, v) for k, v in h if not pred(k)]


def _norm_list(v):
    return ','.join(sorted(x.strip() for x in v.split(',') if x.strip()))


def canon_headers(h, pol, origin):
    """Order-free, and free of what the statement leaves open: list order inside
    Allow-Methods/Allow-Headers, the Max-Age number, '*' vs echo when a wildcard
    configuration grants no credentials."""
    out = []
    for k, v in h:
        if k in (ACAM, ACAH):
            v = _norm_list(v)
        elif k == ACMA:
            v = 'N' if v.isdigit() else v
        elif k == ACAO and pol is not None and pol.wild and not pol.cred(origin) and v == origin:
            v = '*'
        out.append((k, v))
    return sorted(out)


def expected(base, pol, origin, method, acrm, acrh, cors_runs, succeeded):
    """base: baseline header list [(lower name, value)].  Returns (class, [acceptable header lists])."""
    if not cors_runs:
        return 'cors-not-reached', [base]
    if origin is None:
        return 'no-origin', [base]
    if not pol.allowed(origin):
        return 'origin-denied', [base]
    simple = list(base)
    cls = 'grant'
    if not _has(base, ACAO):
        if pol.cred(origin):
            simple.append((ACAC, 'true'))
            simple.append((ACAO, origin))
            cls = 'grant+credentials'
        else:
            simple.append((ACAO, '*' if pol.wild else origin))
    else:
        cls = 'preset-origin-kept'
    if pol.expose:
        simple = _without(simple, lambda k: k == ACEH) + [(ACEH, pol.expose)]
    if not (method == 'OPTIONS' and acrm):
        return cls, [simple]
    withdrawn = _without(base, lambda k: k.startswith(AC) or k == 'allow')
    if not succeeded:
        return 'preflight-failed:' + cls, [simple, withdrawn]
    allow = _get(base, 'allow')
    if allow is None:
        return 'preflight-withdrawn', [withdrawn]
    appr = _without(simple, lambda k: k == 'allow' or k in (ACAM, ACAH, ACMA))
    appr += [(ACAM, allow), (ACAH, acrh if acrh is not None else '*'), (ACMA, '86400')]
    return 'preflight-approved:' + cls, [appr]


# ---------------------------------------------------------------------------
# generated application (real falcon objects), sync and async flavours
# ---------------------------------------------------------------------------
def _mk(is_async, body):
    """body(req, resp, *a, **kw) is a plain function; wrap it in the right flavour."""
    if is_async:
        async def f(self, req, resp, *a, **kw):
            return body(req, resp, *a, **kw)
    else:
        def f(self, req, resp, *a, **kw):
            return body(req, resp, *a, **kw)
    return f


def _raiser(exc_factory):
    def body(req, resp, *a, **kw):
        raise exc_factory()
    return body


def build_resources(nm, is_async):
    def text(t):
        def body(req, resp, *a, **kw):
            resp.text = t
        return body

    def own_allow(req, resp, *a, **kw):
        resp.set_header('Allow', 'GET, PATCH')

    def no_allow(req, resp, *a, **kw):
        resp.set_header('Content-Length', '0')

    def preset(v, allow=None):
        def body(req, resp, *a, **kw):
            resp.set_header('Access-Control-Allow-Origin', v)
            if allow:
                resp.set_header('Allow', allow)
            resp.text = 'preset'
        return body

    def cls(**m):
        return type('Res', (object,), {k: _mk(is_async, v) for k, v in m.items()})()

    return {
        '/plain': cls(on_get=text('get'), on_post=text('post')),
        '/own': cls(on_get=text('get'), on_options=own_allow),
        '/noallow': cls(on_get=text('get'), on_options=no_allow),
        '/preset': cls(on_get=preset(nm['pre']), on_post=preset('*'), on_options=preset(nm['pre'], 'GET')),
        '/preset2': cls(on_get=preset(nm['o1']), on_options=preset(nm['pre'])),
        '/raise': cls(on_get=_raiser(lambda: falcon.HTTPForbidden(title='no')),
                      on_post=_raiser(lambda: RuntimeError('boom')),
                      on_options=_raiser(lambda: falcon.HTTPStatus(200, headers={'Allow': 'GET'}))),
    }


def build_sink(is_async, with_allow):
    def body(req, resp, **kw):
        if req.method == 'OPTIONS' and with_allow:
            resp.set_header('ALLOW', 'GET, PUT')
        else:
            resp.text = 'sink'
    if is_async:
        async def sink(req, resp, **kw):
            body(req, resp, **kw)
    else:
        def sink(req, resp, **kw):
            body(req, resp, **kw)
    return sink


def build_component(kind, is_async):
    """Other middleware.  All have process_response (so dependent mode registers them)."""
    m = {}

    def noop(req, resp, *a, **kw):
        return None

    if kind == 'noop':
        m['process_request'] = noop
        m['process_resource'] = noop
        m['process_response'] = noop
    elif kind in ('complete', 'complete_allow'):
        def pr(req, resp):
            resp.complete = True
            resp.text = 'completed early'
            if kind == 'complete_allow' and req.method == 'OPTIONS':
                resp.set_header('Allow', 'GET, POST')
        m['process_request'] = pr
        m['process_response'] = noop
    elif kind == 'raise_req':
        m['process_request'] = _raiser(lambda: falcon.HTTPUnauthorized(title='outer'))
        m['process_response'] = noop
    elif kind == 'raise_req_allow':
        m['process_request'] = _raiser(lambda: falcon.HTTPMethodNotAllowed(['GET', 'POST'], title='outer'))
        m['process_response'] = noop
    elif kind == 'raise_resp':
        m['process_response'] = _raiser(lambda: falcon.HTTPServiceUnavailable(title='inner'))
    elif kind == 'raise_rsrc':
        m['process_resource'] = _raiser(lambda: falcon.HTTPConflict(title='inner'))
        m['process_response'] = noop
    elif kind == 'set_allow':
        def ps(req, resp, resource, ok):
            if req.method == 'OPTIONS' and ok:
                resp.set_header('Allow', 'GET')
        m['process_response'] = ps
    else:
        raise AssertionError(kind)
    return type('Comp_' + kind, (object,), {k: _mk(is_async, v) for k, v in m.items()})()


def build_placeholder(is_async):
    """Stands where the CORS component stands, does nothing (same method set as CORSMiddleware)."""
    def noop(req, resp, *a, **kw):
        return None
    return type('Placeholder', (object,), {'process_response': _mk(is_async, noop)})()


def build_app(comp, stack, cfg, nm, static_dir):
    """cfg=None -> baseline (placeholder instead of CORSMiddleware / no cors_enable)."""
    _, outer, inner, independent, how = comp
    is_async = stack == 'asgi'
    App = falcon.asgi.App if is_async else falcon.App
    o = build_component(outer, is_async) if outer else None
    i = build_component(inner, is_async) if inner else None
    if how in ('mw', 'mwpos'):
        if cfg is None:
            mid = build_placeholder(is_async)
        elif how == 'mwpos':
            # the released positional order: (allow_origins, expose_headers, allow_credentials)
            mid = falcon.CORSMiddleware(cfg[0], cfg[2], cfg[1])
        else:
            mid = falcon.CORSMiddleware(allow_origins=cfg[0], allow_credentials=cfg[1], expose_headers=cfg[2])
        mw = [x for x in (o, mid, i) if x is not None]
        app = App(middleware=mw, independent_middleware=independent)
    else:
        on = cfg is not None
        if o is None:
            app = App(cors_enable=on)
        elif how == 'flag1':
            app = App(cors_enable=on, middleware=o, independent_middleware=independent)
        else:
            app = App(cors_enable=on, middleware=[o], independent_middleware=independent)
    for p, r in build_resources(nm, is_async).items():
        app.add_route(p, r)
    app.add_sink(build_sink(is_async, True), '/sinkallow')
    app.add_sink(build_sink(is_async, False), '/sinkno')
    app.add_static_route('/static', static_dir)
    return app


# ---------------------------------------------------------------------------
# running
# ---------------------------------------------------------------------------
def do_request(app, stack, nm, path, origin, shape, loop):
    method, acrm, acrh = shape
    hdrs = []
    if origin is not None:
        hdrs.append(('Origin', origin))
    if acrm is not None:
        hdrs.append(('Access-Control-Request-Method', acrm))
    if acrh is not None:
        hdrs.append(('Access-Control-Request-Headers', acrh))
    rp = path.replace('@file', nm['file'])
    if stack == 'asgi':
        res = adrv.call(app, method=method, raw_path=rp, headers=hdrs, loop=loop)
    else:
        res = wdrv.call(app, method=method, raw_path=rp, headers=hdrs)
    return res


def snapshot(res):
    if res.exc is not None:
        return ('exc', type(res.exc).__name__ + ': ' + str(res.exc)[:100])
    if res.problems:
        return ('problems', tuple(res.problems))
    return ('ok', res.code, res.header_multi(), res.body)


def origin_class(nm, origin, pol):
    if origin is None:
        return 'absent'
    c = 'case-variant' if origin == nm['oc'] else 'plain'
    return c + ('/allowed' if pol.allowed(origin) else '/denied') + ('/cred' if pol.cred(origin) else '')


def diff(exp_lists, got):
    e = exp_lists[0]
    missing = [x for x in e if x not in got]
    extra = [x for x in got if x not in e]
    return 'missing %r, unexpected %r' % (missing, extra)


def check_cell(rep, comp, stack, cfg, pol, nm, path, origin, shape, base, res, replay_extra=None):
    method, acrm, acrh = shape
    rep.trans()
    rep.trace()
    cors_runs, succeeded = model_exchange(comp, path, method)
    got = snapshot(res)
    rec = {'comp': comp[0], 'stack': stack, 'cfg': list(cfg), 'path': path, 'origin': origin, 'shape': list(shape),
           'names': nm}
    tgt = path.split('/')[1]
    if base[0] != 'ok' or got[0] != 'ok':
        # a baseline that already fails is not CORS's doing; only report when CORS changes it
        if got[0] != base[0] or (got[0] != 'ok' and got != base):
            rep.violation({'kind': 'exchange-broke:' + got[0], 'stack': stack, 'target': tgt}, rec,
                          'baseline %r, with CORS %r' % (base[:2], got[:2]))
        return
    cls, exps = expected(base[2], pol, origin, method, acrm, acrh, cors_runs, succeeded)
    rep.outcome(cls)
    if cls not in ('no-origin', 'origin-denied', 'cors-not-reached'):
        rep.nt((comp[0], stack, tuple(map(str, cfg)), path, origin, shape))
    if got[1] != base[1] or got[3] != base[3]:
        rep.violation({'kind': 'status-or-body-changed', 'stack': stack, 'cell': cls.split(':')[0]},
                      rec, 'baseline status %r body %r; with CORS %r %r' % (base[1], base[3][:40], got[1], got[3][:40]))
        return
    cg = canon_headers(got[2], pol, origin)
    for e in exps:
        if canon_headers(e, pol, origin) == cg:
            return
    # which header(s) are wrong -> part of the signature (a class, not raw input)
    ce = canon_headers(exps[0], pol, origin)
    wrong = sorted({k for k, v in cg if (k, v) not in ce} | {k for k, v in ce if (k, v) not in cg})
    if len(wrong) > 2:
        # many headers at once: name the groups, so that one defect is not one signature per configuration
        grp = {ACAO: 'origin-grant', ACAC: 'origin-grant', ACEH: 'expose', ACAM: 'approval', ACAH: 'approval',
               ACMA: 'approval', 'allow': 'approval'}
        wrong = sorted({grp.get(k, k) for k in wrong})
    wrong = [k.replace(AC, 'ac-') for k in wrong]
    rep.violation(
        {'kind': 'headers', 'cell': cls.split(':')[0], 'wrong': ','.join(wrong)[:80], 'stack': stack},
        rec,
        'composition=%s stack=%s CORSMiddleware(allow_origins=%r, allow_credentials=%r, expose_headers=%r) '
        '%s %s Origin=%r ACRM=%r ACRH=%r: decision table cell %s; %s; response headers %r'
        % (comp[0], stack, cfg[0], cfg[1], cfg[2], method, path, origin, acrm, acrh, cls, diff([ce], cg), cg))


def run_shard(shard, rep):
    ci, stack, lo, hi, seed, tier, static_dir = shard
    comp = COMPOSITIONS[ci]
    nm = names(seed)
    cfgs = configs(nm, tier)
    if comp[4] not in ('mw', 'mwpos'):
        cfgs = [('*', None, None)]      # cors_enable=True constructs the default policy
    shapes = req_shapes(nm, tier)
    orgs = origins(nm, tier)
    loop = vloop.VLoop() if stack == 'asgi' else None
    try:
        base_app = build_app(comp, stack, None, nm, static_dir)
        base = {}
        for path in PATHS:
            for origin in orgs:
                for shape in shapes:
                    base[(path, origin, shape)] = snapshot(do_request(base_app, stack, nm, path, origin, shape, loop))
                    rep.trans()
        for cfg in cfgs[lo:hi]:
            pol = Policy(*cfg)
            app = build_app(comp, stack, cfg, nm, static_dir)
            rep.state()
            for path in PATHS:
                for origin in orgs:
                    for shape in shapes:
                        res = do_request(app, stack, nm, path, origin, shape, loop)
                        check_cell(rep, comp, stack, cfg, pol, nm, path, origin, shape, base[(path, origin, shape)], res)
            rep.c['apps'] += 1
    finally:
        if loop is not None:
            loop.close()


def check_wiring(rep, nm):
    """cors_enable=True constructs the one policy instance: a second CORSMiddleware next to it
    would grant its own origins on top of the configured ones, so it must be refused."""
    for stack, App in (('wsgi', falcon.App), ('asgi', falcon.asgi.App)):
        cases = {
            'list': lambda: App(cors_enable=True, middleware=[falcon.CORSMiddleware(allow_origins=nm['o1'])]),
            'bare': lambda: App(cors_enable=True, middleware=falcon.CORSMiddleware(allow_origins=nm['o1'])),
            'later': lambda: App(cors_enable=True).add_middleware(falcon.CORSMiddleware(allow_origins=nm['o1'])),
            'later-list': lambda: App(cors_enable=True).add_middleware(
                [build_placeholder(stack == 'asgi'), falcon.CORSMiddleware(allow_origins=nm['o1'])]),
        }
        for name, f in cases.items():
            rep.state()
            rep.trans()
            try:
                f()
                got = 'accepted'
            except ValueError:
                got = 'ValueError'
            except Exception as e:  # noqa
                got = type(e).__name__
            rep.outcome('wiring:' + got)
            if got != 'ValueError':
                rep.violation({'kind': 'second-cors-instance-' + got, 'stack': stack, 'how': name},
                              {'wiring': name, 'stack': stack, 'names': nm},
                              'cors_enable=True plus an explicit CORSMiddleware (%s): expected ValueError, got %s'
                              % (name, got))


def check(rep):
    nm = names(rep.seed)
    cfgs = configs(nm, rep.tier)
    shapes = req_shapes(nm, rep.tier)
    rep.bounds = {
        'configurations': len(cfgs), 'compositions': [c[0] for c in COMPOSITIONS], 'stacks': ['wsgi', 'asgi'],
        'origins': origins(nm, rep.tier), 'request_shapes(method, ACRM, ACRH)': [list(s) for s in shapes], 'paths': PATHS,
        'cells': 'compositions x stacks x configurations x paths x origins x shapes (cors_enable compositions: 1 configuration)',
    }
    rep.rule = ('one cell = one request on the CORS app compared with the same request on the baseline app and the '
                'decision table; non-trivial = cells where the table demands a change of the baseline response '
                '(origin allowed and the CORS component reached)')
    rep.assumptions = [
        'success of the exchange is judged where the CORS component runs: components whose process_response '
        'fails AFTER it (placed before it in the list) are not generated',
        'a preflight that did not succeed: the statement can be read either way, so "simple grants kept" and '
        '"everything withdrawn" are both accepted; approval headers are never accepted there',
        "'*' vs echoed origin is not distinguished when a wildcard configuration grants no credentials",
        'Origin values are serialized origins; the literal Origin "*" and empty Access-Control-Request-Method are not generated',
        'configuration errors (wildcard inside an iterable) are outside the statement and not checked',
    ]
    check_wiring(rep, nm)
    root = tempfile.mkdtemp(prefix='mc_c20_')
    try:
        with open(os.path.join(root, nm['file']), 'wb') as f:
            f.write(b'static file')
        shards = []
        step = 4 if rep.tier == 'quick' else 6
        for ci, comp in enumerate(COMPOSITIONS):
            n = len(cfgs) if comp[4] in ('mw', 'mwpos') else 1
            for stack in ('wsgi', 'asgi'):
                for lo in range(0, n, step):
                    shards.append((ci, stack, lo, min(n, lo + step), rep.seed, rep.tier, root))
        if rep.seed % 2:
            shards = shards[::2] + shards[1::2]
        par.run_shards(run_shard, shards, rep)
        rep.sample({'composition': 'alone', 'cfg': list(cfgs[5]), 'path': PATHS[0], 'origin': nm['o1'], 'shape': list(shapes[1])})
    finally:
        shutil.rmtree(root, ignore_errors=True)


def replay(rec):
    from mc.core.report import Report
    rep = Report('C20')
    nm = rec['names']
    if 'wiring' in rec:
        check_wiring(rep, nm)
        v = [x for x in rep.viol.values() if x['replay'].get('wiring') == rec['wiring'] and x['replay'].get('stack') == rec['stack']]
        return {'violation': bool(v), 'details': [x['explain'] for x in v]}
    comp = [c for c in COMPOSITIONS if c[0] == rec['comp']][0]
    cfg = tuple(rec['cfg'])
    shape = tuple(rec['shape'])
    root = tempfile.mkdtemp(prefix='mc_c20_')
    try:
        with open(os.path.join(root, nm['file']), 'wb') as f:
            f.write(b'static file')
        stack = rec['stack']
        base_app = build_app(comp, stack, None, nm, root)
        app = build_app(comp, stack, cfg, nm, root)
        b = snapshot(do_request(base_app, stack, nm, rec['path'], rec['origin'], shape, None))
        res = do_request(app, stack, nm, rec['path'], rec['origin'], shape, None)
        check_cell(rep, comp, stack, cfg, Policy(*cfg), nm, rec['path'], rec['origin'], shape, b, res)
        v = list(rep.viol.values())
        return {'violation': bool(v), 'details': [x['explain'] for x in v],
                'baseline': b, 'with_cors': snapshot(res)}
    finally:
        shutil.rmtree(root, ignore_errors=True)
