"""Independent strict JSON reference (RFC 8259) for C12 (also used by C13 for JSON parts).

* ``decode(bytes) -> value`` : strict UTF-8, strict grammar; raises ``Reject``
  for anything that is not exactly one JSON text.  Integers (no fraction, no
  exponent) become ``int``, other numbers ``float``; objects become ``dict``
  (duplicate names rejected), arrays ``list``.
* ``same(a, b)`` : type-exact structural equality (``True`` is not ``1``,
  ``1`` is not ``1.0``).
Nothing here imports falcon or the stdlib ``json`` module.
"""


class Reject(Exception):
    pass


_WS = ' \t\n\r'
_ESC = {'"': '"', '\\': '\\', '/': '/', 'b': '\b', 'f': '\f', 'n': '\n', 'r': '\r', 't': '\t'}
_DIG = '0123456789'
_HEX = '0123456789abcdefABCDEF'


def decode(data):
    try:
        s = data.decode('utf-8', 'strict')
    except UnicodeDecodeError:
        raise Reject('not UTF-8')
    if s[:1] == '\ufeff':
        raise Reject('BOM')
    i = _ws(s, 0)
    v, i = _value(s, i, 0)
    i = _ws(s, i)
    if i != len(s):
        raise Reject('trailing data at %d' % i)
    return v


def _ws(s, i):
    n = len(s)
    while i < n and s[i] in _WS:
        i += 1
    return i


def _value(s, i, depth):
    if depth > 64:
        raise Reject('too deep')
    if i >= len(s):
        raise Reject('unexpected end')
    c = s[i]
    if c == '{':
        out = {}
        i = _ws(s, i + 1)
        if s[i:i + 1] == '}':
            return out, i + 1
        while True:
            if s[i:i + 1] != '"':
                raise Reject('object key expected at %d' % i)
            k, i = _string(s, i)
            i = _ws(s, i)
            if s[i:i + 1] != ':':
                raise Reject('colon expected at %d' % i)
            i = _ws(s, i + 1)
            v, i = _value(s, i, depth + 1)
            if k in out:
                raise Reject('duplicate key')
            out[k] = v
            i = _ws(s, i)
            if s[i:i + 1] == ',':
                i = _ws(s, i + 1)
                continue
            if s[i:i + 1] == '}':
                return out, i + 1
            raise Reject('comma or brace expected at %d' % i)
    if c == '[':
        out = []
        i = _ws(s, i + 1)
        if s[i:i + 1] == ']':
            return out, i + 1
        while True:
            v, i = _value(s, i, depth + 1)
            out.append(v)
            i = _ws(s, i)
            if s[i:i + 1] == ',':
                i = _ws(s, i + 1)
                continue
            if s[i:i + 1] == ']':
                return out, i + 1
            raise Reject('comma or bracket expected at %d' % i)
    if c == '"':
        return _string(s, i)
    if s.startswith('true', i):
        return True, i + 4
    if s.startswith('false', i):
        return False, i + 5
    if s.startswith('null', i):
        return None, i + 4
    if c == '-' or c in _DIG:
        return _number(s, i)
    raise Reject('unexpected character %r at %d' % (c, i))


def _string(s, i):
    # s[i] == '"'
    i += 1
    out = []
    n = len(s)
    while True:
        if i >= n:
            raise Reject('unterminated string')
        c = s[i]
        if c == '"':
            return ''.join(out), i + 1
        if ord(c) < 0x20:
            raise Reject('control character in string')
        if c != '\\':
            out.append(c)
            i += 1
            continue
        if i + 1 >= n:
            raise Reject('unterminated escape')
        e = s[i + 1]
        if e in _ESC:
            out.append(_ESC[e])
            i += 2
            continue
        if e != 'u':
            raise Reject('bad escape')
        cp, i = _u4(s, i + 2)
        if 0xD800 <= cp <= 0xDBFF and s[i:i + 2] == '\\u':
            lo, j = _u4(s, i + 2)
            if 0xDC00 <= lo <= 0xDFFF:
                cp = 0x10000 + ((cp - 0xD800) << 10) + (lo - 0xDC00)
                i = j
        out.append(chr(cp))


def _u4(s, i):
    h = s[i:i + 4]
    if len(h) != 4 or any(c not in _HEX for c in h):
        raise Reject('bad \\u escape')
    return int(h, 16), i + 4


def _number(s, i):
    j = i
    n = len(s)
    if s[j:j + 1] == '-':
        j += 1
    if j >= n or s[j] not in _DIG:
        raise Reject('digit expected')
    if s[j] == '0':
        j += 1
    else:
        while j < n and s[j] in _DIG:
            j += 1
    is_int = True
    if s[j:j + 1] == '.':
        is_int = False
        j += 1
        if j >= n or s[j] not in _DIG:
            raise Reject('fraction digit expected')
        while j < n and s[j] in _DIG:
            j += 1
    if s[j:j + 1] in ('e', 'E'):
        is_int = False
        j += 1
        if s[j:j + 1] in ('+', '-'):
            j += 1
        if j >= n or s[j] not in _DIG:
            raise Reject('exponent digit expected')
        while j < n and s[j] in _DIG:
            j += 1
    text = s[i:j]
    return (int(text) if is_int else float(text)), j


def same(a, b):
    """Type-exact structural equality."""
    if type(a) is not type(b):
        return False
    if isinstance(a, dict):
        if len(a) != len(b):
            return False
        for k, v in a.items():
            if type(k) is not str or k not in b or not same(v, b[k]):
                return False
        return True
    if isinstance(a, (list, tuple)):
        return len(a) == len(b) and all(same(x, y) for x, y in zip(a, b))
    if isinstance(a, float):
        return repr(a) == repr(b)
    return a == b
