"""C12 -- media round-trips unchanged; request media is parsed at most once.

Engine: ENUM (documents, form mappings, bodies, content types, chunkings, stacks)
+ exhaustive enumeration of call histories over
{get_media(), get_media(default_when_empty=D1), get_media(default_when_empty=D2), .media}
up to length 3 (quick) / 4 (thorough)  (= SEQ without merging, depth-bounded).

Implementation under test: the whole path  App -> Response.media -> render_body
-> (wire) -> Request.get_media()/.media  on falcon.App (own WSGI driver) and
falcon.asgi.App (own ASGI driver), with the stock JSON / URL-encoded handlers
("stock" flavour: the ASGI `_deserialize_sync` fast path is live) and with
counting subclasses ("wrapped" flavour: the generic deserialize[_async] path).
Reference model: type-exact structural equality after the round trip; an
independent strict JSON decoder (mc/props/c12_json.py) and an independent
form-urlencoded decoder for the bodies on the wire; a four-line parse-once
model for the call histories.

Parts
  R  round trip: every document x content type {application/json,
     application/json; charset=utf-8, application/vnd.<x>+json (registered)} x
     emitting stack x parsing stack x chunking (ASGI: every composition if the
     body has <= 6 bytes, else uniform 1/2/3/7 and every 1-cut [thorough:
     every <=2-cut for depth-1 documents] split; WSGI: one input, full reads); same for form
     mappings with application/x-www-form-urlencoded.  Also handler-level
     serialize/deserialize for every document (incl. top-level null).
  K  body kinds: every truncation of every serialisation, its latin-1
     re-encoding, b'', white space only, BOM, invalid UTF-8: the outcome is the
     strict decoder's value, MediaNotFoundError (empty) or MediaMalformedError,
     and the HTTP status is 200 / 400 -- never anything else.
  H  histories: every op sequence x body kind x stack x flavour x chunking:
     one parse, no stream access after the first call, same object / same
     exception instance afterwards, default_when_empty honoured on every call
     for an empty body and never otherwise.
  P  response-side cache: histories over {media=d1, media=d2, render_body()}:
     the body on the wire is the serialisation of the last assigned document.
"""
import io
import itertools

from mc.core import par, watchdog
from mc.core.report import digest
from mc.drivers import asgi as adrv
from mc.drivers import wsgi as wdrv
from mc.props import c12_json as J

import falcon
import falcon.asgi
from falcon.errors import MediaMalformedError, MediaNotFoundError
from falcon.media import JSONHandler, URLEncodedFormHandler

FORM = 'application/x-www-form-urlencoded'


# ---------------------------------------------------------------------------
# reference: form-urlencoded decoder (strict subset) and document alphabets
# ---------------------------------------------------------------------------
class Reject(Exception):
    pass


_HEX = b'0123456789abcdefABCDEF'
_UNRESERVED = set(b'abcdefghijklmnopqrstuvwxyzABCDEFGHIJKLMNOPQRSTUVWXYZ0123456789-._~*')


def _form_unquote(b):
    out = bytearray()
    i = 0
    while i < len(b):
        c = b[i]
        if c == 0x2B:
            out.append(0x20)
            i += 1
        elif c == 0x25:
            if len(b) - i < 3 or b[i + 1] not in _HEX or b[i + 2] not in _HEX:
                raise Reject('bad escape')
            out.append(int(b[i + 1:i + 3].decode(), 16))
            i += 3
        elif c in _UNRESERVED:
            out.append(c)
            i += 1
        else:
            raise Reject('unencoded byte %r' % c)
    try:
        return bytes(out).decode('utf-8')
    except UnicodeDecodeError:
        raise Reject('escapes are not UTF-8')


def form_decode(body):
    """Strict application/x-www-form-urlencoded reader: name=value pairs joined by '&',
    every pair has '=', a repeated name collects a list (in order)."""
    out = {}
    if body == b'':
        return out
    for pair in body.split(b'&'):
        k, eq, v = pair.partition(b'=')
        if not eq or not k:
            raise Reject('pair without = or without a name')
        k, v = _form_unquote(k), _form_unquote(v)
        if k in out:
            if isinstance(out[k], list):
                out[k].append(v)
            else:
                out[k] = [out[k], v]
        else:
            out[k] = v
    return out


def scalars(sym, tier):
    s = [None, True, False, 0, -1, 2 ** 63, 1.5, '', 'é', ' ', '"\\/', '😀', '\x00', sym]
    if tier != 'quick':
        s += [-0.0, 0.1, 1e22, -(2 ** 64), ' \x7f', '\n\t', 'é😀' * 3, '</script>']
    return s


def few(sym):
    return [None, True, 0, 1.5, 'é', '😀']


def key_pairs(sym):
    return [(sym, 'é'), ('', '"\\/'), ('😀', '\x00')]


def keys(sym):
    return [sym, '', 'é', '"\\/', '😀', '\x00']


def depth1(sym, tier):
    S = scalars(sym, tier)
    out = list(S)
    out.append([])
    out += [[x] for x in S]
    out += [[x, y] for x in S for y in S]
    out.append({})
    out += [{k: x} for k in keys(sym) for x in S]
    out += [{k1: x, k2: y} for k1, k2 in key_pairs(sym) for x in few(sym) for y in few(sym)]
    return out


def depth2(sym):
    F = few(sym)
    S = scalars(sym, 'quick')
    c1 = [[]] + [[x] for x in S] + [[x, y] for x in F for y in F] + [{}] + [{k: x} for k in keys(sym) for x in F] \
        + [{k1: x, k2: y} for k1, k2 in key_pairs(sym)[:1] for x in F[:2] for y in F[4:]]
    elems = F + c1
    out = []
    for x in c1:
        out.append([x])
        out.append({sym: x})
    for x in elems:
        for y in elems:
            if isinstance(x, (list, dict)) or isinstance(y, (list, dict)):
                out.append([x, y])
                for k1, k2 in key_pairs(sym):
                    out.append({k1: x, k2: y})
    return out


def form_maps(sym, tier):
    # '~.-_*': characters urlencode() leaves as they are (the RFC 3986 unreserved marks and '*')
    V = ['', sym, ' ', '&', '=', '+', '%', '%41', 'é', '😀', 'a,b', '\x00\n', '/?#', '~.-_*']
    K = [sym, ' ', '&=', '%2B', 'é', '😀', '~.-_*'] if tier == 'quick' else [k for k in V if k]
    out = [{}]
    out += [{k: v} for k in K for v in V]
    out += [{k: [v1, v2]} for k in K[:3] for v1 in V for v2 in V]
    out += [{K[0]: v1, K[1]: v2} for v1 in V for v2 in V]
    out += [{K[0]: [V[1], V[0], V[1]], K[2]: V[2]}]
    return out


def compositions(n):
    for k in range(0, n):
        for cuts in itertools.combinations(range(1, n), k):
            yield cuts


def asgi_chunkings(n, tier):
    """cut tuples for an n-byte body."""
    if n <= 1:
        return [()]
    if n <= 6:
        return list(compositions(n))
    out = [()]
    for k in (1, 2, 3, 7):
        out.append(tuple(range(k, n, k)))
    out += [(c,) for c in range(1, n)]
    if tier != 'quick' and n <= 30:
        out += list(itertools.combinations(range(1, n), 2))
    seen, uniq = set(), []
    for c in out:
        if c not in seen:
            seen.add(c)
            uniq.append(c)
    return uniq


def split_at(data, cuts):
    out, p = [], 0
    for c in cuts:
        out.append(data[p:c])
        p = c
    out.append(data[p:])
    return out


# ---------------------------------------------------------------------------
# the applications under test
# ---------------------------------------------------------------------------
class Counters:
    def __init__(self):
        self.reset()

    def reset(self):
        self.parses = 0
        self.receives = 0


CNT = Counters()
SLOT = {}


CRASH_BODY = b'"__handler_crash__"'
REFUSED_BODY = b'"__loads_refuses__"'      # loads() refuses the document the stdlib way: a bare ValueError


class HandlerCrash(RuntimeError):
    """An error of the media handler that is not an HTTP error (a bug in a custom loads(), a resource limit ...)."""


def crashing_loads(s):
    import json
    if (b'__handler_crash__' if isinstance(s, bytes) else '__handler_crash__') in s:
        raise HandlerCrash('loads() failed')
    if (b'__loads_refuses__' if isinstance(s, bytes) else '__loads_refuses__') in s:
        raise ValueError('document refused')
    return json.loads(s)


def counting_loads(s):
    CNT.parses += 1
    return crashing_loads(s)


def bytes_dumps(obj):
    import json
    return json.dumps(obj, ensure_ascii=False).encode('utf-8')


class CountingJSON(JSONHandler):
    def deserialize(self, stream, content_type, content_length):
        CNT.parses += 1
        return super().deserialize(stream, content_type, content_length)

    async def deserialize_async(self, stream, content_type, content_length):
        CNT.parses += 1
        return await super().deserialize_async(stream, content_type, content_length)


class CountingForm(URLEncodedFormHandler):
    def deserialize(self, stream, content_type, content_length):
        CNT.parses += 1
        return super().deserialize(stream, content_type, content_length)

    async def deserialize_async(self, stream, content_type, content_length):
        CNT.parses += 1
        return await super().deserialize_async(stream, content_type, content_length)


D1 = ['default-1']
D2 = ('default-2',)
OPS = ('get', 'getD1', 'getD2', 'prop')


def _log(kind, obj):
    return (kind, obj)


class WRes:
    def on_get(self, req, resp):
        resp.content_type = SLOT['ct']
        for step in SLOT.get('resp_hist', ('set1',)):
            if step == 'set1':
                resp.media = SLOT['doc']
            elif step == 'set2':
                resp.media = SLOT['doc2']
            elif step == 'mut1':
                SLOT['doc']['n'] = SLOT['doc'].get('n', 0) + 1      # amend the document in place ...
                resp.media = SLOT['doc']                            # ... and assign it again
            else:
                SLOT.setdefault('renders', []).append(resp.render_body())

    def on_post(self, req, resp):
        log = SLOT['log'] = []
        inp = req.env['wsgi.input']
        last = None
        for op in SLOT['hist']:
            try:
                if op == 'get':
                    r = req.get_media()
                elif op == 'getD1':
                    r = req.get_media(default_when_empty=D1)
                elif op == 'getD2':
                    r = req.get_media(default_when_empty=D2)
                else:
                    r = req.media
                last = None
                log.append(('ret', r, CNT.parses, len(inp.calls), inp.pos))
            except Exception as e:  # noqa: BLE001
                last = e
                log.append(('exc', e, CNT.parses, len(inp.calls), inp.pos))
        if last is not None:
            raise last
        resp.text = 'ok'


class ARes:
    async def on_get(self, req, resp):
        resp.content_type = SLOT['ct']
        for step in SLOT.get('resp_hist', ('set1',)):
            if step == 'set1':
                resp.media = SLOT['doc']
            elif step == 'set2':
                resp.media = SLOT['doc2']
            elif step == 'mut1':
                SLOT['doc']['n'] = SLOT['doc'].get('n', 0) + 1
                resp.media = SLOT['doc']
            else:
                SLOT.setdefault('renders', []).append(await resp.render_body())

    async def on_post(self, req, resp):
        log = SLOT['log'] = []
        last = None
        for op in SLOT['hist']:
            try:
                if op == 'get':
                    r = await req.get_media()
                elif op == 'getD1':
                    r = await req.get_media(default_when_empty=D1)
                elif op == 'getD2':
                    r = await req.get_media(default_when_empty=D2)
                else:
                    r = await req.media
                last = None
                log.append(('ret', r, CNT.parses, CNT.receives, CNT.receives))
            except Exception as e:  # noqa: BLE001
                last = e
                log.append(('exc', e, CNT.parses, CNT.receives, CNT.receives))
        if last is not None:
            raise last
        resp.text = 'ok'


_APPS = {}


def vendor_type(sym):
    return 'application/vnd.verif-%s+json' % (sym if sym.isalnum() else 'v')


def get_app(stack, flavour, sym):
    key = (stack, flavour)
    app = _APPS.get(key)
    if app is not None:
        return app
    if stack == 'wsgi':
        app = falcon.App()
        app.add_route('/m', WRes())
    else:
        app = falcon.asgi.App()
        app.add_route('/m', ARes())
    vt = vendor_type(sym)
    for hs in (app.req_options.media_handlers, app.resp_options.media_handlers):
        if flavour == 'stock':
            hs[falcon.MEDIA_JSON] = JSONHandler(loads=counting_loads)
            hs[vt] = JSONHandler(loads=counting_loads)
        elif flavour == 'default':
            # the handlers a new app comes with, untouched (stock json.loads / json.dumps: whatever fast path the
            # handler reserves for them is taken); the parse counter stays 0, values / errors / status are judged
            hs[vt] = JSONHandler()
        elif flavour == 'bytes':
            # a dumps() that returns bytes (orjson style; documented as supported), exact handler type
            hs[falcon.MEDIA_JSON] = JSONHandler(dumps=bytes_dumps, loads=counting_loads)
            hs[vt] = JSONHandler(dumps=bytes_dumps, loads=counting_loads)
        elif flavour == 'wbytes':
            # ... and on a subclass (no fast path: serialize / serialize_async are called)
            hs[falcon.MEDIA_JSON] = CountingJSON(dumps=bytes_dumps, loads=crashing_loads)
            hs[vt] = CountingJSON(dumps=bytes_dumps, loads=crashing_loads)
        else:
            hs[falcon.MEDIA_JSON] = CountingJSON(loads=crashing_loads)
            hs[vt] = CountingJSON(loads=crashing_loads)
            hs[FORM] = CountingForm()
    if stack == 'asgi':
        inner = app

        async def outer(scope, receive, send):
            async def counted():
                CNT.receives += 1
                return await receive()
            await inner(scope, counted, send)
        _APPS[key] = outer
        return outer
    _APPS[key] = app
    return app


def emit(stack, flavour, sym, ct, doc, resp_hist=('set1',), doc2=None):
    """GET /m -> the body falcon renders for resp.media = doc."""
    SLOT.clear()
    SLOT.update(ct=ct, doc=doc, doc2=doc2, resp_hist=resp_hist)
    app = get_app(stack, flavour, sym)
    with watchdog.limit(5.0):
        if stack == 'wsgi':
            return wdrv.call(app, method='GET', raw_path='/m')
        return adrv.call(app, method='GET', raw_path='/m')


def parse(stack, flavour, sym, ct, body, hist, variant):
    """POST /m with the body; the responder performs `hist`. variant: WSGI input kind | ASGI cut tuple."""
    SLOT.clear()
    SLOT.update(hist=hist)
    CNT.reset()
    app = get_app(stack, flavour, sym)
    with watchdog.limit(5.0):
        if stack == 'wsgi':
            res = wdrv.call(app, method='POST', raw_path='/m', headers=[('Content-Type', ct)], body=body, input_kind=variant)
        else:
            hdrs = [('Content-Type', ct), ('Content-Length', str(len(body)))]
            if variant and variant[0] == 'nocl':
                variant = tuple(variant[1:])
                hdrs = hdrs[:1]
            res = adrv.call(app, method='POST', raw_path='/m', headers=hdrs,
                            body=body, chunks=split_at(body, variant) if body else None)
    return res, SLOT.get('log')


# ---------------------------------------------------------------------------
# oracles
# ---------------------------------------------------------------------------
def ct_class(ct):
    if ct == FORM:
        return 'form'
    if '+json' in ct:
        return 'vendor+json'
    return 'json;charset' if ';' in ct else 'json'


def body_outcome(ct, body):
    """What the property pins for one parse of `body`: ('val', v) | ('notfound',) | ('malformed',)"""
    if ct == FORM:
        if body == b'':
            return ('val', {})
        try:
            return ('val', form_decode(body))
        except Reject:
            return ('unpinned-form',)     # lenient readings of broken forms are C08's business
    if body == b'':
        return ('notfound',)
    if body == REFUSED_BODY:
        return ('malformed',)       # what loads() rejects with ValueError is malformed media (400), whatever the subclass
    if body == CRASH_BODY:
        return ('crash',)           # the handler itself fails with a non-HTTP error: "a failed parse" all the same
    try:
        return ('val', J.decode(body))
    except J.Reject:
        return ('malformed',)


def variants_for(stack, n, tier, rich=True):
    if stack == 'wsgi':
        return ['buffered']
    # 'nocl' marks an ASGI request WITHOUT a Content-Length header (chunked transfer coding): the body
    # is whatever the events carry
    if not rich:
        base = [(), tuple(range(1, n))] if n > 1 else [()]
        return base + [('nocl',) + base[-1]]
    cks = asgi_chunkings(n, tier)
    return cks + [('nocl',) + cks[0], ('nocl',) + cks[-1]]


def check_history(rep, part, stack, flavour, sym, ct, body, hist, variant, bodykind):
    """Run one POST and compare the whole log with the parse-once model."""
    try:
        res, log = parse(stack, flavour, sym, ct, body, hist, variant)
    except watchdog.Hang:
        res, log = None, None
    rep.trans(len(hist))
    rep.trace()
    out = body_outcome(ct, body)

    def viol(kind, op, explain, exc=''):
        rep.violation({'kind': kind, 'stack': stack, 'ct': ct_class(ct), 'body': bodykind, 'exc': exc},
                      {'part': part, 'stack': stack, 'flavour': flavour, 'ct': ct, 'body': body, 'hist': list(hist),
                       'variant': list(variant) if isinstance(variant, tuple) else variant, 'bodykind': bodykind},
                      'stack=%s handlers=%s Content-Type=%r body=%r chunking=%r history=%r: %s'
                      % (stack, flavour, ct, body, variant, list(hist), explain))
        return False

    if res is None:
        return viol('non-termination', hist[0], 'request did not terminate')
    if log is None or len(log) != len(hist):
        return viol('responder-not-run', hist[0], 'status %r exc %r problems %r' % (res.code, res.exc, res.problems))
    first_val = None
    first_exc = None
    base = None
    for i, (op, ent) in enumerate(zip(hist, log)):
        kind, obj, parses, touches, pos = ent
        # -- what the call must do -------------------------------------------------
        if out[0] == 'val':
            want = 'ret'
        elif out[0] == 'notfound':
            want = 'ret-default' if op in ('getD1', 'getD2') else 'exc-notfound'
        elif out[0] == 'malformed':
            want = 'exc-malformed'
        elif out[0] == 'crash':
            want = 'exc-crash'
        else:
            want = 'ret-or-malformed'
        if want == 'ret-or-malformed':
            want = 'ret' if kind == 'ret' else 'exc-malformed'
            if kind == 'ret' and not isinstance(obj, dict):
                return viol('wrong-value', op, 'a form body parsed to %r' % (obj,))
        if want == 'ret':
            if kind != 'ret':
                return viol('unexpected-exception', op, 'model expects the value %r, call #%d raised %r'
                            % (out[1] if len(out) > 1 else '?', i + 1, obj), exc=type(obj).__name__)
            if len(out) > 1 and not J.same(obj, out[1]):
                return viol('wrong-value', op, 'model expects %r, call #%d returned %r' % (out[1], i + 1, obj))
            if first_val is None:
                first_val = (obj,)
            elif obj is not first_val[0]:
                return viol('not-same-object', op, 'call #%d returned a different object (%r) than the first call (%r)'
                            % (i + 1, obj, first_val[0]))
        elif want == 'ret-default':
            d = D1 if op == 'getD1' else D2
            if kind != 'ret' or obj is not d:
                return viol('default-not-honoured', op, 'empty body: call #%d must return the caller\'s default %r, got %s %r'
                            % (i + 1, d, kind, obj), exc=type(obj).__name__ if kind == 'exc' else '')
        else:
            cls = MediaNotFoundError if want == 'exc-notfound' else (HandlerCrash if want == 'exc-crash' else MediaMalformedError)
            if kind != 'exc':
                return viol('missing-error', op, 'model expects %s, call #%d returned %r' % (cls.__name__, i + 1, obj))
            if type(obj) is not cls and not (cls is MediaMalformedError and isinstance(obj, MediaMalformedError)):
                return viol('wrong-error', op, 'model expects %s, call #%d raised %r' % (cls.__name__, i + 1, obj),
                            exc=type(obj).__name__)
            if first_exc is None:
                first_exc = obj
            elif obj is not first_exc:
                return viol('not-same-error', op, 'call #%d raised a different exception instance than before (%r vs %r)'
                            % (i + 1, obj, first_exc))
        # -- parse-once / stream discipline ----------------------------------------
        if i == 0:
            base = (parses, touches, pos)
            if parses > 1:
                return viol('parsed-twice', op, 'first call ran the deserializer %d times' % parses)
            if stack == 'wsgi' and pos != len(body):
                return viol('body-not-consumed', op, 'first call consumed %d of %d body bytes' % (pos, len(body)))
        else:
            if parses != base[0]:
                return viol('parsed-twice', op, 'call #%d ran the deserializer again (%d -> %d runs)' % (i + 1, base[0], parses))
            if (touches, pos) != base[1:]:
                return viol('stream-touched-again', op, 'call #%d touched the body stream again (%r -> %r)'
                            % (i + 1, base[1:], (touches, pos)))
    # -- HTTP outcome ---------------------------------------------------------------
    last_kind = log[-1][0]
    want_code = 200 if last_kind == 'ret' else (500 if out[0] == 'crash' else 400)
    if res.exc is not None or res.problems or res.code != want_code:
        return viol('http-status', hist[-1], 'expected HTTP %d, got %r (escaped exception %r, protocol problems %r)'
                    % (want_code, res.code, res.exc, res.problems), exc=type(res.exc).__name__ if res.exc else '')
    rep.outcome('%s:%s:%s' % (part, out[0], last_kind))
    return True


# ---------------------------------------------------------------------------
# case runners
# ---------------------------------------------------------------------------
def json_cts(sym):
    return [falcon.MEDIA_JSON, 'application/json; charset=utf-8', vendor_type(sym)]


def case_R(case, rep):
    """Round trip of one document / form mapping through every stack pair and chunking."""
    sym, tier, doc, cts = case['sym'], case['tier'], case['doc'], case['cts']
    rep.state()
    rich = case.get('rich', True)
    for ct in cts:
        is_form = ct == FORM
        bodies = {}
        for stack, flavour in (('wsgi', 'stock'), ('asgi', 'stock'), ('wsgi', 'wrapped'), ('asgi', 'wrapped'),
                               ('wsgi', 'bytes'), ('asgi', 'bytes'), ('wsgi', 'wbytes'), ('asgi', 'wbytes')):
            if is_form and flavour in ('bytes', 'wbytes'):
                continue
            try:
                res = emit(stack, flavour, sym, ct, doc)
            except watchdog.Hang:
                res = None
            rep.trans()
            rec = {'part': 'R', 'sym': sym, 'tier': tier, 'doc': doc if not is_form else None, 'form': doc if is_form else None,
                   'cts': [ct], 'rich': rich}
            if res is None or res.exc is not None or res.problems or res.code != 200:
                rep.violation({'kind': 'serialize-failed', 'stack': stack, 'ct': ct_class(ct),
                               'body': '', 'exc': type(res.exc).__name__ if res is not None and res.exc else ''}, rec,
                              'resp.media = %r with Content-Type %r on %s (handlers=%s): expected 200 and a body; got %r exc %r problems %r'
                              % (doc, ct, stack, flavour, getattr(res, 'code', None), getattr(res, 'exc', None),
                                 getattr(res, 'problems', None)))
                continue
            body = res.body
            # the wire format itself, judged by the independent decoders
            try:
                wire = form_decode(body) if is_form else J.decode(body)
                ok = J.same(wire, doc)
            except (Reject, J.Reject) as e:
                wire, ok = 'rejected: %s' % e, False
            if not ok:
                rep.violation({'kind': 'wire-format', 'stack': stack, 'ct': ct_class(ct), 'body': '', 'exc': ''}, rec,
                              'resp.media = %r as %r on %s rendered %r, which the independent decoder reads as %r'
                              % (doc, ct, stack, body, wire))
            if flavour == 'stock' or body != bodies.get(stack):
                bodies[stack if flavour == 'stock' else stack + '/' + flavour] = body
        for es, body in sorted(bodies.items()):
            if es != 'wsgi' and bodies.get('wsgi') == body:
                continue    # same bytes: already sent back below
            for ps in ('wsgi', 'asgi'):
                for flavour in ('stock', 'wrapped'):
                    for variant in variants_for(ps, len(body), tier if rich else 'quick', flavour == 'stock'):
                        ok = check_roundtrip(rep, ps, flavour, sym, ct, body, doc, variant, es)
                        if ok and len(body) > 1 and variant not in ((), 'buffered'):
                            rep.nt(digest((ps, flavour, ct, body, variant)))
    rep.sample({'part': 'R', 'doc': repr(doc)[:80], 'content_types': cts})


def check_roundtrip(rep, stack, flavour, sym, ct, body, doc, variant, emitted_by):
    try:
        res, log = parse(stack, flavour, sym, ct, body, ('get',), variant)
    except watchdog.Hang:
        res, log = None, None
    rep.trans()
    rep.trace()
    good = (res is not None and log and log[0][0] == 'ret' and J.same(log[0][1], doc) and res.code == 200
            and res.exc is None and not res.problems)
    rep.outcome('R:%s:%s' % (ct_class(ct), 'equal' if good else 'DIFFERENT'))
    if good:
        return True
    got = None if not log else log[0][:2]
    rep.violation({'kind': 'non-termination' if res is None else 'round-trip', 'stack': stack, 'ct': ct_class(ct),
                   'body': 'valid', 'exc': type(got[1]).__name__ if got and got[0] == 'exc' else ''},
                  {'part': 'RT', 'stack': stack, 'flavour': flavour, 'sym': sym, 'ct': ct, 'body': body,
                   'doc': doc if ct != FORM else None, 'form': doc if ct == FORM else None,
                   'variant': list(variant) if isinstance(variant, tuple) else variant},
                  'document %r rendered by %s as %r (%s); sent back to %s (handlers=%s, chunking=%r) get_media() gave %r, status %r'
                  % (doc, emitted_by, body, ct, stack, flavour, variant, got, getattr(res, 'code', None)))
    return False


def case_L(case, rep):
    """Handler-level serialize/deserialize (covers top-level null, which resp.media = None cannot express)."""
    from mc.props.c13 import run_coro  # tiny helper; no falcon state
    h = JSONHandler()
    for doc in case['docs']:
        rep.state()
        for mode in ('sync', 'async'):
            try:
                with watchdog.limit(5.0):
                    if mode == 'sync':
                        body = h.serialize(doc, falcon.MEDIA_JSON)
                        back = h.deserialize(io.BytesIO(body), falcon.MEDIA_JSON, len(body))
                    else:
                        body = run_coro(h.serialize_async(doc, falcon.MEDIA_JSON))

                        class S:
                            async def read(self, size=-1):
                                return body
                        back = run_coro(h.deserialize_async(S(), falcon.MEDIA_JSON, len(body)))
                    wire = J.decode(body)
                good = J.same(back, doc) and J.same(wire, doc)
            except (Exception, watchdog.Hang) as e:  # noqa: BLE001
                good, body, back = False, None, repr(e)
            rep.trans(2)
            rep.trace()
            rep.outcome('L:%s' % ('equal' if good else 'DIFFERENT'))
            if not good:
                rep.violation({'kind': 'round-trip', 'stack': 'handler-' + mode, 'ct': 'json', 'body': 'valid', 'exc': ''}, {'part': 'L', 'docs': [doc]},
                              'JSONHandler.serialize(%r) = %r ; deserialize gave %r' % (doc, body, back))


BODY_EXTRA = [(b'', 'empty'), (b' ', 'whitespace'), (b'\n', 'whitespace'), (b' \r\n\t', 'whitespace'),
              (b'\xef\xbb\xbf1', 'bom'), (b'\xff', 'invalid-utf8'), (b'"\xc3"', 'invalid-utf8'),
              (b'\xed\xa0\xbd', 'invalid-utf8'), (b'"\xed\xa0\x80"', 'invalid-utf8'), (b'\xef\xbb\xbf{"a": 1}', 'bom'),
              ('{"a": "\xe9"}'.encode('utf-16'), 'utf-16'), ('{"a": "\xe9"}'.encode('utf-16-le'), 'utf-16'),
              ('{"a": "\xe9"}'.encode('utf-16-be'), 'utf-16'), ('[1]'.encode('utf-32'), 'utf-32'),
              ('[1]'.encode('utf-32-le'), 'utf-32'), ('[1]'.encode('utf-32-be'), 'utf-32'), (b'{', 'truncated'), (b'[1,]', 'trailing-comma'), (b"'a'", 'single-quotes')]


def case_K(case, rep):
    """Body kinds of one serialisation: every truncation, latin-1 re-encoding, extras."""
    sym, ct, body = case['sym'], case['ct'], case['body']
    kinds = [(body[:i], 'truncated') for i in range(1, len(body))]
    if ct != FORM:
        try:
            l1 = body.decode('utf-8').encode('latin-1')
            if l1 != body:
                kinds.append((l1, 'latin-1'))
        except UnicodeError:
            pass
    if case.get('extras'):
        kinds += BODY_EXTRA
        if ct == FORM:
            kinds += [(b'\xff=1', 'non-ascii'), (b'a=\xc3\xa9', 'non-ascii'), (b'a=%ff', 'bad-escape'), (b'a=%zz', 'bad-escape'),
                      (b'a', 'no-equals'), (b'&&', 'separators-only')]
    for b, bk in kinds:
        rep.state()
        for stack in ('wsgi', 'asgi'):
            for flavour in ('stock', 'wrapped', 'default'):
                for variant in variants_for(stack, len(b), 'quick', rich=False):
                    check_history(rep, 'K', stack, flavour, sym, ct, b, ('get',), variant, bk)
        if body_outcome(ct, b)[0] != 'val':
            rep.nt(digest(('K', ct, b)))


def case_H(case, rep):
    sym, ct, body, bk = case['sym'], case['ct'], case['body'], case['bodykind']
    for n in range(1, case['maxlen'] + 1):
        for hist in itertools.product(OPS, repeat=n):
            rep.state()
            for stack in ('wsgi', 'asgi'):
                for flavour in ('stock', 'wrapped', 'default'):
                    if flavour == 'default' and body in (CRASH_BODY, REFUSED_BODY):
                        continue        # these two bodies mean something to the instrumented loads() only
                    for variant in variants_for(stack, len(body), 'quick', rich=False):
                        ok = check_history(rep, 'H', stack, flavour, sym, ct, body, hist, variant, bk)
                        if ok and n > 1:
                            rep.nt(digest(('H', stack, flavour, ct, body, hist, variant)))


def case_P(case, rep):
    sym = case['sym']
    # pass 1: ordinary documents; pass 2: FALSY documents ({} and []), which "is not None" / truthiness tests tell apart
    for d1_init, d2 in (({sym: 1}, [2, 'é']), ({}, [])):
        for n in range(1, case['maxlen'] + 1):
            for hist in itertools.product(('set1', 'set2', 'render', 'mut1'), repeat=n):
                rep.state()
                last = None
                cur1 = dict(d1_init)
                at_render = []      # the document render_body() must serialise at each explicit call
                for s in hist:
                    if s == 'set1':
                        last = dict(cur1)
                    elif s == 'set2':
                        last = d2
                    elif s == 'mut1':
                        cur1['n'] = cur1.get('n', 0) + 1
                        last = dict(cur1)
                    else:
                        at_render.append(None if last is None else (dict(last) if isinstance(last, dict) else list(last)))
                for stack in ('wsgi', 'asgi'):
                    for ct in (falcon.MEDIA_JSON, vendor_type(sym)):
                        d1 = dict(d1_init)
                        try:
                            res = emit(stack, 'stock', sym, ct, d1, hist, d2)
                        except watchdog.Hang:
                            res = None
                        rep.trans(len(hist))
                        rep.trace()
                        good = res is not None and res.exc is None and not res.problems and res.code == 200
                        if good:
                            if last is None:
                                good = res.body == b''
                            else:
                                try:
                                    good = J.same(J.decode(res.body), last)
                                except J.Reject:
                                    good = False
                        if good:
                            # what every explicit render_body() call returned
                            got_r = SLOT.get('renders', [])
                            if len(got_r) != len(at_render):
                                good = False
                            for r, want in zip(got_r, at_render):
                                try:
                                    if want is None:
                                        good = good and (r is None or r == b'')
                                    else:
                                        good = good and r is not None and J.same(J.decode(r), want)
                                except J.Reject:
                                    good = False
                        rep.outcome('P:%s' % ('ok' if good else 'STALE'))
                        if good and 'render' in hist[:-1]:
                            rep.nt(digest(('P', stack, ct, hist)))
                        if not good:
                            rep.violation({'kind': 'stale-rendered-media', 'stack': stack, 'ct': ct_class(ct), 'body': '', 'exc': ''},
                                          {'part': 'P', 'sym': sym, 'maxlen': len(hist), 'only': list(hist)},
                                          'response history %r (set1/mut1 use one dict object, amended in place by mut1; d2=%r) on %s as %s: the wire body must be the serialisation of %r, got %r'
                                          % (list(hist), d2, stack, ct, last, getattr(res, 'body', None)))


CASE_FUNCS = {'R': case_R, 'L': case_L, 'K': case_K, 'H': case_H, 'P': case_P}
_CASES = []


def reference_json(doc):
    """Own minimal serializer, only used to pick the bodies whose kinds are explored in K/H."""
    if doc is None:
        return 'null'
    if doc is True:
        return 'true'
    if doc is False:
        return 'false'
    if isinstance(doc, (int, float)):
        return repr(doc)
    if isinstance(doc, str):
        out = ['"']
        for c in doc:
            if c in '"\\':
                out.append('\\' + c)
            elif ord(c) < 0x20:
                out.append('\\u%04x' % ord(c))
            else:
                out.append(c)
        return ''.join(out) + '"'
    if isinstance(doc, list):
        return '[' + ', '.join(reference_json(x) for x in doc) + ']'
    return '{' + ', '.join(reference_json(k) + ': ' + reference_json(v) for k, v in doc.items()) + '}'


def build_cases(tier, seed):
    sym = 'akmrw'[seed % 5]
    quick = tier == 'quick'
    cases = []

    def add(part, **kw):
        kw.update(part=part, sym=sym, tier=tier)
        cases.append(kw)

    d1 = depth1(sym, tier)
    docs = d1 if quick else d1 + depth2(sym)
    S = scalars(sym, tier)
    for i, doc in enumerate(docs):
        if doc is None:
            continue       # resp.media = None means "no media" (documented); top-level null is covered by part L
        add('R', doc=doc, cts=json_cts(sym) if (i < len(d1)) else json_cts(sym)[:1], rich=(i < len(d1)))
    for m in form_maps(sym, tier):
        add('R', doc=m, cts=[FORM])
    for lo in range(0, len(docs), 200):
        add('L', docs=docs[lo:lo + 200])
    # K: body kinds
    kdocs = d1[:len(S) + 1 + len(S)] + [[x, y] for x in few(sym) for y in few(sym)] + [{k: x} for k in keys(sym) for x in few(sym)] \
        + [{k1: x, k2: y} for k1, k2 in key_pairs(sym) for x in few(sym)[:3] for y in few(sym)[3:]]
    if not quick:
        kdocs = d1 + depth2(sym)[::29]
    seen = set()
    for j, doc in enumerate(kdocs):
        body = reference_json(doc).encode('utf-8')
        for ct in (json_cts(sym) if j < 40 else json_cts(sym)[:1]):
            if (ct, body) in seen:
                continue
            seen.add((ct, body))
            add('K', ct=ct, body=body, extras=(j == 0))
    from urllib.parse import quote_plus
    for j, m in enumerate(form_maps(sym, tier)[:60 if quick else 400]):
        items = []
        for k, v in m.items():
            for x in (v if isinstance(v, list) else [v]):
                items.append(quote_plus(k) + '=' + quote_plus(x))
        add('K', ct=FORM, body='&'.join(items).encode('ascii'), extras=(j == 0))
    # H: call histories
    hbodies = [(b'{"%s": 1}' % sym.encode(), 'valid'), (b'null', 'valid-falsy'), (b'0', 'valid-falsy'), (b'false', 'valid-falsy'),
               (b'""', 'valid-falsy'), (b'[]', 'valid-falsy'), (b'{}', 'valid-falsy'), (b'', 'empty'), (b' ', 'whitespace'),
               (b'{', 'truncated'), (b'\xff', 'invalid-utf8'), (b'"\xe9"', 'latin-1'), (CRASH_BODY, 'handler-crash'), (REFUSED_BODY, 'loads-refuses')]
    maxlen = 3 if quick else 4
    for body, bk in hbodies:
        for ct in json_cts(sym):
            add('H', ct=ct, body=body, bodykind=bk, maxlen=maxlen)
    for body, bk in [(b'%s=1' % sym.encode(), 'valid'), (b'', 'empty'), (b'\xff=1', 'non-ascii'), (b'a=%C3%A9&a=+', 'valid')]:
        add('H', ct=FORM, body=body, bodykind=bk, maxlen=maxlen)
    add('P', maxlen=3 if quick else 4)
    return cases, sym, len(docs)


def run_batch(shard, rep):
    for i in shard:
        case = _CASES[i]
        before = rep.c['traces']
        CASE_FUNCS[case['part']](case, rep)
        rep.parts.setdefault(case['part'], {'cases': 0, 'requests': 0})
        rep.parts[case['part']]['cases'] += 1
        rep.parts[case['part']]['requests'] += rep.c['traces'] - before


def check(rep):
    global _CASES
    cases, sym, ndocs = build_cases(rep.tier, rep.seed)
    _CASES = cases
    quick = rep.tier == 'quick'
    counts = {}
    for c in cases:
        counts[c['part']] = counts.get(c['part'], 0) + 1
    rep.bounds = {
        'json_documents': ndocs, 'json_depth': 1 if quick else 2,
        'scalars': [repr(x) for x in scalars(sym, rep.tier)],
        'form_mappings': len(form_maps(sym, rep.tier)),
        'content_types': json_cts(sym) + [FORM],
        'asgi_chunkings': 'all compositions (<=6 B) else uniform 1/2/3/7 + every 1-cut' + ('' if quick else ' + every 2-cut (<=30 B)'),
        'wsgi_inputs': ['buffered (read(n) returns n bytes unless EOF)'],
        'history_ops': list(OPS), 'history_length<=': 3 if quick else 4,
        'response_history_length<=': 3 if quick else 4,
        'cases': counts,
    }
    rep.rule = ('one execution = one HTTP request driven through falcon.App / falcon.asgi.App and compared with the model; '
                'non-trivial = distinct round trips with a really split body, distinct undecodable/empty bodies, distinct '
                'histories with >= 2 calls, response histories with a render before the last assignment')
    rep.assumptions = [
        'resp.media = None means "no media" (documented); top-level null is checked at handler level',
        'special floats are excluded by the property; custom loads: a counting wrapper of json.loads; custom dumps: json.dumps returning bytes',
        'form mappings: str -> str, or str -> list of >= 2 str (a one-element list is documented to come back as a str)',
        'lenient readings of structurally broken form bodies are not pinned here (C08); they must be a dict or MediaMalformedError',
        'ASGI requests are sent both with Content-Length and without it (chunked transfer coding)',
        'wsgi.input.read(n) returns n bytes unless the body ends (short-reading inputs are the subject of C07)',
    ]
    nshards = 64 if quick else 256

    def weight(c):
        if c['part'] == 'R':
            return 30 + (60 if c.get('rich', True) else 40) * len(c['cts'])
        if c['part'] == 'K':
            return 16 * len(c['body']) + (200 if c.get('extras') else 0)
        if c['part'] == 'H':
            return 16 * 4 ** c['maxlen']
        if c['part'] == 'L':
            return 50
        return 400
    # contiguous, weight-balanced shards: merge order = case order, so the first example kept for a
    # violation kind is the simplest one
    total = sum(weight(cases[i]) for i in range(len(cases)))
    target = max(1, total // nshards)
    shards, cur, acc = [], [], 0
    for i in range(len(cases)):
        cur.append(i)
        acc += weight(cases[i])
        if acc >= target:
            shards.append(cur)
            cur, acc = [], 0
    if cur:
        shards.append(cur)
    if rep.seed:
        r = rep.seed % len(shards)
        shards = shards[r:] + shards[:r]
    par.run_shards(run_batch, shards, rep)


def replay(rec):
    from mc.core.report import Report
    rep = Report('C12')
    part = rec['part']

    def tv(v):
        return tuple(v) if isinstance(v, list) else v
    if part == 'R':
        doc = rec['doc'] if rec.get('form') is None else rec['form']
        case_R({'sym': rec['sym'], 'tier': rec['tier'], 'doc': doc, 'cts': rec['cts'], 'rich': rec.get('rich', True)}, rep)
    elif part == 'RT':
        doc = rec['doc'] if rec.get('form') is None else rec['form']
        check_roundtrip(rep, rec['stack'], rec['flavour'], rec['sym'], rec['ct'], rec['body'], doc, tv(rec['variant']), '?')
    elif part in ('K', 'H'):
        sym = [c for c in 'akmrw' if vendor_type(c) == rec['ct']] or ['a']
        check_history(rep, part, rec['stack'], rec['flavour'], sym[0], rec['ct'], rec['body'], tuple(rec['hist']),
                      tv(rec['variant']), rec['bodykind'])
    elif part == 'L':
        case_L({'docs': rec['docs']}, rep)
    elif part == 'P':
        case_P({'sym': rec['sym'], 'maxlen': rec['maxlen']}, rep)
    v = list(rep.viol.values())
    return {'violation': bool(v), 'details': [x['explain'] for x in v]}
