"""C05 helpers: generated response streams (every kind the property names), the
server-side fault wrappers, and the independent Server-Sent-Events reader.

Nothing in here imports falcon.  Every stream object records, in a `Rec`, how
often its read/__next__/__anext__ and its close() were called, and asks the
Chooser before producing each chunk whether it should raise instead
(deviation "stream raises at chunk k").
"""
import asyncio


class StreamFault(Exception):
    """Raised by a generated stream on request of the Chooser."""


class SendFault(OSError):
    """Raised by the server's send() on request of the Chooser."""


class Rec:
    __slots__ = ('pulls', 'closes', 'has_close', 'faults', 'finalized')

    def __init__(self):
        self.pulls = 0        # read()/__next__()/__anext__() calls
        self.closes = 0       # close() calls
        self.has_close = False
        self.faults = []      # injected deviations, in order: (kind, index)
        self.finalized = 0    # generator `finally` blocks run (informational)


def _maybe_raise(ch, rec, k):
    if ch is not None and ch.choose(2, 'stream-raise@%d' % k):
        rec.faults.append(('stream-raise', k))
        raise StreamFault('injected at pull %d' % k)


# --------------------------------------------------------------------------
# WSGI stream kinds
# --------------------------------------------------------------------------
class SyncIter:
    def __init__(self, chunks, rec, ch):
        self._c, self._r, self._ch, self._i = chunks, rec, ch, 0

    def __iter__(self):
        return self

    def __next__(self):
        k = self._r.pulls
        self._r.pulls += 1
        _maybe_raise(self._ch, self._r, k)
        if self._i >= len(self._c):
            raise StopIteration
        c = self._c[self._i]
        self._i += 1
        return c


class SyncIterClose(SyncIter):
    def close(self):
        self._r.closes += 1


def sync_gen(chunks, rec, ch):
    """A real generator: its close() is the interpreter's; `finalized` counts the
    runs of its finally block (== closed after having begun, or completed)."""
    try:
        i = 0
        while True:
            k = rec.pulls
            rec.pulls += 1
            _maybe_raise(ch, rec, k)
            if i >= len(chunks):
                return
            yield chunks[i]
            i += 1
    finally:
        rec.finalized += 1


class SyncFile:
    """File-like: read(size) returns the next chunk, b'' at the end."""

    def __init__(self, chunks, rec, ch):
        self._c, self._r, self._ch, self._i = chunks, rec, ch, 0
        self.sizes = []

    def read(self, size=-1):
        k = self._r.pulls
        self._r.pulls += 1
        self.sizes.append(size)
        _maybe_raise(self._ch, self._r, k)
        if self._i >= len(self._c):
            return b''
        c = self._c[self._i]
        self._i += 1
        return c


class SyncFileClose(SyncFile):
    def close(self):
        self._r.closes += 1


class FileWrapper:
    """What a server puts into environ['wsgi.file_wrapper'] (PEP 3333, "Optional
    Platform-Specific File Handling"): iterable, with close() iff the file has one."""

    def __init__(self, filelike, blksize=8192):
        self.filelike = filelike
        self.blksize = blksize
        if hasattr(filelike, 'close'):
            self.close = filelike.close

    def __iter__(self):
        return self

    def __next__(self):
        data = self.filelike.read(self.blksize)
        if data:
            return data
        raise StopIteration


class AbandonIterable:
    """Server-side wrapper around the iterable the app returned: asks the Chooser
    before each next() whether the server abandons the response here (client went
    away); the driver then calls close(), which is forwarded iff the inner
    iterable has one (PEP 3333)."""

    def __init__(self, inner, rec, ch):
        self._inner = inner
        self._it = None
        self._rec = rec
        self._ch = ch
        self._n = 0
        if hasattr(inner, 'close'):
            self.close = inner.close

    def __iter__(self):
        return self

    def __next__(self):
        k = self._n
        self._n += 1
        if self._ch is not None and self._ch.choose(2, 'abandon@%d' % k):
            self._rec.faults.append(('abandon', k))
            raise StopIteration
        if self._it is None:
            self._it = iter(self._inner)
        return next(self._it)


# --------------------------------------------------------------------------
# ASGI stream kinds
# --------------------------------------------------------------------------
async def async_gen(chunks, rec, ch):
    try:
        i = 0
        while True:
            k = rec.pulls
            rec.pulls += 1
            _maybe_raise(ch, rec, k)
            if i >= len(chunks):
                return
            yield chunks[i]
            i += 1
    finally:
        rec.finalized += 1


class AsyncIter:
    def __init__(self, chunks, rec, ch):
        self._c, self._r, self._ch, self._i = chunks, rec, ch, 0

    def __aiter__(self):
        return self

    async def __anext__(self):
        k = self._r.pulls
        self._r.pulls += 1
        _maybe_raise(self._ch, self._r, k)
        if self._i >= len(self._c):
            raise StopAsyncIteration
        c = self._c[self._i]
        self._i += 1
        return c


class AsyncIterClose(AsyncIter):
    async def close(self):
        self._r.closes += 1


class AsyncFile:
    def __init__(self, chunks, rec, ch):
        self._c, self._r, self._ch, self._i = chunks, rec, ch, 0

    async def read(self, size=-1):
        k = self._r.pulls
        self._r.pulls += 1
        _maybe_raise(self._ch, self._r, k)
        if self._i >= len(self._c):
            return b''
        c = self._c[self._i]
        self._i += 1
        return c


class AsyncFileClose(AsyncFile):
    async def close(self):
        self._r.closes += 1


async def sse_emitter(events, make_event, rec, ch):
    """Async generator of SSEvent objects (None = "send a ping").  Suspends once
    before each event so that the framework's disconnect watcher gets to run."""
    try:
        i = 0
        while True:
            k = rec.pulls
            rec.pulls += 1
            await asyncio.sleep(0)
            _maybe_raise(ch, rec, k)
            if i >= len(events):
                return
            e = events[i]
            i += 1
            yield None if e is None else make_event(**e)
    finally:
        rec.finalized += 1


# *_fw: the server offers wsgi.file_wrapper (it is meant for file-like streams only: an iterable is iterated as usual)
WSGI_KINDS = ('list', 'gen', 'iter', 'iter_nc', 'file', 'file_nc', 'file_fw', 'file_nc_fw', 'gen_fw', 'iter_fw', 'list_fw')
ASGI_KINDS = ('agen', 'aiter', 'aiter_nc', 'afile', 'afile_nc', 'sse')
FILE_KINDS = ('file', 'file_nc', 'file_fw', 'file_nc_fw', 'afile', 'afile_nc')


def make_stream(kind, chunks, rec, ch):
    chunks = list(chunks)
    if kind in ('gen_fw', 'iter_fw', 'list_fw'):
        kind = kind[:-3]
    if kind == 'list':
        return chunks
    if kind == 'gen':
        rec.has_close = False      # interpreter-provided close; judged via `finalized`
        return sync_gen(chunks, rec, ch)
    if kind == 'iter':
        rec.has_close = True
        return SyncIterClose(chunks, rec, ch)
    if kind == 'iter_nc':
        return SyncIter(chunks, rec, ch)
    if kind in ('file', 'file_fw'):
        rec.has_close = True
        return SyncFileClose(chunks, rec, ch)
    if kind in ('file_nc', 'file_nc_fw'):
        return SyncFile(chunks, rec, ch)
    if kind == 'agen':
        return async_gen(chunks, rec, ch)
    if kind == 'aiter':
        rec.has_close = True
        return AsyncIterClose(chunks, rec, ch)
    if kind == 'aiter_nc':
        return AsyncIter(chunks, rec, ch)
    if kind == 'afile':
        rec.has_close = True
        return AsyncFileClose(chunks, rec, ch)
    if kind == 'afile_nc':
        return AsyncFile(chunks, rec, ch)
    raise AssertionError(kind)


def wire_chunks(kind, chunks):
    """What a correct server interface sends for this stream: file-likes end at the
    first empty read, iterables are passed through chunk by chunk."""
    out = []
    for c in chunks:
        if kind in FILE_KINDS and c == b'':
            break
        out.append(c)
    return out


# --------------------------------------------------------------------------
# Server-Sent Events: reader written from the WHATWG "event stream" grammar
# --------------------------------------------------------------------------
def sse_parse_block(raw):
    """One serialized event -> (fields dict, comments list) or None if malformed.
    A block is a sequence of LF-terminated lines closed by one empty line."""
    if not raw.endswith(b'\n\n'):
        return None
    try:
        text = raw.decode('utf-8')
    except UnicodeDecodeError:
        return None
    lines = text[:-2].split('\n')
    fields, comments, data = {}, [], []
    for ln in lines:
        if ln == '':
            return None          # an empty line inside would dispatch early
        if ln.startswith(':'):
            c = ln[1:]
            comments.append(c[1:] if c.startswith(' ') else c)
            continue
        name, sep, value = ln.partition(':')
        if sep and value.startswith(' '):
            value = value[1:]
        if name == 'data':
            data.append(value)
        elif name in ('event', 'id', 'retry'):
            fields[name] = value
        else:
            return None          # unknown field names are not produced by SSEvent
    if data:
        fields['data'] = '\n'.join(data)
    return fields, comments
