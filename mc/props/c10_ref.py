"""Byte-level reference percent codec shared by the C10 and C08 harnesses.

Imports nothing from falcon.  Everything is a plain left-to-right scan over
the UTF-8 bytes of the input -- deliberately a different algorithm from
falcon's ``split('%')`` + lookup-table implementation.
"""

UNRESERVED = frozenset(b'ABCDEFGHIJKLMNOPQRSTUVWXYZabcdefghijklmnopqrstuvwxyz0123456789-._~')
# RFC 3986 gen-delims + sub-delims
RESERVED = frozenset(b":/?#[]@!$&'()*+,;=")
URI_ALLOWED = UNRESERVED | RESERVED

_HEXVAL = {}
for _i, _c in enumerate(b'0123456789'):
    _HEXVAL[_c] = _i
for _i, _c in enumerate(b'abcdef'):
    _HEXVAL[_c] = 10 + _i
for _i, _c in enumerate(b'ABCDEF'):
    _HEXVAL[_c] = 10 + _i
_UPPER = '0123456789ABCDEF'


def _escape_at(raw, i, n):
    """True iff raw[i] is '%' followed by two hex digits."""
    return raw[i] == 0x25 and i + 2 < n and raw[i + 1] in _HEXVAL and raw[i + 2] in _HEXVAL


def ref_decode_bytes(raw, plus):
    """Percent-decode a byte string: every well-formed %XX becomes one byte, a
    '%' not followed by two hex digits stays literal, '+' -> space iff `plus`."""
    out = bytearray()
    i, n = 0, len(raw)
    while i < n:
        c = raw[i]
        if _escape_at(raw, i, n):
            out.append(_HEXVAL[raw[i + 1]] * 16 + _HEXVAL[raw[i + 2]])
            i += 3
        elif c == 0x2B and plus:
            out.append(0x20)
            i += 1
        else:
            out.append(c)
            i += 1
    return bytes(out)


def ref_decode(s, plus=True):
    """Reference for falcon.uri.decode(s, unquote_plus=plus): decode the UTF-8
    bytes of s, read the result as UTF-8 with replacement."""
    return ref_decode_bytes(s.encode('utf-8'), plus).decode('utf-8', 'replace')


def ref_encode(s, allowed):
    """Reference encoder: each UTF-8 byte is kept iff it is in `allowed`
    (a frozenset of byte values), otherwise written as upper-case %XX."""
    out = []
    for b in s.encode('utf-8'):
        if b in allowed:
            out.append(chr(b))
        else:
            out.append('%' + _UPPER[b >> 4] + _UPPER[b & 15])
    return ''.join(out)


def fully_escaped(s, allowed):
    """True iff s consists only of allowed characters and well-formed %XX escapes."""
    raw = s.encode('utf-8')
    i, n = 0, len(raw)
    while i < n:
        c = raw[i]
        if c == 0x25:
            if _escape_at(raw, i, n):
                i += 3
                continue
            return False
        if c not in allowed:
            return False
        i += 1
    return True


def output_grammar_ok(out, allowed, upper_only):
    """out is a sequence of allowed characters and %XX escapes (upper-case hex
    digits only when `upper_only`)."""
    try:
        raw = out.encode('ascii')
    except UnicodeError:
        return False
    i, n = 0, len(raw)
    while i < n:
        c = raw[i]
        if c == 0x25:
            if i + 2 > n - 1:
                return False
            a, b = raw[i + 1], raw[i + 2]
            if a not in _HEXVAL or b not in _HEXVAL:
                return False
            if upper_only and (chr(a) not in _UPPER or chr(b) not in _UPPER):
                return False
            i += 3
            continue
        if c not in allowed:
            return False
        i += 1
    return True


def count_escapes(s):
    """(well-formed escapes, malformed '%') in s."""
    raw = s.encode('utf-8')
    ok = bad = 0
    i, n = 0, len(raw)
    while i < n:
        if raw[i] == 0x25:
            if _escape_at(raw, i, n):
                ok += 1
                i += 3
                continue
            bad += 1
        i += 1
    return ok, bad


def ref_unquote(q):
    """RFC 9110 quoted-string -> (valid, unquoted).  valid is False when q is
    not DQUOTE *(qdtext / quoted-pair) DQUOTE."""
    if len(q) < 2 or q[0] != '"' or q[-1] != '"':
        return False, q
    body = q[1:-1]
    out = []
    i, n = 0, len(body)
    while i < n:
        c = body[i]
        if c == '\\':
            if i + 1 >= n:
                return False, q      # the backslash would quote the closing DQUOTE
            out.append(body[i + 1])
            i += 2
        elif c == '"':
            return False, q          # bare DQUOTE inside
        else:
            out.append(c)
            i += 1
    return True, ''.join(out)
