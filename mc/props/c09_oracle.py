"""Independent RFC-level readers for C09.  Nothing is imported from falcon.

Every oracle returns one of
    ('VALID', alts, cls)   alts = tuple of acceptable snapshots (usually one); the accessor must
                           return a value whose snapshot is one of them
    ('INVALID', cls)       not valid by the RFC grammar (or valid but documented as unsupported by
                           falcon): any value, or an HTTP 4xx error; never another exception
`cls` is a short input-class name used only in violation signatures.

Snapshots are plain tuples / strings / ints (see c09.snap).
"""
import datetime
import re

OWS = ' \t'
TCHAR = "!#$%&'*+.^_`|~0-9A-Za-z-"
TOKEN_RE = re.compile(r"^[" + TCHAR + r"]+$")
MAX_INT_DIGITS = 4300     # CPython's int<->str limit: longer values may be refused (4xx)


def V(*alts, cls='valid'):
    return ('VALID', tuple(alts), cls)


def INV(cls='invalid'):
    return ('INVALID', cls)


# -- Content-Length (RFC 9110 8.6: 1*DIGIT) -------------------------------------
def content_length(v):
    if v and v.isascii() and v.isdigit():
        if len(v) > MAX_INT_DIGITS:
            return INV('huge')
        return V(int(v))
    if v == '':
        return INV('empty')
    return INV()


# -- Range (RFC 9110 14.1.1, 14.2) ------------------------------------------------
_INT_RANGE = re.compile(r'^([0-9]+)-([0-9]*)$')
_SUFFIX = re.compile(r'^-([0-9]+)$')


def range_unit(v):
    unit, sep, rest = v.partition('=')
    if sep and TOKEN_RE.match(unit) and rest:
        return V(unit)
    return INV()


def range_(v):
    """falcon documents: one continuous range only, as (first, last) with -1 for an open end and
    negative first for a suffix.  Units other than bytes define their own range-spec (other-range)."""
    unit, sep, rest = v.partition('=')
    if not sep or not TOKEN_RE.match(unit):
        return INV()
    if ',' in rest:
        return INV('multi-range')          # valid RFC, documented as unsupported -> 4xx
    if len(rest) > MAX_INT_DIGITS:
        return INV('huge')
    m = _INT_RANGE.match(rest)
    if m:
        first = int(m.group(1))
        if m.group(2) == '':
            return V((first, -1))
        last = int(m.group(2))
        if last < first:
            return INV('last<first')
        return V((first, last))
    m = _SUFFIX.match(rest)
    if m:
        n = int(m.group(1))
        if n == 0:
            return INV('suffix-zero')      # syntactically fine, never satisfiable; falcon answers 400
        return V((-n, -1))
    return INV()


# -- HTTP-date (RFC 9110 5.6.7) ----------------------------------------------------
_DAYS3 = ['Mon', 'Tue', 'Wed', 'Thu', 'Fri', 'Sat', 'Sun']
_DAYSL = ['Monday', 'Tuesday', 'Wednesday', 'Thursday', 'Friday', 'Saturday', 'Sunday']
_MONTHS = ['Jan', 'Feb', 'Mar', 'Apr', 'May', 'Jun', 'Jul', 'Aug', 'Sep', 'Oct', 'Nov', 'Dec']
_TIME = r'([0-9]{2}):([0-9]{2}):([0-9]{2})'
_IMF = re.compile(r'^(%s), ([0-9]{2}) (%s) ([0-9]{4}) %s GMT$' % ('|'.join(_DAYS3), '|'.join(_MONTHS), _TIME))
_RFC850 = re.compile(r'^(%s), ([0-9]{2})-(%s)-([0-9]{2}) %s GMT$' % ('|'.join(_DAYSL), '|'.join(_MONTHS), _TIME))
_ASCTIME = re.compile(r'^(%s) (%s) ([0-9]{2}| [0-9]) %s ([0-9]{4})$' % ('|'.join(_DAYS3), '|'.join(_MONTHS), _TIME))


def _dt(y, mo, d, h, mi, s):
    try:
        t = datetime.datetime(y, mo, d, h, mi, s)
    except ValueError:
        return None
    return ('dt', t.year, t.month, t.day, t.hour, t.minute, t.second, 0, 0)


def http_date(v, obs_date):
    """obs_date False: only IMF-fixdate is supported (documented); True: all three formats."""
    m = _IMF.match(v)
    if m:
        t = _dt(int(m.group(4)), _MONTHS.index(m.group(3)) + 1, int(m.group(2)), int(m.group(5)), int(m.group(6)),
                int(m.group(7)))
        return V(t) if t else INV('impossible-date')
    m = _RFC850.match(v)
    if m:
        if not obs_date:
            return INV('obs-format')
        yy = int(m.group(4))
        alts = []
        for century in (1900, 2000):   # the 50-year rule depends on the clock: accept either century
            t = _dt(century + yy, _MONTHS.index(m.group(3)) + 1, int(m.group(2)), int(m.group(5)), int(m.group(6)),
                    int(m.group(7)))
            if t:
                alts.append(t)
        return V(*alts) if len(alts) == 2 else INV('impossible-date')
    m = _ASCTIME.match(v)
    if m:
        if not obs_date:
            return INV('obs-format')
        t = _dt(int(m.group(7)), _MONTHS.index(m.group(2)) + 1, int(m.group(3)), int(m.group(4)), int(m.group(5)),
                int(m.group(6)))
        return V(t) if t else INV('impossible-date')
    return INV()


# -- entity-tag lists (RFC 9110 8.8.3, 13.1.1) ------------------------------------------
_ETAG = re.compile(r'^(W/)?"([\x21\x23-\x7e\x80-\xff]*)"$')


def etags(v):
    s = v.strip(OWS)
    if s == '':
        return V(None, cls='blank')
    if s == '*':
        return V(('*',))
    # split on commas outside DQUOTEs (an opaque-tag may contain a comma, never a DQUOTE)
    parts, cur, inq = [], [], False
    for c in s:
        if c == '"':
            inq = not inq
            cur.append(c)
        elif c == ',' and not inq:
            parts.append(''.join(cur))
            cur = []
        else:
            cur.append(c)
    parts.append(''.join(cur))
    out = []
    for p in parts:
        p = p.strip(OWS)
        if not p:
            continue            # empty list elements are ignored (RFC 9110 5.6.1.2)
        m = _ETAG.match(p)
        if not m:
            return INV()
        out.append((m.group(2), bool(m.group(1))))
    if not out:
        return V(None, cls='blank')
    return V(tuple(out))


# -- Cookie (RFC 6265 4.2.1, whitespace around ';' tolerated as falcon documents) -------------
_COOKIE_OCTETS = r'[\x21\x23-\x2b\x2d-\x3a\x3c-\x5b\x5d-\x7e]*'
_COOKIE_VALUE = re.compile(r'^(?:%s|"%s")$' % (_COOKIE_OCTETS, _COOKIE_OCTETS))


def cookie_pairs(v, dquotes=None):
    """-> ('VALID', [(name, value_alts)...]) or INVALID.
    dquotes: None = either reading of a quoted value is accepted; 'strip' / 'keep' = the ONE reading the implementation
    was seen to apply to a non-empty quoted value (it must then apply it to every quoted value, the empty one included)."""
    if v.strip(OWS) == '':
        return INV('blank')
    pairs = []
    for part in v.split(';'):
        part = part.strip(OWS)
        name, sep, value = part.partition('=')
        if not sep or not TOKEN_RE.match(name) or not _COOKIE_VALUE.match(value):
            return INV()
        if len(value) >= 2 and value[0] == '"':
            alts = (value[1:-1], value)      # RFC 6265 does not say whether the DQUOTEs belong to the value
            if dquotes == 'strip':
                alts = (value[1:-1],)
            elif dquotes == 'keep':
                alts = (value,)
        else:
            alts = (value,)
        pairs.append((name, alts))
    return ('VALID', pairs, 'valid')


# -- Host (RFC 9110 7.2, RFC 3986 3.2.2/3.2.3) ------------------------------------------------
_REGNAME = re.compile(r"^(?:[A-Za-z0-9._~!$&'()*+,;=-]|%[0-9A-Fa-f]{2})*$")
_IPV6ISH = re.compile(r'^[0-9A-Fa-f:.]+$')
_IPV4 = re.compile(r'^[0-9]{1,3}(?:\.[0-9]{1,3}){3}$')


def host_port(v):
    """-> ('VALID', host_alts, port_or_None, cls) | ('INVALID', cls).  port None = no/empty port."""
    if v.startswith('['):
        end = v.find(']')
        if end < 0:
            return INV('bad-ip-literal')
        inner, rest = v[1:end], v[end + 1:]
        if not _IPV6ISH.match(inner) or ':' not in inner:
            return INV('bad-ip-literal')
        hosts = (inner, '[' + inner + ']')
        if rest == '':
            portstr = None
        elif rest.startswith(':'):
            portstr = rest[1:]
        else:
            return INV('bad-ip-literal')
        kind = 'ip'
    else:
        n = v.count(':')
        if n == 0:
            name, portstr = v, None
        elif n == 1:
            name, _, portstr = v.partition(':')
        else:
            return INV('many-colons')
        if not _REGNAME.match(name):
            return INV()
        hosts = (name,)
        kind = 'ip' if _IPV4.match(name) else 'name'
    if portstr is None:
        return ('VALID', hosts, None, 'valid-' + kind)
    if portstr == '':
        return ('VALID', hosts, None, 'empty-port')       # port = *DIGIT: an empty port is legal
    if portstr.isascii() and portstr.isdigit():
        if len(portstr) > MAX_INT_DIGITS:
            return INV('huge')
        return ('VALID', hosts, int(portstr), 'valid-' + kind)
    return INV('bad-port')


# -- Forwarded (RFC 7239 4) ---------------------------------------------------------------------
# obs-text (0x80-0xff) has no defined encoding; falcon documents that it does not accept it -> INVALID here
_QS_BODY = re.compile(r'^(?:[\t \x21\x23-\x5b\x5d-\x7e]|\\[\t \x21-\x7e])*$')


def _split_quoted(s, sep):
    out, cur, inq, i = [], [], False, 0
    while i < len(s):
        c = s[i]
        if inq:
            cur.append(c)
            if c == '\\' and i + 1 < len(s):
                cur.append(s[i + 1])
                i += 1
            elif c == '"':
                inq = False
        elif c == '"':
            inq = True
            cur.append(c)
        elif c == sep:
            out.append(''.join(cur))
            cur = []
        else:
            cur.append(c)
        i += 1
    if inq:
        return None
    out.append(''.join(cur))
    return out


def _value(v):
    if TOKEN_RE.match(v):
        return v
    if len(v) >= 2 and v[0] == '"' and v[-1] == '"' and _QS_BODY.match(v[1:-1]):
        body, out, i = v[1:-1], [], 0
        while i < len(body):
            if body[i] == '\\':
                if i + 1 >= len(body):
                    return None
                out.append(body[i + 1])
                i += 2
            else:
                out.append(body[i])
                i += 1
        return ''.join(out)
    return None


def forwarded(v):
    """-> ('VALID', [ {name: value} per non-empty element ], cls) | INVALID."""
    elements = _split_quoted(v, ',')
    if elements is None:
        return INV()
    out = []
    for el in elements:
        el = el.strip(OWS)
        if el == '':
            continue
        pairs = _split_quoted(el, ';')
        if pairs is None:
            return INV()
        d = {}
        for p in pairs:
            if p == '':
                continue                     # forwarded-element = [pair] *( ";" [pair] )
            name, sep, val = p.partition('=')
            if not sep or not TOKEN_RE.match(name):
                return INV()
            val = _value(val)
            if val is None:
                return INV()
            name = name.lower()
            if name in d:
                return INV('duplicate-param')    # "MUST NOT occur more than once per field-value"
            d[name] = val
        if not d:
            return INV()
        out.append(d)
    if not out:
        return INV('blank')
    return ('VALID', out, 'valid')


_OBF = r'_[A-Za-z0-9._-]+'
_NODE = re.compile(r'^(?:(?P<v4>[0-9]{1,3}(?:\.[0-9]{1,3}){3})|\[(?P<v6>[0-9A-Fa-f:.]+)\]|(?P<unk>unknown)|(?P<obf>%s))'
                   r'(?::(?P<port>.*))?$' % _OBF)
_OBFPORT = re.compile(r'^%s$' % _OBF)


def node(v):
    """RFC 7239 section 6 node -> ('VALID', name_alts, cls) | INVALID(cls)."""
    m = _NODE.match(v)
    if not m:
        return INV('bad-node')
    if m.group('v6') is not None:
        if ':' not in m.group('v6'):
            return INV('bad-node')
        names = (m.group('v6'), '[' + m.group('v6') + ']')
    else:
        names = (m.group('v4') or m.group('unk') or m.group('obf'),)
    port = m.group('port')
    if port is None:
        return ('VALID', names, 'valid')
    if port.isascii() and port.isdigit() and 1 <= len(port) <= 5:
        return ('VALID', names, 'valid')
    if _OBFPORT.match(port):
        return ('VALID', names, 'obfport')
    return INV('bad-port')
