"""C08 -- query strings parse to one well-defined mapping; typed getters never misreport.

Engine: ENUM (bounded-exhaustive), sharded by (part, length, prefix), simplest first.

Parts
  A  falcon.uri.parse_query_string on ALL strings of length <= L (5 quick, 7 thorough) over the
     11 symbol classes
        & = , + %  hexdigit1 hexdigit2  hex-letter  non-hex-letter  NUL  2-byte-char
     x keep_blank x csv (4 option combinations).
  B  the same function on all sequences of <= 4 (5 thorough) *tokens* -- escaped delimiters
     (%2C %2c %26 %3D %2B %25), escaped UTF-8 (%C3%A9), a non-UTF-8 escape (%FF), bare
     '%', the literal delimiters and a letter -- so that "encoded comma / ampersand / equals
     / plus next to a literal one" is covered exhaustively; and on s*9 for every s of length
     <= 3 (crosses decode()'s 8-token switch inside a value).
  C  the Request level: every string of length <= 4 (5 thorough) over the ASCII sub-alphabet
     (10 classes) through the real WSGI and ASGI apps (own drivers), 4 option combinations;
     on ASGI additionally raw non-ASCII query bytes (UTF-8 2-byte char and a non-UTF-8 byte),
     length <= 3 (4 thorough).  Observed: req.params, req.query_string, has_param,
     get_param, get_param_as_list for every name in either mapping and an absent name.
  D  typed getters: ~80 values x 12 occurrence patterns (single, repeated, CSV, blank,
     all-blank CSV, absent, trailing comma, loosely encoded ...) x 4 options x 2 stacks x every
     getter x (required, default, store, min/max, blank_as_true, transform, format) combinations.
  E  to_query_str round trip: every 1-key dict (key <= 2 symbols over {a, 2-byte, & = % + space ,})
     x (str <= 2 symbols | bool | list[str] of 2-3 elements) and every 2-key dict over a reduced
     set, both list styles, prefix on/off; parsed back by falcon and by the reference.
Oracle (reference model, independent of falcon; byte-level codec in mc/props/c10_ref.py)
  ref_parse: split the UTF-8 bytes on '&', then on the first '='; a field with a blank value is
  dropped unless keep_blank (and a field with neither name nor value is never a field); with csv
  a value containing a literal comma is split on commas (blank elements dropped unless
  keep_blank); names / values / elements are percent- and plus-decoded separately, malformed
  escapes literal, UTF-8 with replacement; a name that occurs in more than one kept field or
  was comma-split maps to the list of its values in order (possibly the empty list, when every
  element was a dropped blank -- falcon's own suite pins that), otherwise to the single string.
  getters: stdlib conversion (int, float, uuid.UUID, strptime, json.loads, membership in the
  documented TRUE/FALSE sets) of the LAST value => that value, `store[name]` set iff a value is
  returned, bounds min <= v <= max; absent => default unless required; otherwise exactly an
  HTTP 400 error.  A name mapped to the empty list has no last value: scalar getters may treat it
  as missing or answer 400.  Any other exception is a violation.
Out of scope: raw non-ASCII in a WSGI QUERY_STRING (PEP 3333 latin-1 tunnelling, C06);
  lone surrogates; the stale compiled cyutil artifact.
"""
import collections
import datetime
import itertools
import json
import uuid

from mc.core import par
from mc.core.report import digest
from mc.drivers import asgi as asgi_drv
from mc.drivers import wsgi as wsgi_drv
from mc.props import c10_ref as R

import falcon
import falcon.asgi
import falcon.uri as U

OPTS = ((False, False), (True, False), (False, True), (True, True))     # (keep_blank, csv)

# --------------------------------------------------------------------------
# alphabets (VERIF_SEED renames symbols only)
# --------------------------------------------------------------------------
_SEEDS = [
    {'h1': '4', 'h2': '1', 'hexl': 'a', 'non': 'G', 'u2': 'é', 'name': 'k', 'other': 'j'},
    {'h1': '5', 'h2': '2', 'hexl': 'b', 'non': 'Z', 'u2': 'ß', 'name': 'q', 'other': 'p'},
    {'h1': '3', 'h2': '0', 'hexl': 'c', 'non': 'x', 'u2': 'ü', 'name': 'id', 'other': 'n'},
]


def syms_for(seed):
    return _SEEDS[seed % len(_SEEDS)]


def char_alphabet(seed):
    z = syms_for(seed)
    return ['&', '=', ',', '+', '%', z['h1'], z['h2'], z['hexl'], z['non'], '\x00', z['u2']]


TOKENS = ['&', '=', ',', '+', 'a', '%', '%2C', '%2c', '%26', '%3D', '%2B', '%25', '%C3%A9', '%FF', '%c3%aF', '%Bf']   # mixed-case hex pairs


# --------------------------------------------------------------------------
# reference reader
# --------------------------------------------------------------------------
_dec_cache = {}


def _dec(b):
    r = _dec_cache.get(b)
    if r is None:
        if len(_dec_cache) > 300000:
            _dec_cache.clear()
        r = _dec_cache[b] = R.ref_decode_bytes(b, True).decode('utf-8', 'replace')
    return r


class Mapping(dict):
    """Reference mapping.  `either` holds the names whose str-vs-one-element-list
    shape the property statement does not fix (see ref_parse_bytes)."""
    either = frozenset()


def ref_parse_bytes(raw, keep_blank, csv):
    acc = {}
    for field in raw.split(b'&'):
        eq = field.find(b'=')
        if eq < 0:
            name_b, val_b = field, b''
        else:
            name_b, val_b = field[:eq], field[eq + 1:]
        if not val_b:
            # blank value: kept only on request, and "nothing = nothing" is never a field
            if not keep_blank or not name_b:
                continue
        name = _dec(name_b)
        if csv and b',' in val_b:
            elems = val_b.split(b',')
            if not keep_blank:
                elems = [e for e in elems if e]
            vals = [_dec(e) for e in elems]
            split = True
        else:
            vals = [_dec(val_b)]
            split = False
        ent = acc.get(name)
        if ent is None:
            ent = acc[name] = [[], 0, False, False]     # values, contributing fields, comma-split, ghost field
        if vals:
            ent[0].extend(vals)
            ent[1] += 1
            ent[2] = ent[2] or split
        else:
            ent[3] = True       # a field all of whose elements were dropped blanks
    out = Mapping()
    either = None
    for name, (vals, nfields, split, ghost) in acc.items():
        if not vals:
            # every element of a comma-split value was a dropped blank: the name is present with an
            # empty list (this is what falcon's own suite pins: 'empty2=,' -> get_param_as_list == [])
            out[name] = []
        elif nfields > 1 or split:
            out[name] = vals
        elif ghost:
            # one real value plus a field that contributed nothing: the statement does not say
            # whether the name counts as "repeated"; both shapes are accepted
            out[name] = vals
            either = (either or set())
            either.add(name)
        else:
            out[name] = vals[0]
    if either:
        out.either = frozenset(either)
    return out


def ref_parse(s, keep_blank, csv):
    return ref_parse_bytes(s.encode('utf-8'), keep_blank, csv)


def same_mapping(exp, got):
    """Exact equality (including str vs list shape and element types)."""
    if type(got) is not dict:
        return False
    if got != exp:
        if not exp.either or set(got) != set(exp):
            return False
        for k, v in exp.items():
            g = got[k]
            if g != v and not (k in exp.either and [g] == v):
                return False
    for k, v in got.items():
        if type(k) is not str:
            return False
        if type(v) is list:
            if not all(type(x) is str for x in v):
                return False
        elif type(v) is not str:
            return False
    return True


def diff_class(exp, got):
    """Coarse class of a mapping disagreement (part of the violation signature)."""
    if type(got) is not dict:
        return 'not-a-dict'
    keys = set(exp) | set(got)
    kinds = set()
    for k in keys:
        if k in exp and k in got:
            e, g = exp[k], got[k]
            if e == g and type(e) is type(g):
                continue
            if isinstance(g, list) != isinstance(e, list) and (g == [e] or e == [g]):
                kinds.add('shape')
            elif isinstance(e, list) and isinstance(g, list) and len(e) != len(g):
                kinds.add('list-length')
            elif isinstance(e, list) and isinstance(g, list) and sorted(e) == sorted(g):
                kinds.add('list-order')
            else:
                kinds.add('value')
        elif k in got:
            kinds.add('empty-list-entry' if got[k] == [] else 'extra-name')
        else:
            kinds.add('missing-name')
    return '+'.join(sorted(kinds)) or 'type'


# --------------------------------------------------------------------------
# part A / B : function level
# --------------------------------------------------------------------------
def check_function(s, rep, part, register):
    """parse_query_string(s, ...) for the 4 option combinations.  Returns #non-trivial."""
    raw = s.encode('utf-8')
    nt = 0
    enc = '%' in s or '+' in s
    for kb, csv in OPTS:
        exp = ref_parse_bytes(raw, kb, csv)
        try:
            got = U.parse_query_string(s, keep_blank=kb, csv=csv)
        except Exception as e:  # noqa
            rep.violation({'kind': 'parse-raises', 'level': 'function', 'exc': type(e).__name__, 'kb': kb, 'csv': csv},
                          {'part': part, 's': s, 'kb': kb, 'csv': csv},
                          'parse_query_string(%r, keep_blank=%s, csv=%s) raised %s: %s' % (s, kb, csv, type(e).__name__, e))
            continue
        if not same_mapping(exp, got):
            rep.violation({'kind': 'mapping', 'level': 'function', 'cls': diff_class(exp, got), 'kb': kb, 'csv': csv},
                          {'part': part, 's': s, 'kb': kb, 'csv': csv},
                          'parse_query_string(%r, keep_blank=%s, csv=%s): reference reading %r, falcon gave %r'
                          % (s, kb, csv, exp, got))
        haslist = any(type(v) is list for v in exp.values()) if exp else False
        _OUT[(min(len(exp), 3), haslist, enc)] += 1
        if exp and (enc or haslist):
            nt += 1
            if register:
                rep.nt(digest((s, kb, csv)))
    return nt


_OUT = collections.Counter()


def flush_outcomes(rep, part):
    for (nk, haslist, enc), c in sorted(_OUT.items()):
        rep.outcome('%s:names=%s%s%s%s' % (part[0], nk, '+' if nk == 3 else '', ',list' if haslist else '',
                                          ',encoded' if enc else ''), c)
    _OUT.clear()


def check_function_defaults(s, rep, part):
    """Positional / default arguments mean keep_blank=False, csv=False."""
    exp = ref_parse(s, False, False)
    for label, call in (('defaults', lambda: U.parse_query_string(s)),
                        ('positional', lambda: U.parse_query_string(s, True, True))):
        e = exp if label == 'defaults' else ref_parse(s, True, True)
        try:
            got = call()
        except Exception as ex:  # noqa
            got = ('raised', type(ex).__name__)
        if not same_mapping(e, got):
            rep.violation({'kind': 'mapping', 'level': 'function', 'cls': 'call-form-' + label},
                          {'part': part, 's': s, 'form': label},
                          'parse_query_string(%r) [%s]: reference %r, falcon %r' % (s, label, e, got))


def run_strings(iterable, rep, part, register, defaults=False):
    n = nt = 0
    for s in iterable:
        nt += check_function(s, rep, part, register)
        if defaults:
            check_function_defaults(s, rep, part)
        n += 1
    rep.state(n)
    rep.trans(4 * n)
    rep.trace(4 * n)
    rep.c['nontrivial_evaluations'] += nt
    rep.c['parses_function_level'] += 4 * n
    flush_outcomes(rep, part)
    return n


# --------------------------------------------------------------------------
# apps (Request level)
# --------------------------------------------------------------------------
_apps = {}


def get_app(stack, kb, csv):
    key = (stack, kb, csv)
    ent = _apps.get(key)
    if ent is None:
        holder = []
        if stack == 'wsgi':
            class Res:
                def on_get(self, req, resp):
                    holder.append(req)
            app = falcon.App()
        else:
            class Res:
                async def on_get(self, req, resp):
                    holder.append(req)
            app = falcon.asgi.App()
        app.req_options.keep_blank_qs_values = kb
        app.req_options.auto_parse_qs_csv = csv
        app.add_route('/', Res())
        ent = _apps[key] = (app, holder)
    return ent


def make_request(stack, query, kb, csv):
    """query: str (ASCII) or bytes.  Returns (req or None, problem or None)."""
    app, holder = get_app(stack, kb, csv)
    del holder[:]
    if stack == 'wsgi':
        q = query if isinstance(query, str) else query.decode('latin-1')
        res = wsgi_drv.call(app, query=q)
    else:
        q = query.encode('latin-1') if isinstance(query, str) else query
        res = asgi_drv.call(app, query=q)
    if res.exc is not None:
        return None, ('request-raises', type(res.exc).__name__, '%s: %s' % (type(res.exc).__name__, res.exc))
    if res.code != 200 or res.problems or len(holder) != 1:
        return None, ('request-failed', str(res.code), 'status %r problems %r responder calls %d'
                      % (res.code, res.problems[:2], len(holder)))
    return holder[0], None


def query_class(raw):
    """Input class for signatures at the Request level."""
    try:
        raw.decode('utf-8')
    except UnicodeDecodeError:
        return 'non-utf8-byte'
    return 'ascii' if raw.isascii() else 'raw-utf8'


# --------------------------------------------------------------------------
# getters: execution + model
# --------------------------------------------------------------------------
DEFAULT = ('the-default',)      # a value no conversion can produce


def canon(v):
    if isinstance(v, list):
        return ('list', tuple(canon(x) for x in v))
    if isinstance(v, dict):
        return ('dict', tuple((k, canon(x)) for k, x in v.items()))
    return (type(v).__name__, repr(v))


def run_getter(req, g, name, kw):
    kw2 = dict(kw)
    store = None
    if 'store' in kw2:
        store = kw2['store'] = {}
    try:
        val = getattr(req, g)(name, **kw2)
    except falcon.HTTPError as e:
        if isinstance(e, falcon.HTTPBadRequest) and getattr(e, 'status_code', None) == 400:
            return ('400', None if store is None else tuple(sorted((k, canon(v)) for k, v in store.items())))
        return ('http-error', type(e).__name__)
    except Exception as e:  # noqa
        return ('raised', type(e).__name__)
    return ('ret', canon(val), None if store is None else tuple(sorted((k, canon(v)) for k, v in store.items())))


TRUE_STRINGS = {'true', 'True', 't', 'yes', 'y', '1', 'on'}
FALSE_STRINGS = {'false', 'False', 'f', 'no', 'n', '0', 'off'}


class Invalid(Exception):
    pass


def _conv(g, text, kw):
    """Reference conversion of one string; raises Invalid for 'the documented 400'."""
    try:
        if g == 'get_param':
            return text
        if g == 'get_param_as_int':
            return int(text)
        if g == 'get_param_as_float':
            return float(text)
        if g == 'get_param_as_uuid':
            return uuid.UUID(text)
        if g == 'get_param_as_bool':
            if text in TRUE_STRINGS:
                return True
            if text in FALSE_STRINGS:
                return False
            if text == '':
                return kw.get('blank_as_true', True)
            raise Invalid()
        if g == 'get_param_as_datetime':
            return datetime.datetime.strptime(text, kw.get('format_string', '%Y-%m-%dT%H:%M:%S%z'))
        if g == 'get_param_as_date':
            return datetime.datetime.strptime(text, kw.get('format_string', '%Y-%m-%d')).date()
        if g == 'get_param_as_json':
            if text == '':
                raise Invalid()
            return json.loads(text)
    except Invalid:
        raise
    except Exception:
        # the statement allows exactly two outcomes: the value, or the 400
        raise Invalid()
    raise AssertionError(g)


def model_getter(expmap, g, name, kw):
    st = 'store' in kw
    if name not in expmap:
        if kw.get('required', False):
            return ('400', () if st else None)
        return ('ret', canon(kw.get('default', None)), () if st else None)
    v = expmap[name]
    if v == [] and g != 'get_param_as_list':
        # present but without any occurrence: there is no "last occurrence" to convert.  The statement
        # leaves two readings: treat as missing (default / 400 if required) or reject with a 400.
        missing = ('400', () if st else None) if kw.get('required', False) \
            else ('ret', canon(kw.get('default', None)), () if st else None)
        return ('any-of', missing, ('400', () if st else None))
    if g == 'get_param_as_list':
        items = v if isinstance(v, list) else [v]
        tf = kw.get('transform')
        if tf is None:
            val = list(items)
        else:
            try:
                val = [tf(i) for i in items]
            except ValueError:
                return ('400', () if st else None)
    else:
        last = v[-1] if isinstance(v, list) else v
        try:
            val = _conv(g, last, kw)
        except Invalid:
            return ('400', () if st else None)
        lo, hi = kw.get('min_value'), kw.get('max_value')
        if lo is not None and not (lo <= val):
            return ('400', () if st else None)
        if hi is not None and not (val <= hi):
            return ('400', () if st else None)
    return ('ret', canon(val), ((name, canon(val)),) if st else None)


def _strict_int(x):
    if not x.isdigit():
        raise ValueError('not digits')
    return int(x)


def _common():
    out = []
    for required in (False, True):
        for dflt in (False, True):
            for store in (False, True):
                kw = {}
                if required:
                    kw['required'] = True
                if dflt:
                    kw['default'] = DEFAULT
                if store:
                    kw['store'] = True
                out.append(kw)
    return out


def _with(extra_list):
    out = []
    for base in _common():
        for extra in extra_list:
            kw = dict(base)
            kw.update(extra)
            out.append(kw)
    return out


GETTER_KW = {
    'get_param': _common(),
    'get_param_as_int': _with([{}, {'min_value': 1}, {'max_value': 1}, {'min_value': 1, 'max_value': 1},
                               {'min_value': 0, 'max_value': 2}, {'min_value': 2, 'max_value': 0},
                               {'min_value': -1, 'max_value': -1}]),
    'get_param_as_float': _with([{}, {'min_value': 1.5}, {'max_value': 1.5}, {'min_value': 1.5, 'max_value': 1.5},
                                 {'min_value': 0.0, 'max_value': 2.0}, {'min_value': -1, 'max_value': 1}]),
    'get_param_as_uuid': _common(),
    'get_param_as_bool': _with([{}, {'blank_as_true': False}, {'blank_as_true': True}]),
    'get_param_as_list': _with([{}, {'transform': int}, {'transform': str.upper}, {'transform': _strict_int}]),
    'get_param_as_datetime': _with([{}, {'format_string': '%Y-%m-%dT%H:%M:%SZ'}, {'format_string': '%Y-%m-%d'}]),
    'get_param_as_date': _with([{}, {'format_string': '%d/%m/%Y'}]),
    'get_param_as_json': _common(),
}
GETTERS = tuple(GETTER_KW)

U1 = '64be949b-3433-4d36-a4a8-9f19d352fee8'

VALUES = [
    # integers and near misses
    '1', '0', '-1', '+1', '2', ' 1', '1 ', '1_0', '1__0', '0x10', '1.0', '\u0661\u0662', '9' * 20, '1e3', 'abc', '1\x00',
    '00', '-0', '\uff11',
    # floats
    '1.5', '-1.5', '1e3', 'nan', 'NaN', '-nan', 'inf', '-inf', 'Infinity', '1_0.5', '.5', '5.', '1,5', '1.5.1', '0x1p3',
    '1e400', '-0.0', '1.50',
    # booleans and near misses
    'true', 'True', 't', 'yes', 'y', 'on', 'false', 'False', 'f', 'no', 'n', 'off',
    'TRUE', 'T', 'Yes', 'ON', 'tru', 'truee', ' true', 'nil', 'False ', 'FALSE', 'Off',
    # uuids
    U1, U1.upper(), '{' + U1 + '}', 'urn:uuid:' + U1, U1.replace('-', ''), U1[:-1], U1 + '0', 'g' + U1[1:],
    U1.replace('-', '', 1), '{' + U1, '\uff10' * 32,
    # dates / datetimes
    '2024-02-29', '2023-02-29', '2024-2-9', '2024-13-01', '24-01-01', '2024-01-01 ', '29/02/2024', '31/04/2024',
    '2024-01-02T03:04:05Z', '2024-01-02T03:04:05+01:00', '2024-01-02T03:04:05', '2024-01-02T03:04:05+0100',
    '2024-01-02T25:00:00Z', '2024-01-02T03:04:05+24:00', '2024-01-02T03:04:05-23:59', '0000-01-01', '9999-12-31',
    '2024-01-02T03:04:05z',
    # JSON
    '"a"', 'null', '{}', '{"a": 1}', '[1, 2]', '{"a":1,"b":[true,null]}', '{', '\'a\'', '"\\ud800"', '1 2', '\x00',
    '"é"', '[[[[1]]]]', '\ufeff1', '1e999', '-', '[1,]', '{"a":1,"a":2}',
    # delimiters inside a value
    'a&b', 'a=b', 'a+b', 'a%b', 'a%41', ',', 'a,', ',a', ' ',
]


VALUES = list(dict.fromkeys(VALUES))


def _loose(v):
    """A 'browser-like' encoding: space as '+', commas and other sub-delims literal."""
    out = []
    for b in v.encode('utf-8'):
        c = chr(b)
        if b in R.UNRESERVED or c in ",:/?@!$'()*;":
            out.append(c)
        elif c == ' ':
            out.append('+')
        else:
            out.append('%%%02X' % b)
    return ''.join(out)


def occurrence_queries(v, K, J):
    e = R.ref_encode(v, R.UNRESERVED)
    lo = _loose(v)
    Ke = R.ref_encode(K, R.UNRESERVED)
    qs = [
        ('single', '%s=%s' % (Ke, e)),
        ('repeated-last', '%s=zz&%s=%s' % (Ke, Ke, e)),
        ('repeated-first', '%s=%s&%s=zz' % (Ke, e, Ke)),
        ('csv-last', '%s=zz,%s' % (Ke, e)),
        ('csv-first', '%s=%s,zz' % (Ke, e)),
        ('trailing-comma', '%s=%s,' % (Ke, e)),
        ('then-blank', '%s=%s&%s=' % (Ke, e, Ke)),
        ('absent', '%s=%s' % (J, e)),
        ('other-first', '%s=1&%s=%s' % (J, Ke, e)),
    ]
    if lo != e:
        qs.append(('loose', '%s=%s' % (Ke, lo)))
        qs.append(('loose-repeated', '%s=%s&%s=%s' % (Ke, lo, Ke, lo)))
    return qs


FIXED_QUERIES = [
    ('blank-eq', '{K}='), ('blank-bare', '{K}'), ('csv-all-blank', '{K}=,'), ('csv-all-blank3', '{K}=,,'),
    ('csv-all-blank-then-value', '{K}=,&{K}=1'), ('value-then-csv-all-blank', '{K}=1&{K}=,'),
    ('csv-all-blank-twice', '{K}=,&{K}=,'), ('blank-then-csv-all-blank', '{K}=&{K}=,'),
    ('no-query', ''), ('only-amp', '&&'), ('only-eq', '='), ('escaped-name', '%{H}=1'),
]


def check_getters(req, expmap, name, rep, ctx, gset=GETTERS, occ=''):
    """Every getter x kwargs combination on one Request for one parameter name."""
    n = 0
    for g in gset:
        for kw in GETTER_KW[g]:
            exp = model_getter(expmap, g, name, kw)
            got = run_getter(req, g, name, kw)
            n += 1
            rep.outcome('D:%s:%s' % (g[4:], exp[0] if exp[0] != 'ret' else ('value' if name in expmap else 'default')))
            if got == exp or (exp[0] == 'any-of' and got in exp[1:]):
                continue
            if got[0] == 'raised':
                kind, exc = 'getter-raises', got[1]
            elif got[0] == 'http-error':
                kind, exc = 'getter-wrong-http-error', got[1]
            elif got[0] == '400' and exp[0] == 'ret':
                kind, exc = 'getter-spurious-400', ''
            elif got[0] == 'ret' and exp[0] == '400':
                kind, exc = 'getter-missing-400', ''
            elif got[0] == exp[0] and got[1] == exp[1]:
                kind, exc = 'getter-store', ''
            else:
                kind, exc = 'getter-value', ''
            cls = cause_class(req, expmap, g, name, kw, exp, got)
            sig = {'kind': kind, 'getter': g, 'exc': exc, 'cls': cls}
            if cls == 'empty-list-entry' and g != 'get_param_as_list':
                sig['getter'] = 'scalar-getters'      # one root cause, nine accessors
            rep.violation(sig, dict(ctx, part=ctx.get('part', 'D'), getter=g, name=name,
                                    kw={k: (v if isinstance(v, (int, float, bool, str)) else getattr(v, '__name__', 'DEFAULT'))
                                        for k, v in kw.items()}),
                          '%s query=%r keep_blank=%s csv=%s: %s(%r, %s): reference %r, falcon %r'
                          % (ctx['stack'], ctx['query'], ctx['kb'], ctx['csv'], g, name,
                             ', '.join('%s=%s' % (k, getattr(v, '__name__', v)) for k, v in kw.items()), exp, got))
    return n


def cause_class(req, expmap, g, name, kw, exp, got):
    """Coarse, stable cause class for a getter disagreement (part of the signature)."""
    if expmap.get(name) == []:
        return 'empty-list-entry'
    if name not in expmap:
        return 'absent'
    if g in ('get_param_as_int', 'get_param_as_float') and ('min_value' in kw or 'max_value' in kw):
        v = expmap[name]
        last = v[-1] if isinstance(v, list) else v
        try:
            val = _conv(g, last, kw)
        except Invalid:
            return 'conversion'
        if val != val:
            return 'bounds-nan'
        return 'bounds'
    if exp[0] == '400' or got[0] == '400':
        return 'conversion'
    return 'present'


BASIC = ('get_param', 'get_param_as_list')
_BASIC_KW = {'get_param': [{}], 'get_param_as_list': [{}]}


def check_request(stack, query, kb, csv, rep, part, full_getters_for=None, occ=''):
    """One request through the real app; compare mapping and accessors with the reference."""
    raw = query.encode('latin-1') if isinstance(query, str) else query
    exp = ref_parse_bytes(raw, kb, csv)
    ctx = {'stack': stack, 'query': raw, 'kb': kb, 'csv': csv, 'part': part, 'occ': occ,
           'name': full_getters_for}
    req, problem = make_request(stack, query, kb, csv)
    rep.trans()
    rep.c['requests_' + stack] += 1
    if problem is not None:
        rep.violation({'kind': problem[0], 'stack': stack, 'exc': problem[1], 'input': query_class(raw)}, ctx,
                      '%s query=%r keep_blank=%s csv=%s: reference mapping %r, but %s' % (stack, raw, kb, csv, exp, problem[2]))
        return
    got = req.params
    ok_before = same_mapping(exp, got)
    if not ok_before:
        rep.violation({'kind': 'mapping', 'level': stack, 'cls': diff_class(exp, got), 'kb': kb, 'csv': csv}, ctx,
                      '%s query=%r keep_blank=%s csv=%s: reference mapping %r, req.params %r' % (stack, raw, kb, csv, exp, got))
    try:
        want_qs = raw.decode('utf-8') if stack == 'asgi' else raw.decode('latin-1')
    except UnicodeDecodeError:
        want_qs = None
    if want_qs is not None and req.query_string != want_qs:
        rep.violation({'kind': 'query_string-attr', 'stack': stack}, ctx,
                      '%s req.query_string %r != %r' % (stack, req.query_string, want_qs))
    names = sorted(set(exp) | (set(got) if isinstance(got, dict) else set()))
    names.append('absent-name')
    for nm in names:
        try:
            hp = req.has_param(nm)
        except Exception as e:  # noqa
            hp = ('raised', type(e).__name__)
        rep.trans()
        if hp is not (nm in exp):
            rep.violation({'kind': 'has_param', 'cls': 'empty-list-entry' if isinstance(got, dict) and got.get(nm) == [] else ''},
                          ctx, '%s query=%r keep_blank=%s csv=%s: has_param(%r) is %r, reference mapping %r'
                          % (stack, raw, kb, csv, nm, hp, exp))
        if nm == full_getters_for:
            continue
        for g in BASIC:
            for kw in _BASIC_KW[g]:
                e1 = model_getter(exp, g, nm, kw)
                g1 = run_getter(req, g, nm, kw)
                rep.trans()
                if e1 != g1 and not (e1[0] == 'any-of' and g1 in e1[1:]):
                    kind = 'getter-raises' if g1[0] == 'raised' else 'getter-value'
                    cls = cause_class(req, exp, g, nm, kw, e1, g1)
                    rep.violation({'kind': kind, 'exc': g1[1] if g1[0] == 'raised' else '', 'cls': cls,
                                   'getter': 'scalar-getters' if cls == 'empty-list-entry' and g == 'get_param' else g},
                                  dict(ctx, getter=g, name=nm, kw={}),
                                  '%s query=%r keep_blank=%s csv=%s: %s(%r): reference %r, falcon %r'
                                  % (stack, raw, kb, csv, g, nm, e1, g1))
    if full_getters_for is not None:
        rep.trans(check_getters(req, exp, full_getters_for, rep, ctx, occ=occ))
    # the accessors are reads: the request's mapping is the same mapping afterwards
    after = req.params
    if ok_before and not same_mapping(exp, after):
        rep.violation({'kind': 'mapping-changed-by-accessors', 'level': stack, 'cls': diff_class(exp, after), 'kb': kb, 'csv': csv}, ctx,
                      '%s query=%r keep_blank=%s csv=%s: req.params was %r, after has_param/get_param*/typed getter calls it is %r'
                      % (stack, raw, kb, csv, exp, after))
    rep.trace()
    return exp


# --------------------------------------------------------------------------
# part E: to_query_str round trip
# --------------------------------------------------------------------------
def roundtrip_dicts(seed):
    z = syms_for(seed)
    sy = ['a', z['u2'], '&', '=', '%', '+', ' ', ',', '\t']   # TAB: a byte below 0x10 (two-digit escapes!)
    keys2 = [''.join(t) for n in range(0, 3) for t in itertools.product(sy, repeat=n)]
    strs2 = keys2
    strs1 = [''.join(t) for n in range(0, 2) for t in itertools.product(sy, repeat=n)]
    lists = [list(t) for t in itertools.product(strs1, repeat=2)]
    lists += [list(t) for t in itertools.product(['', 'a', ',', '%'], repeat=3)]
    # numbers are rendered with str(): a float's exponent sign ('1e+16') must be escaped like any other '+'
    numbers = [0, -1, 10 ** 20, 1.5, -2.5e-07, 1e16, -1e+22, [1, 2.5], [1e16, 'a']]
    vals = list(strs2) + [True, False] + lists + numbers
    for k in keys2:
        for v in vals:
            yield {k: v}
    keys1 = strs1
    v2 = ['', 'a', '&', z['u2'], ',', '%2C', True, ['a', 'b'], ['', ','], ['=', '+']]
    for k1 in keys1:
        for k2 in keys1:
            if k1 == k2:
                continue
            for a in v2:
                for b in v2:
                    yield {k1: a, k2: b}


def _has_blank(v):
    return v == '' or (isinstance(v, list) and '' in v)


def check_roundtrip(d, rep):
    if any(k == '' and _has_blank(v) for k, v in d.items()):
        return 0    # "nothing = nothing" is not a field: not representable, excluded
    expected = {}
    for k, v in d.items():
        expected[k] = ('true' if v is True else 'false' if v is False else
                       [str(x) for x in v] if isinstance(v, list) else str(v))
    blanks = any(_has_blank(v) for v in d.values())
    n = 0
    for comma in (True, False):
        try:
            q = falcon.to_query_str(d, comma_delimited_lists=comma, prefix=False)
            qp = falcon.to_query_str(d, comma_delimited_lists=comma, prefix=True)
            qd = falcon.to_query_str(d, comma_delimited_lists=comma)
        except Exception as e:  # noqa
            rep.violation({'kind': 'to_query_str-raises', 'exc': type(e).__name__, 'comma': comma},
                          {'part': 'E', 'd': d}, 'to_query_str(%r, comma_delimited_lists=%s) raised %s: %s'
                          % (d, comma, type(e).__name__, e))
            continue
        n += 3
        if qp != '?' + q or qd != qp or type(q) is not str:
            rep.violation({'kind': 'to_query_str-prefix', 'comma': comma}, {'part': 'E', 'd': d},
                          'to_query_str(%r): prefix=False %r, prefix=True %r, default %r' % (d, q, qp, qd))
        combos = [(True, True)] if comma else [(True, True), (True, False)]
        if not blanks:
            combos += [(False, c) for (_, c) in combos]
        for kb, csv in combos:
            for who, parse in (('falcon', lambda: U.parse_query_string(q, keep_blank=kb, csv=csv)),
                               ('reference', lambda: ref_parse(q, kb, csv))):
                try:
                    back = parse()
                except Exception as e:  # noqa
                    back = ('raised', type(e).__name__)
                n += 1
                if back != expected:
                    vt = sorted({'list' if isinstance(v, list) else type(v).__name__ for v in d.values()})
                    rep.violation({'kind': 'roundtrip', 'parser': who, 'comma': comma, 'kb': kb, 'csv': csv,
                                   'values': '+'.join(vt)},
                                  {'part': 'E', 'd': d},
                                  'to_query_str(%r, comma_delimited_lists=%s) = %r parses back (%s, keep_blank=%s, csv=%s) '
                                  'to %r, not to %r' % (d, comma, q, who, kb, csv, back, expected))
    rep.state()
    rep.trans(n)
    rep.trace()
    rep.c['roundtrip_dicts'] += 1
    if any(isinstance(v, list) for v in d.values()) or any(c in k + (v if isinstance(v, str) else '') for k, v in d.items()
                                                           for c in '&=%+, '):
        rep.nt(digest(('E', repr(d))))
    return n


# --------------------------------------------------------------------------
# shards
# --------------------------------------------------------------------------
SUFFIX = 4


def bounds_for(tier):
    if tier == 'quick':
        return {'LA': 5, 'LB': 4, 'LC': 4, 'LC_raw': 3}
    return {'LA': 7, 'LB': 5, 'LC': 5, 'LC_raw': 4}


def gen_shards(tier, seed):
    b = bounds_for(tier)
    sh = []
    for n in range(0, min(b['LA'], SUFFIX) + 1):
        sh.append(('A', n, ()))
    for n in range(1, min(b['LB'], 3) + 1):
        sh.append(('B', n, ()))
    sh.append(('B9',))
    for n in range(0, 4):
        sh.append(('C', n, ()))
    sh.append(('Craw', b['LC_raw']))
    nvals = len(VALUES)
    for i in range(0, nvals, 6):
        sh.append(('D', i, min(i + 6, nvals)))
    sh.append(('Dfixed',))
    for i in range(8):
        sh.append(('E', i, 8))
    for n in range(4, b['LB'] + 1):
        for pre in itertools.product(range(len(TOKENS)), repeat=n - 3):
            sh.append(('B', n, pre))
    for n in range(4, b['LC'] + 1):
        for pre in itertools.product(range(10), repeat=n - 3):
            sh.append(('C', n, pre))
    for n in range(SUFFIX + 1, b['LA'] + 1):
        for pre in itertools.product(range(11), repeat=n - SUFFIX):
            sh.append(('A', n, pre))
    return sh, b


def _strings(syms, n, pre):
    head = ''.join(syms[i] for i in pre)
    for tup in itertools.product(syms, repeat=n - len(pre)):
        yield head + ''.join(tup)


def run_shard(shard, rep):
    seed = rep.seed
    z = syms_for(seed)
    kind = shard[0]
    if kind == 'A':
        _, n, pre = shard
        cnt = run_strings(_strings(char_alphabet(seed), n, pre), rep, 'A', n <= 3, defaults=(n <= 3))
        if n == 3 and not pre:
            s = '%s=%%%s%s&%s=,' % (z['hexl'], z['h1'], z['h2'], z['hexl'])
            rep.sample({'part': 'A', 'query': s, 'keep_blank': True, 'csv': True,
                        'parsed': U.parse_query_string(s, keep_blank=True, csv=True)})
    elif kind == 'B':
        _, n, pre = shard
        cnt = run_strings(_strings(TOKENS, n, pre), rep, 'B', n <= 2)
        if n == 3 and not pre:
            s = 'a=%2C,a&a=%26'
            rep.sample({'part': 'B', 'query': s, 'keep_blank': False, 'csv': True,
                        'parsed': U.parse_query_string(s, keep_blank=False, csv=True)})
    elif kind == 'B9':
        al = char_alphabet(seed)
        cnt = run_strings((s * 9 for n in range(1, 4) for s in _strings(al, n, ())), rep, 'B9', False)
        cnt += run_strings(('a=' + s * 9 for n in range(1, 3) for s in _strings(al, n, ())), rep, 'B9', False)
    elif kind == 'C':
        _, n, pre = shard
        al = [c for c in char_alphabet(seed) if c.isascii()]
        cnt = 0
        for s in _strings(al, n, pre):
            for stack in ('wsgi', 'asgi'):
                for kb, csv in OPTS:
                    exp = check_request(stack, s, kb, csv, rep, 'C')
                    if exp and n <= 3:
                        rep.nt(digest(('C', stack, s, kb, csv)))
            cnt += 1
        rep.state(cnt)
        rep.outcome('C:len%d' % n, cnt * 8)
        if n == 3 and not pre:
            q = '%s=,' % z['hexl']
            req, _ = make_request('wsgi', q, True, True)
            rep.sample({'part': 'C', 'stack': 'wsgi', 'query': q, 'keep_blank': True, 'csv': True,
                        'params': dict(req.params) if req is not None else None})
    elif kind == 'Craw':
        al = [c.encode('latin-1') for c in char_alphabet(seed) if c.isascii() and c != '\x00']
        al += [z['u2'].encode('utf-8'), b'\xff']
        cnt = 0
        for n in range(1, shard[1] + 1):
            for tup in itertools.product(al, repeat=n):
                q = b''.join(tup)
                if q.isascii():
                    continue
                for kb, csv in OPTS:
                    exp = check_request('asgi', q, kb, csv, rep, 'Craw')
                    if exp:
                        rep.nt(digest(('Craw', q, kb, csv)))
                cnt += 1
        rep.state(cnt)
        rep.outcome('Craw:asgi-raw-bytes', cnt * 4)
    elif kind == 'D':
        K, J = z['name'], z['other']
        cnt = 0
        for v in VALUES[shard[1]:shard[2]]:
            for occ, q in occurrence_queries(v, K, J):
                for stack in ('wsgi', 'asgi'):
                    for kb, csv in OPTS:
                        exp = check_request(stack, q, kb, csv, rep, 'D', full_getters_for=K, occ=occ)
                        rep.nt(digest(('D', stack, q, kb, csv)))
                cnt += 1
        rep.state(cnt)
        rep.outcome('D:value-queries', cnt * 8)
        if shard[1] == 0:
            rep.sample({'part': 'D', 'value': VALUES[0], 'queries': [q for _, q in occurrence_queries(VALUES[0], K, J)],
                        'getter_calls_per_request': sum(len(v) for v in GETTER_KW.values())})
    elif kind == 'Dfixed':
        K = z['name']
        cnt = 0
        for occ, tmpl in FIXED_QUERIES:
            q = tmpl.replace('%{H}', ''.join('%%%02X' % ord(c) for c in K)).replace('{K}', K)
            for stack in ('wsgi', 'asgi'):
                for kb, csv in OPTS:
                    check_request(stack, q, kb, csv, rep, 'D', full_getters_for=K, occ=occ)
                    rep.nt(digest(('D', stack, q, kb, csv)))
            cnt += 1
        rep.state(cnt)
        rep.outcome('D:fixed-queries', cnt * 8)
    elif kind == 'E':
        _, i, m = shard
        cnt = 0
        for j, d in enumerate(roundtrip_dicts(seed)):
            if j % m == i:
                if check_roundtrip(d, rep):
                    cnt += 1
        rep.outcome('E:roundtrip', cnt)
        if i == 0:
            d = {'a&': ['', ','], z['u2']: True}
            rep.sample({'part': 'E', 'dict': repr(d), 'to_query_str': falcon.to_query_str(d)})
    else:
        raise AssertionError(shard)


def check(rep):
    shards, b = gen_shards(rep.tier, rep.seed)
    rep.bounds = {
        'A_alphabet': char_alphabet(rep.seed), 'A_max_len': b['LA'],
        'A_strings': sum(11 ** n for n in range(b['LA'] + 1)), 'options': '4 (keep_blank x csv)',
        'B_tokens': TOKENS, 'B_max_tokens': b['LB'], 'B9': 's*9 for len(s)<=3, "a="+s*9 for len(s)<=2',
        'C_alphabet': [c for c in char_alphabet(rep.seed) if c.isascii()], 'C_max_len': b['LC'],
        'C_raw_asgi_max_len': b['LC_raw'], 'stacks': ['wsgi', 'asgi'],
        'D_values': len(VALUES), 'D_patterns_per_value': '9-11', 'D_fixed_queries': len(FIXED_QUERIES),
        'D_getter_kw_combinations': {g: len(v) for g, v in GETTER_KW.items()},
        'E_dicts': sum(1 for _ in roundtrip_dicts(rep.seed)),
    }
    rep.rule = ('state = one distinct query string / value query / dict; transition = one parse, request or accessor call '
                'on the real code; non-trivial = evaluation whose reference mapping is non-empty and needed decoding or a '
                'list (parts A/B: registered individually up to length 3 / 2 tokens, all counted in '
                'counters.nontrivial_evaluations), every request of parts C/D with a non-empty mapping, every dict of part E '
                'with a list or a delimiter character')
    rep.assumptions = ['pure-Python falcon from the working tree (no cyutil)',
                       'a comma-split value whose every element was a dropped blank maps the name to [] (pinned by falcon\'s suite); '
                       'scalar getters may then treat the name as missing or raise 400, nothing else',
                       'a name is list-valued iff it occurs in >1 kept field or its value was comma-split',
                       'WSGI QUERY_STRING is ASCII (raw non-ASCII is PEP 3333 latin-1 tunnelling, left to C06)',
                       'the JSON getter uses the default JSON media handler']
    rep.parts['additions'] = {'note': 'token-level part B and the ASGI raw-byte part are additions to DESIGN.md section 5 C08'}
    par.run_shards(run_shard, shards, rep)


def replay(rec):
    from mc.core.report import Report
    rep = Report('C08')
    part = rec.get('part')
    if part in ('A', 'B', 'B9'):
        if 'form' in rec:
            check_function_defaults(rec['s'], rep, part)
        else:
            check_function(rec['s'], rep, part, False)
    elif part == 'E':
        check_roundtrip(rec['d'], rep)
    else:
        q = rec['query']
        if rec['stack'] == 'wsgi' and isinstance(q, (bytes, bytearray)):
            q = bytes(q).decode('latin-1')
        check_request(rec['stack'], q, rec['kb'], rec['csv'], rep, part, full_getters_for=rec.get('name'),
                      occ=rec.get('occ', ''))
    v = list(rep.viol.values())
    return {'violation': bool(v), 'details': [x['explain'] for x in v]}
