"""C02 -- dispatch: route, else newest matching sink/static route, else 404; 405/OPTIONS exact.

Engine: SEQ without merging (= every registration history up to a length bound,
order is the point) x ENUM over requests (DESIGN.md C02).

Alphabet of registrations (symbols, see `alphabets()`):
  R  add_route(t, resource implementing subset S of {GET, POST, OPTIONS, VERSION-CONTROL, on_websocket})
     t in {/a, /a/{id}, /{x}}
  S  add_route(t, res, suffix='x') with res of kind P (plain only), X (suffixed only),
     PX (plain {GET,POST} + suffixed {GET}), N (no responders); kinds P and N are
     *rejected* registrations (SuffixedMethodNotFoundError) and must leave no trace;
     also the same resources registered without suffix
  K  add_sink(f, prefix)  prefix in {/, /a, /(?P<id>\\d+), /a/(?P<rest>.+), compiled /a, /s}
  F  add_static_route(prefix, dir) prefix in {/a, /s}, dir in {d0, d1}, +fallback_filename
  B  rejected registrations of the wrong flavour (sync sink on ASGI / coroutine on WSGI, ...)
x  sink_before_static_route in {True, False}  x  stack in {wsgi, asgi}
x  mode 'final' (all registrations, then requests: the router compiles once) and
   mode 'incr' (requests after every registration: late add_* must invalidate
   whatever was compiled/cached)
Requests: method in {GET, POST, OPTIONS, VERSION-CONTROL, HEAD, WEBSOCKET (meta), BOGUS} x 13 paths
(each prefix, its boundary /a vs /ab vs /a/, nested, digits, a miss).

Bound: histories of length <= 3 (quick) / <= 4 (thorough); the alphabet shrinks
with the length -- nested alphabets FULL(149, all 32 method subsets) > MID(37) >
CORE(13) > MIN(10), see `alphabets()`:
  quick    FULL^1 + MID^2  + CORE^3           = 3 716 histories
  thorough FULL^1 + FULL^2 + MID^3  + MIN^4   = 83 004 histories
every history over the stated alphabet of its length is run -- no sampling.

Oracle: `Model` -- a list of registrations; dispatch computed from the list by
the rules of the property statement.  Observed: which generated responder / sink
ran (they log identity + kwargs), the served file (content names its directory),
status, and the Allow header compared as a multiset after splitting on ','.
"""
import itertools
import os
import re
import shutil
import tempfile

from mc.core import par
from mc.core.report import digest
from mc.drivers import asgi as adrv
from mc.drivers import wsgi as wdrv
from mc.core import vloop

import falcon
import falcon.asgi

# the WebDAV representative is the one method whose name is not an identifier (responder: 'on_version-control')
METHODS5 = ('GET', 'POST', 'OPTIONS', 'VERSION-CONTROL', 'WEBSOCKET')
REQ_METHODS = ('GET', 'OPTIONS', 'POST', 'VERSION-CONTROL', 'HEAD', 'WEBSOCKET', 'BOGUS')
PROBE_METHODS = ('GET', 'OPTIONS')          # sent between registrations in 'incr' mode
# what the framework knows as HTTP/WebDAV methods (RFC 7231/5789/2518/4918), written out here
KNOWN_METHODS = frozenset(
    'CONNECT DELETE GET HEAD OPTIONS PATCH POST PUT TRACE CHECKIN CHECKOUT COPY LOCK MKCOL MOVE '
    'PROPFIND PROPPATCH REPORT UNCHECKIN UNLOCK UPDATE VERSION-CONTROL'.split())
META = 'WEBSOCKET'


# ---------------------------------------------------------------------------
# names (VERIF_SEED only renames)
# ---------------------------------------------------------------------------
def names(seed):
    k = seed % 3
    return {
        'lit': ('a', 'b', 'q')[k],            # literal segment / sink + static prefix
        'oth': ('s', 't', 'w')[k],            # second static prefix
        'id': ('id', 'key', 'n')[k],
        'x': ('x', 'y', 'z')[k],
        'rest': ('rest', 'tail', 'r')[k],
        'sfx': ('X', 'itemList', 'V2')[k],    # capitals: responder names are looked up verbatim
        'file': ('f.txt', 'g.txt', 'h.bin')[k],
        'only0': ('only0.txt', 'o.txt', 'p.bin')[k],
    }


def templates(nm):
    return {'lit': '/%s' % nm['lit'], 'litf': '/%s/{%s}' % (nm['lit'], nm['id']), 'f': '/{%s}' % nm['x']}


def sink_prefixes(nm):
    L = nm['lit']
    return {
        'root': '/',
        'lit': '/' + L,
        'litc': re.compile('/' + L),
        # a precompiled pattern that matches only thanks to its flags (written in upper case, IGNORECASE)
        'litci': re.compile('/' + L.upper(), re.IGNORECASE),
        'num': r'/(?P<%s>\d+)' % nm['id'],
        'rest': '/%s/(?P<%s>.+)' % (L, nm['rest']),
        'oth': '/' + nm['oth'],
        # a named group that need not take part in the match: it still arrives as a keyword argument (None)
        'opt': r'/zz(?:/(?P<opt>\w+))?',
    }


def paths(nm):
    L, O, F = nm['lit'], nm['oth'], nm['file']
    return ['/', '/' + L, '/%s/' % L, '/%sb' % L, '/%s/5' % L, '/%s/%s' % (L, F), '/%s/5/6' % L,
            '/5', '/57k', '/' + O, '/%s/%s' % (O, F), '/%s/%s' % (O, nm['only0']), '/zz/y', '/zz', '/' + F]


# ---------------------------------------------------------------------------
# reference model
# ---------------------------------------------------------------------------
def m_sink_match(key, nm, path):
    """Hand-written reading of each sink prefix ("matched from the beginning of the path").
    Returns kwargs dict or None."""
    L = '/' + nm['lit']
    if key == 'root':
        return {} if path.startswith('/') else None
    if key in ('lit', 'litc'):
        return {} if path.startswith(L) else None
    if key == 'litci':
        return {} if path.lower().startswith(L.lower()) else None
    if key == 'oth':
        return {} if path.startswith('/' + nm['oth']) else None
    if key == 'num':
        if not path.startswith('/'):
            return None
        i = 1
        while i < len(path) and path[i] in '0123456789':
            i += 1
        return {nm['id']: path[1:i]} if i > 1 else None
    if key == 'opt':
        if not path.startswith('/zz'):
            return None
        j = 4
        while path[3:4] == '/' and j < len(path) and (path[j].isalnum() or path[j] == '_'):
            j += 1
        return {'opt': path[4:j] if path[3:4] == '/' and j > 4 else None}
    if key == 'rest':
        pre = L + '/'
        if path.startswith(pre) and len(path) > len(pre):
            return {nm['rest']: path[len(pre):]}
        return None
    raise AssertionError(key)


class Model:
    """The registrations, in order, and the dispatch rule of the statement."""

    def __init__(self, nm, sink_first, files):
        self.nm = nm
        self.sink_first = sink_first
        self.files = files           # dir index -> {relative name: content}
        self.routes = {}             # template -> (reg index, {method: responder name})
        self.sinks = []              # (reg index, prefix key)  in registration order
        self.statics = []            # (reg index, prefix, dir index, fallback name or None)
        self.tm = templates(nm)

    # -- registration -----------------------------------------------------
    def register(self, op, idx):
        """Returns 'ok' or 'rejected' (rejected registrations change nothing)."""
        k = op[0]
        if k == 'R':
            impl = {m: 'on_' + m.lower() for m in op[2]}
            self.routes[self.tm[op[1]]] = (idx, impl)
            return 'ok'
        if k == 'S':
            plain, suff = KINDS[op[2]]
            if op[3]:
                if not suff:
                    return 'rejected'
                impl = {m: 'on_%s_%s' % (m.lower(), self.nm['sfx']) for m in suff}
            else:
                impl = {m: 'on_' + m.lower() for m in plain}
            self.routes[self.tm[op[1]]] = (idx, impl)
            return 'ok'
        if k == 'K':
            self.sinks.append((idx, op[1]))
            return 'ok'
        if k == 'F':
            # a static route mounted at the root: every path lies below it
            prefix = '' if op[1] == 'root' else '/' + self.nm[op[1]]
            self.statics.append((idx, prefix, op[2], self.nm['file'] if op[3] else None))
            return 'ok'
        if k == 'SS':
            # ONE resource object registered twice on one template: without and with the suffix, in either order;
            # the later registration is the route
            plain, suff = KINDS['PX']
            if op[2] == 'suffix-last':
                impl = {m: 'on_%s_%s' % (m.lower(), self.nm['sfx']) for m in suff}
            else:
                impl = {m: 'on_' + m.lower() for m in plain}
            self.routes[self.tm[op[1]]] = (idx, impl)
            return 'ok'
        if k == 'B':
            return 'rejected'
        raise AssertionError(op)

    # -- dispatch ---------------------------------------------------------
    def route_for(self, path):
        segs = path[1:].split('/')
        best = None
        for tmpl, (idx, impl) in self.routes.items():
            tsegs = tmpl[1:].split('/')
            if len(tsegs) != len(segs):
                continue
            params, rank, ok = {}, [], True
            for t, s in zip(tsegs, segs):
                if t.startswith('{'):
                    params[t[1:-1]] = s
                    rank.append(1)
                elif t == s:
                    rank.append(0)
                else:
                    ok = False
                    break
            if ok and (best is None or rank < best[0]):
                best = (rank, idx, impl, params)
        return best

    def fallbacks(self, path):
        """Matching sinks / static routes in the order they must be consulted."""
        sinks = []
        for idx, key in reversed(self.sinks):
            kw = m_sink_match(key, self.nm, path)
            if kw is not None:
                sinks.append(('sink', idx, kw))
        stats = []
        for idx, prefix, d, fb in reversed(self.statics):
            if path.startswith(prefix + '/') or (fb is not None and path == prefix):
                stats.append(('static', idx, prefix, d, fb))
        return sinks + stats if self.sink_first else stats + sinks

    def candidates(self, path):
        return (1 if self.route_for(path) else 0) + len(self.fallbacks(path))

    def dispatch(self, method, path):
        """-> dict(cls, status, log, allow (sorted list or None), body (bytes or None))"""
        if method == META:
            # the meta method is not an HTTP method: refused before routing
            return {'cls': 'meta-400', 'status': 400, 'log': [], 'allow': None, 'body': None}
        r = self.route_for(path)
        if r is not None:
            _, idx, impl, params = r
            http = sorted(m for m in impl if m != META)
            if method in impl:
                return {'cls': 'route-responder', 'status': 200, 'allow': None, 'body': None,
                        'log': [('res', idx, impl[method], tuple(sorted(params.items())))]}
            if method == 'OPTIONS':
                return {'cls': 'route-auto-options', 'status': 200, 'log': [], 'allow': http, 'body': None}
            if method in KNOWN_METHODS:
                return {'cls': 'route-405', 'status': 405, 'log': [], 'allow': sorted(set(http) | {'OPTIONS'}),
                        'body': None}
            return {'cls': 'route-unknown-method-400', 'status': 400, 'log': [], 'allow': None, 'body': None}
        fb = self.fallbacks(path)
        if not fb:
            return {'cls': '404', 'status': 404, 'log': [], 'allow': None, 'body': None}
        c = fb[0]
        if c[0] == 'sink':
            return {'cls': 'sink', 'status': 200, 'allow': None, 'body': None,
                    'log': [('sink', c[1], tuple(sorted(c[2].items())))]}
        _, idx, prefix, d, fbname = c
        if method == 'OPTIONS':
            return {'cls': 'static-options', 'status': 200, 'log': [], 'allow': ['GET'], 'body': None}
        rel = path[len(prefix) + 1:]
        content = self.files[d].get(rel)
        if content is None and fbname is not None:
            content = self.files[d][fbname]
        if content is None:
            return {'cls': 'static-404', 'status': 404, 'log': [], 'allow': None, 'body': None}
        return {'cls': 'static-file', 'status': 200, 'log': [], 'allow': None,
                'body': b'' if method == 'HEAD' else content}


# resource kinds for suffixed registrations: (plain methods, suffixed methods)
KINDS = {
    'P': (('GET',), ()),
    'X': ((), ('GET', 'POST')),
    'PX': (('GET', 'POST'), ('GET',)),
    'N': ((), ()),
}


# ---------------------------------------------------------------------------
# generated application parts (real falcon objects)
# ---------------------------------------------------------------------------
def _responder(name, is_async, log):
    if is_async:
        async def responder(self, req, resp, **kw):
            log.append(('res', self.ident, name, tuple(sorted(kw.items()))))
            resp.text = 'res %d %s' % (self.ident, name)
    else:
        def responder(self, req, resp, **kw):
            log.append(('res', self.ident, name, tuple(sorted(kw.items()))))
            resp.text = 'res %d %s' % (self.ident, name)
    responder.__name__ = name
    return responder


def make_resource(ident, plain, suffixed, sfx, is_async, log, falsy=False):
    ns = {}
    if falsy:
        # a container-like resource that is empty: bool(resource) is False; it is a resource all the same
        ns['__len__'] = lambda self: 0
    for m in plain:
        n = 'on_' + m.lower()
        ns[n] = _responder(n, is_async, log)
    for m in suffixed:
        n = 'on_%s_%s' % (m.lower(), sfx)
        ns[n] = _responder(n, is_async, log)
    cls = type('Res%d' % ident, (object,), ns)
    o = cls()
    o.ident = ident
    return o


def make_sink(ident, is_async, log):
    if is_async:
        async def sink(req, resp, **kw):
            log.append(('sink', ident, tuple(sorted(kw.items()))))
            resp.text = 'sink %d' % ident
    else:
        def sink(req, resp, **kw):
            log.append(('sink', ident, tuple(sorted(kw.items()))))
            resp.text = 'sink %d' % ident
    return sink


def make_fixture(root, nm):
    files = {0: {nm['file']: b'dir0:' + nm['file'].encode(), nm['only0']: b'dir0:' + nm['only0'].encode()},
             1: {nm['file']: b'dir1:' + nm['file'].encode()}}
    dirs = {}
    for d, fs in files.items():
        p = os.path.join(root, 'dir%d' % d)
        os.makedirs(p, exist_ok=True)
        for n, c in fs.items():
            with open(os.path.join(p, n), 'wb') as f:
                f.write(c)
        dirs[d] = p
    return dirs, files


class Subject:
    """One real falcon app + the model, registrations applied to both in lockstep."""

    def __init__(self, stack, sink_first, nm, dirs, files):
        self.stack = stack
        self.nm = nm
        self.dirs = dirs
        self.log = []
        self.is_async = stack == 'asgi'
        cls = falcon.asgi.App if self.is_async else falcon.App
        self.app = cls(sink_before_static_route=sink_first)
        self.model = Model(nm, sink_first, files)
        self.tm = templates(nm)
        self.sp = sink_prefixes(nm)
        self.n = 0

    def register(self, op):
        """Apply op to app and model. Returns None or a (kind, explain) disagreement."""
        idx = self.n
        self.n += 1
        want = self.model.register(op, idx)
        got, err = 'ok', None
        try:
            self._apply(op, idx)
        except Exception as e:  # noqa
            got, err = 'rejected', e
        if want != got:
            return ('registration-' + ('not-rejected' if want == 'rejected' else 'refused'),
                    'model says %s, add_* %s' % (want, 'raised %r' % (err,) if err else 'returned'))
        return None

    def _apply(self, op, idx):
        k = op[0]
        a, nm, log = self.app, self.nm, self.log
        if k == 'R':
            a.add_route(self.tm[op[1]], make_resource(idx, op[2], (), nm['sfx'], self.is_async, log, falsy=len(op) > 3))
        elif k == 'S':
            plain, suff = KINDS[op[2]]
            res = make_resource(idx, plain, suff, nm['sfx'], self.is_async, log)
            if op[3]:
                a.add_route(self.tm[op[1]], res, suffix=nm['sfx'])
            else:
                a.add_route(self.tm[op[1]], res)
        elif k == 'K':
            a.add_sink(make_sink(idx, self.is_async, log), self.sp[op[1]])
        elif k == 'SS':
            plain, suff = KINDS['PX']
            res = make_resource(idx, plain, suff, nm['sfx'], self.is_async, log)
            if op[2] == 'suffix-last':
                a.add_route(self.tm[op[1]], res)
                a.add_route(self.tm[op[1]], res, suffix=nm['sfx'])
            else:
                a.add_route(self.tm[op[1]], res, suffix=nm['sfx'])
                a.add_route(self.tm[op[1]], res)
        elif k == 'F':
            # the prefix may be registered with a trailing slash: the same route (the documented normalisation)
            pfx = '/' if op[1] == 'root' else '/' + nm[op[1]] + ('/' if len(op) > 4 else '')
            if op[3]:
                a.add_static_route(pfx, self.dirs[op[2]], fallback_filename=nm['file'])
            else:
                a.add_static_route(pfx, self.dirs[op[2]])
        elif k == 'B':
            if op[1] == 'sink':
                a.add_sink(make_sink(idx, not self.is_async, log), self.sp['root'])
            else:
                a.add_route(self.tm[op[1]], make_resource(idx, ('GET',), (), nm['sfx'], not self.is_async, log))
        else:
            raise AssertionError(op)

    def request(self, method, path, loop=None):
        del self.log[:]
        if self.is_async:
            res = adrv.call(self.app, method=method, raw_path=path, loop=loop)
        else:
            res = wdrv.call(self.app, method=method, raw_path=path)
        return res, list(self.log)


def split_allow(res):
    vals = res.get_all('allow')
    if not vals:
        return None
    out = []
    for v in vals:
        out.extend(x.strip() for x in v.split(',') if x.strip())
    return sorted(out)


def observe(res, log):
    if res.exc is not None:
        return {'exc': type(res.exc).__name__ + ': ' + str(res.exc)[:80]}
    return {'status': res.code, 'log': log, 'allow': split_allow(res), 'body': res.body,
            'problems': list(res.problems)}


def got_class(obs):
    if 'exc' in obs:
        return 'exception'
    if obs['log']:
        return obs['log'][0][0]
    return str(obs['status'])


def compare(exp, obs, method):
    """-> None or (kind, text)"""
    if 'exc' in obs:
        return ('exception-escaped', obs['exc'])
    if obs['problems']:
        return ('protocol', '; '.join(obs['problems'])[:200])
    if obs['log'] != exp['log']:
        return ('wrong-responder', 'ran %r, expected %r' % (obs['log'], exp['log']))
    if obs['status'] != exp['status']:
        return ('wrong-status', 'status %r, expected %r' % (obs['status'], exp['status']))
    if exp['allow'] is None:
        if obs['allow'] is not None and exp['cls'] not in ('sink', 'route-responder'):
            return ('spurious-allow', 'Allow %r on a %s response' % (obs['allow'], exp['cls']))
    elif obs['allow'] is None:
        # "answers ... with an Allow header listing exactly the implemented methods": for a resource that implements
        # none the list is empty, the header is there all the same (RFC 9110 15.5.6 / 10.2.1: an empty Allow is meaningful)
        return ('missing-allow', 'no Allow header at all, expected one listing exactly %r' % (exp['allow'],))
    elif obs['allow'] != exp['allow']:
        return ('wrong-allow', 'Allow %r, expected exactly %r' % (obs['allow'], exp['allow']))
    if exp['body'] is not None and obs['body'] != exp['body']:
        return ('wrong-file', 'body %r, expected %r' % (obs['body'], exp['body']))
    if method == 'HEAD' and obs['body']:
        return ('head-body', 'HEAD answered with a body %r' % (obs['body'][:40],))
    return None


# ---------------------------------------------------------------------------
# alphabets and histories
# ---------------------------------------------------------------------------
def subsets5():
    out = []
    for k in range(0, 6):
        for c in itertools.combinations(METHODS5, k):
            out.append(c)
    return out


def alphabets():
    """Nested alphabets FULL > MID > CORE > MIN (simplest symbols first)."""
    full = []
    for t in ('lit', 'litf', 'f'):
        for s in subsets5():
            full.append(('R', t, s))
    for t in ('lit', 'litf', 'f'):
        for kind in ('X', 'PX', 'P', 'N'):
            full.append(('S', t, kind, True))
            full.append(('S', t, kind, False))
    for key in ('root', 'lit', 'litc', 'num', 'rest', 'oth', 'opt', 'litci'):
        full.append(('K', key))
    for t in ('lit', 'litf', 'f'):
        full += [('R', t, ('GET',), 'falsy'), ('R', t, (), 'falsy')]
    for p in ('lit', 'oth'):
        for d in (0, 1):
            full.append(('F', p, d, False))
    full += [('F', 'root', 0, False), ('F', 'root', 1, True), ('SS', 'lit', 'suffix-last'), ('SS', 'lit', 'suffix-first'),
             ('SS', 'litf', 'suffix-last')]
    full += [('F', 'oth', 1, True), ('F', 'lit', 0, True), ('B', 'sink'), ('B', 'lit'),
             ('F', 'oth', 0, True, 'slash'), ('F', 'lit', 1, False, 'slash')]

    mid = [('R', 'lit', ('GET',)), ('R', 'lit', ('GET', 'POST')), ('R', 'lit', ('VERSION-CONTROL', 'WEBSOCKET')), ('R', 'lit', ()),
           ('R', 'litf', ('GET',)), ('R', 'litf', ('GET', 'POST')), ('R', 'litf', ('GET', 'OPTIONS')),
           ('R', 'f', ('GET', 'OPTIONS')), ('R', 'f', ()), ('R', 'f', ('POST',)),
           ('S', 'lit', 'X', True), ('S', 'lit', 'PX', True), ('S', 'lit', 'P', True),
           ('S', 'litf', 'X', True), ('S', 'litf', 'N', True), ('S', 'lit', 'PX', False)]
    mid += [('K', key) for key in ('root', 'lit', 'litc', 'num', 'rest', 'oth', 'opt', 'litci')]
    mid += [('R', 'lit', ('GET',), 'falsy'), ('R', 'litf', (), 'falsy')]
    mid += [('F', 'root', 0, False), ('F', 'root', 1, True), ('SS', 'lit', 'suffix-last'), ('SS', 'lit', 'suffix-first')]
    mid += [('F', 'lit', 0, False), ('F', 'lit', 1, False), ('F', 'oth', 0, False), ('F', 'oth', 1, False),
            ('F', 'oth', 1, True), ('B', 'sink'), ('F', 'oth', 0, True, 'slash')]

    core = [('R', 'lit', ('GET',)), ('R', 'lit', ('VERSION-CONTROL', 'WEBSOCKET')), ('R', 'litf', ('GET', 'POST')),
            ('R', 'f', ('GET', 'OPTIONS')),
            ('S', 'lit', 'PX', True), ('S', 'lit', 'P', True),
            ('K', 'root'), ('K', 'lit'), ('K', 'rest'),
            ('F', 'lit', 0, False), ('F', 'lit', 1, False), ('F', 'oth', 0, False), ('F', 'oth', 1, True)]

    mini = [('R', 'lit', ('GET',)), ('R', 'litf', ('GET', 'POST')), ('R', 'f', ('GET', 'OPTIONS')),
            ('S', 'lit', 'PX', True), ('S', 'lit', 'P', True),
            ('K', 'root'), ('K', 'lit'), ('K', 'rest'),
            ('F', 'lit', 0, False), ('F', 'lit', 1, False)]
    for small, big in ((mini, core), (core, mid), (mid, full)):
        for s in small:
            assert s in big, s
    return {'full': full, 'mid': mid, 'core': core, 'min': mini}


def plan(tier):
    """[(length, alphabet name)] -- every history of that length over that alphabet is run."""
    if tier == 'quick':
        return [(0, 'full'), (1, 'full'), (2, 'mid'), (3, 'core')]
    return [(0, 'full'), (1, 'full'), (2, 'full'), (3, 'mid'), (4, 'min')]


def history_count(tier):
    al = alphabets()
    return sum(len(al[a]) ** n for n, a in plan(tier))


def history_at(al, n, name, i):
    syms = al[name]
    k = len(syms)
    out = []
    for _ in range(n):
        out.append(syms[i % k])
        i //= k
    return tuple(reversed(out))


# ---------------------------------------------------------------------------
# one history x flag x stack x mode
# ---------------------------------------------------------------------------
def op_json(op):
    return [list(x) if isinstance(x, tuple) else x for x in op]


def op_unjson(o):
    return tuple(tuple(x) if isinstance(x, list) else x for x in o)


def run_history(hist, stack, sink_first, mode, nm, dirs, files, rep, loop=None, only=None):
    """only=(step, method, path): replay a single request (after `step` registrations)."""
    sub = Subject(stack, sink_first, nm, dirs, files)
    pths = paths(nm)

    def viol(kind, step, method, path, exp_cls, gcls, text):
        rep.violation(
            {'kind': kind, 'stack': stack, 'expected': exp_cls, 'got': gcls},
            {'seed_names': nm, 'hist': [op_json(o) for o in hist], 'stack': stack, 'sink_first': sink_first,
             'mode': mode, 'step': step, 'method': method, 'path': path},
            'stack=%s sink_before_static_route=%s history=%r (%d applied, mode %s) %s %s: model expects %s; %s'
            % (stack, sink_first, list(hist), step, mode, method, path, exp_cls, text))

    def requests(step, methods):
        for path in pths:
            for method in methods:
                if only is not None and (step, method, path) != tuple(only):
                    continue
                exp = sub.model.dispatch(method, path)
                res, log = sub.request(method, path, loop)
                rep.trans()
                rep.trace()
                obs = observe(res, log)
                rep.outcome(exp['cls'])
                bad = compare(exp, obs, method)
                if bad:
                    viol(bad[0], step, method, path, exp['cls'], got_class(obs), bad[1])

    rep.state()
    if mode == 'incr' and not hist:
        return
    for i, op in enumerate(hist):
        bad = sub.register(op)
        rep.trans()
        if bad:
            viol(bad[0], i + 1, '-', '-', 'registration', op[0], '%s for %r' % (bad[1], op))
            return
        if mode == 'incr' and i + 1 < len(hist):
            requests(i + 1, PROBE_METHODS)
    requests(len(hist), REQ_METHODS if mode == 'final' else PROBE_METHODS)
    if mode == 'final' and only is None:
        if any(sub.model.candidates(p) >= 2 for p in pths):
            rep.nt(digest((hist, sink_first)))


def run_shard(shard, rep):
    n, name, lo, hi, seed, dirs, files = shard
    nm = names(seed)
    al = alphabets()
    loop = vloop.VLoop()
    try:
        for i in range(lo, hi):
            hist = history_at(al, n, name, i)
            for stack in ('wsgi', 'asgi'):
                for sink_first in (True, False):
                    for mode in (('final', 'incr') if n >= 2 else ('final',)):
                        run_history(hist, stack, sink_first, mode, nm, dirs, files, rep,
                                    loop if stack == 'asgi' else None)
            rep.c['histories'] += 1
            if i % 997 == 0:
                rep.sample({'history': [op_json(o) for o in hist]})
    finally:
        loop.close()

# ---------------------------------------------------------------------------
# part I: several INSTANCES of one class whose responder sets differ (responders bound on the instance)
# ---------------------------------------------------------------------------
INST_SETS = ((), ('GET',), ('GET', 'POST'), ('GET', 'POST', 'DELETE'), ('DELETE',))
INST_METHODS = ('GET', 'POST', 'DELETE', 'PUT', 'OPTIONS')


def run_instances(rep, only=None):
    """Every ordered triple of responder sets, given to three instances of ONE class and registered in that order on one
    app (plain and suffixed), every method on every route; the oracle is the statement itself: the responder when
    the instance has one, else 405 / OPTIONS 200 with Allow = exactly that instance's methods + OPTIONS."""
    import types
    loop = vloop.VLoop()
    try:
        for stack in ('wsgi', 'asgi'):
            is_async = stack == 'asgi'
            for sfx in (None, 'v'):
                sets = [x for x in INST_SETS if x or sfx is None]
                for combo in itertools.product(sets, repeat=3):
                    case = {'part': 'I', 'stack': stack, 'suffix': sfx, 'sets': [list(x) for x in combo]}
                    if only is not None and only != case:
                        continue
                    log = []
                    refused = False
                    cls = type('SharedRes', (object,), {})
                    app = (falcon.asgi.App if is_async else falcon.App)()
                    for j, ms in enumerate(combo):
                        o = cls()
                        o.ident = j
                        for m in ms:
                            n = 'on_' + m.lower() + ('_' + sfx if sfx else '')
                            setattr(o, n, types.MethodType(_responder(n, is_async, log), o))
                        try:
                            if sfx:
                                app.add_route('/i%d' % j, o, suffix=sfx)
                            else:
                                app.add_route('/i%d' % j, o)
                        except Exception as e:  # noqa
                            refused = True
                            rep.violation(
                                {'kind': 'registration-refused', 'stack': stack, 'expected': 'ok', 'got': 'rejected',
                                 'part': 'instances'}, dict(case, method='-', path='/i%d' % j),
                                'part I stack=%s suffix=%r: instance %d (responders %r) of sets %r: add_route raised %r'
                                % (stack, sfx, j, ms, combo, e))
                            break
                    rep.state()
                    if refused:
                        continue
                    if len(set(combo)) > 1:
                        rep.nt(digest(('I', stack, sfx, combo)))
                    for j, ms in enumerate(combo):
                        for method in INST_METHODS:
                            del log[:]
                            if is_async:
                                res = adrv.call(app, method=method, raw_path='/i%d' % j, loop=loop)
                            else:
                                res = wdrv.call(app, method=method, raw_path='/i%d' % j)
                            rep.trans()
                            obs = observe(res, list(log))
                            allow = sorted(set(ms) | {'OPTIONS'})
                            if method in ms:
                                n = 'on_' + method.lower() + ('_' + sfx if sfx else '')
                                exp = {'cls': 'route-responder', 'log': [('res', j, n, ())], 'status': 200,
                                       'allow': None, 'body': None}
                            elif method == 'OPTIONS':
                                # as in the list model: the automatic OPTIONS responder lists the implemented methods
                                # (OPTIONS itself is intentionally left out there); the 405 lists them plus OPTIONS
                                exp = {'cls': 'route-options', 'log': [], 'status': 200, 'allow': sorted(ms),
                                       'body': None}
                            else:
                                exp = {'cls': 'route-405', 'log': [], 'status': 405, 'allow': allow, 'body': None}
                            rep.outcome((exp['cls'], got_class(obs)))
                            bad = compare(exp, obs, method)
                            if bad:
                                rep.violation(
                                    {'kind': bad[0], 'stack': stack, 'expected': exp['cls'], 'got': got_class(obs),
                                     'part': 'instances'},
                                    dict(case, method=method, path='/i%d' % j),
                                    'part I stack=%s suffix=%r: three instances of one class with responder sets %r '
                                    'registered in that order; %s /i%d: expected %s; %s'
                                    % (stack, sfx, combo, method, j, exp['cls'], bad[1]))
    finally:
        loop.close()


def selftest_model(nm):
    """The hand-written sink predicates must be what the documented regex semantics give."""
    sp = sink_prefixes(nm)
    extra = ['x', '', '/%s/' % nm['oth'], '/0']
    for key, pat in sp.items():
        for p in paths(nm) + extra:
            m = re.match(pat, p)
            want = m.groupdict() if m else None
            if m_sink_match(key, nm, p) != want:
                raise RuntimeError('model selftest: sink %r on %r: %r != %r' % (key, p, m_sink_match(key, nm, p), want))


def check(rep):
    nm = names(rep.seed)
    selftest_model(nm)
    al = alphabets()
    pl = plan(rep.tier)
    rep.bounds = {
        'history_length<=': pl[-1][0],
        'alphabet_sizes': {a: len(v) for a, v in al.items()},
        'histories_by_length': {str(n): '%s^%d = %d' % (a, n, len(al[a]) ** n) for n, a in pl},
        'histories': history_count(rep.tier),
        'sink_before_static_route': [True, False], 'stacks': ['wsgi', 'asgi'],
        'modes': ['final: requests after the last registration', 'incr: GET+OPTIONS on every path after every registration'],
        'part_I': 'three instances of one class, every ordered triple of responder sets %r, plain and suffixed, '
                  'methods %r on every route, both stacks' % (INST_SETS, INST_METHODS),
        'request_methods': list(REQ_METHODS), 'paths': paths(nm),
        'route_templates': sorted(templates(nm).values()),
        'sink_prefixes': sorted(str(getattr(v, 'pattern', v)) for v in sink_prefixes(nm).values()),
    }
    rep.rule = ('every registration history over the alphabet of its length x flag x stack x mode; every request of '
                'the method x path product is dispatched on the real app and by the list model; non-trivial = '
                'distinct (history, flag) for which at least one requested path is matched by >= 2 registered '
                'entities (route/sink/static), i.e. precedence decides')
    rep.assumptions = [
        'URI-template matching itself is C01\'s subject: three templates only (literal, literal+field, field); '
        'a field matches any single segment including the empty one, literal beats field',
        'a method outside the HTTP/WebDAV list on a matched route is answered 400 "Invalid HTTP method" '
        '(documented in App._get_responder), not 405; the statement\'s 405 clause is applied to known methods',
        'custom routers and set_default_responders overrides are not generated',
        'file containment / Range handling of static routes is C16\'s subject: only plain existing/missing names',
    ]
    root = tempfile.mkdtemp(prefix='mc_c02_')
    try:
        dirs, files = make_fixture(root, nm)
        shards = []
        for n, a in pl:
            total = len(al[a]) ** n
            bs = 40 if n >= 3 else 20
            for lo in range(0, total, bs):
                shards.append((n, a, lo, min(total, lo + bs), rep.seed, dirs, files))
        if rep.seed % 2:
            # seeds may reorder shards; results are merged per shard so the explored space is the same
            shards = shards[::2] + shards[1::2]
        par.run_shards(run_shard, shards, rep)
        run_instances(rep)
    finally:
        shutil.rmtree(root, ignore_errors=True)


def replay(rec):
    from mc.core.report import Report
    rep = Report('C02')
    if rec.get('part') == 'I':
        run_instances(rep, only={k: rec[k] for k in ('part', 'stack', 'suffix', 'sets')})
        v = list(rep.viol.values())
        return {'violation': bool(v), 'details': [x['explain'] for x in v]}
    nm = rec['seed_names']
    root = tempfile.mkdtemp(prefix='mc_c02_')
    try:
        dirs, files = make_fixture(root, nm)
        hist = tuple(op_unjson(o) for o in rec['hist'])
        only = None if rec['method'] == '-' else (rec['step'], rec['method'], rec['path'])
        run_history(hist, rec['stack'], rec['sink_first'], rec['mode'], nm, dirs, files, rep, None, only)
    finally:
        shutil.rmtree(root, ignore_errors=True)
    v = list(rep.viol.values())
    return {'violation': bool(v), 'details': [x['explain'] for x in v]}
