"""C03 -- middleware, hooks and responder run in the documented stack order, once each.

Engine: CHOICE (deviation-bounded DFS, mc.core.choice) inside ENUM over stack shapes.

Alphabet
  shape      N components, each a non-empty subset of {process_request, process_resource,
             process_response}; N=0 (no middleware) is included.
  flavour    WSGI: sync methods, every component also carries ``*_async`` decoys (must never be
             called).  ASGI: 'plain' (``async def process_x``), 'twin' (``process_x_async`` is real,
             a sync ``process_x`` decoy sits next to it and must never be called) or 'mix' (the two
             spellings alternate between the methods of ONE component); all three flavours
             for the whole stack for N<=2, alternating per component for N=3.
  mode       independent_middleware in {True, False}
  target     routed (GET /r/{p}), unrouted (404 default responder), sink, r405 (route matched,
             method not allowed)
  reg        components given to the constructor, or added one by one with add_middleware
             (full dimension for N<=2, constructor only for N=3)
  hooks      (routed target only) c_b/m_b before hooks and c_a/m_a after hooks applied on the
             class / on the method, c_b+m_b <= 2, c_a+m_a <= 2; before hooks inject a parameter
  actions    every generated callable asks the Chooser on entry:
               process_request / process_resource : return | resp.complete=True | raise HTTPError |
                                                    raise AppError (custom handler) | raise AppError2 (default 500) |
                                                    raise HTTPStatus
               process_response / hook / responder / sink : return | raise HTTPError | AppError | AppError2 | HTTPStatus
               AppError handler (itself a choice point)   : return | raise HTTPStatus | raise HTTPError
             Choice points exist only at call sites the framework actually reaches.
  lifespan   ASGI: N<=3 (thorough 4) components, each with a subset of {process_startup,
             process_shutdown} (a component with neither has process_request instead);
             each handler: return | raise RuntimeError | raise HTTPError; exhaustive (no deviation bound).

Bound      quick: N<=3 with <=2 deviations without hooks, N<=1 with all hook stackings and N=2 with the 8
           single-level stackings (<=2 deviations);
           thorough: N<=3 with <=3 deviations, N=4 with <=2 deviations (routed/unrouted),
           N<=2 with all hook stackings <=2 deviations.

Oracle     stack_model(): an interpreter of docs/api/middleware.rst and the independent_middleware
           paragraph of the App docstring.  Compared exactly: the complete call trace, including
           arguments (params, resource identity, req_succeeded), the calls to the error handler,
           and the final status code (the status of the last handled exception, or of the
           responder).  Nothing may escape the app callable.
           lifespan_model(): startup handlers in registration order, shutdown handlers reversed,
           first failure => '<phase>.failed' with a message naming the exception and nothing after.
"""
import itertools

from mc.core import choice, par, vloop
from mc.core.report import digest
from mc.drivers import asgi as adrv
from mc.drivers import wsgi as wdrv

import falcon
import falcon.asgi


class AppError(Exception):
    """Application error with a registered handler."""


class AppError2(Exception):
    """Application error without its own handler (falls to the default 500)."""


REQ_ACTS = ('return', 'complete', 'http', 'app', 'app2', 'st')
OTHER_ACTS = ('return', 'http', 'app', 'app2', 'st')      # 'st': raise falcon.HTTPStatus -- an exception like the others
HANDLER_ACTS = ('return', 'status', 'http')
HANDLER_STATUS = (299, 298, 499)
LIFE_ACTS = ('return', 'runtime', 'http')


class _Cur:
    ch = None
    trace = None
    built = None


_cur = _Cur()


def _pt(params):
    try:
        return tuple(sorted(params.items()))
    except Exception:
        return ('?', repr(params))


def _rs(resource):
    if resource is None:
        return 'none'
    if resource is _cur.built.resource:
        return 'res'
    return 'other:' + type(resource).__name__


def _flag(x):
    return 'T' if x is True else ('F' if x is False else repr(x))


def _enter(ev, resp, acts, label):
    tr = _cur.trace
    idx = len(tr)
    tr.append(ev)
    a = acts[_cur.ch.choose(len(acts), label)]
    if a == 'return':
        return
    if a == 'complete':
        resp.complete = True
        return
    if a == 'http':
        raise falcon.HTTPError(400 + idx)
    if a == 'st':
        raise falcon.HTTPStatus(230 + idx)
    if a == 'app':
        raise AppError(label)
    raise AppError2(label)


def _route_only(params):
    b = _cur.built
    return tuple(sorted((k, v) for k, v in params.items() if k in b.route_keys))


def _handler_body(req, resp, ex, params):
    _cur.trace.append(('handler', type(ex).__name__, _route_only(params)))
    a = HANDLER_ACTS[_cur.ch.choose(len(HANDLER_ACTS), 'handler')]
    if a == 'return':
        resp.status = HANDLER_STATUS[0]
    elif a == 'status':
        raise falcon.HTTPStatus(HANDLER_STATUS[1])
    else:
        raise falcon.HTTPError(HANDLER_STATUS[2])


def _handler_sync(req, resp, ex, params):
    _handler_body(req, resp, ex, params)


async def _handler_async(req, resp, ex, params):
    _handler_body(req, resp, ex, params)


# ---------------------------------------------------------------------------
# generated middleware components
# ---------------------------------------------------------------------------
_NAMES = {'req': 'process_request', 'rsrc': 'process_resource', 'resp': 'process_response'}


def _mw_body(kind, i):
    label = '%s%d' % (kind, i)
    if kind == 'req':
        def body(self, req, resp):
            _enter(('req', i), resp, REQ_ACTS, label)
    elif kind == 'rsrc':
        def body(self, req, resp, resource, params):
            _enter(('rsrc', i, _pt(params), _rs(resource)), resp, REQ_ACTS, label)
    else:
        def body(self, req, resp, resource, req_succeeded):
            _enter(('resp', i, _rs(resource), _flag(req_succeeded)), resp, OTHER_ACTS, label)
    return body


def _as_async(body):
    async def method(self, *a):
        body(self, *a)
    return method


def _decoy(label, is_async):
    def d(self, *a):
        _cur.trace.append(('DECOY', label))
    if is_async:
        return _as_async(d)
    return d


def make_component(i, methods, stack, twin):
    _KIND_ORDER = sorted(_NAMES)
    ns = {}
    for kind in methods:
        body = _mw_body(kind, i)
        name = _NAMES[kind]
        if stack == 'wsgi':
            ns[name] = body
            ns[name + '_async'] = _decoy('%s%d_async' % (kind, i), True)
        elif twin == 'mix':
            # one component, both spellings: every second method uses the *_async name (with a sync decoy next to
            # it), the others the plain name -- each method is resolved on its own
            if (i + _KIND_ORDER.index(kind)) % 2 == 0:
                ns[name + '_async'] = _as_async(body)
                ns[name] = _decoy('%s%d_sync' % (kind, i), False)
            else:
                ns[name] = _as_async(body)
        elif twin:
            ns[name + '_async'] = _as_async(body)
            ns[name] = _decoy('%s%d_sync' % (kind, i), False)
        else:
            ns[name] = _as_async(body)
    return type('MW%d' % i, (), ns)()


# ---------------------------------------------------------------------------
# generated resource with hooks, sink
# ---------------------------------------------------------------------------
def _hook_fns(stack, kind, level, k):
    label = '%s_%s%d' % (kind, level, k)
    if kind == 'before':
        def body(req, resp, resource, params):
            seen = _pt(params)
            params['inj_' + level + str(k)] = 1
            _enter(('before', level, k, seen, _rs(resource)), resp, OTHER_ACTS, label)
        if stack == 'wsgi':
            return body

        async def abody(req, resp, resource, params):
            body(req, resp, resource, params)
        return abody

    def body2(req, resp, resource):
        _enter(('after', level, k, _rs(resource)), resp, OTHER_ACTS, label)
    if stack == 'wsgi':
        return body2

    async def abody2(req, resp, resource):
        body2(req, resp, resource)
    return abody2


def make_resource(stack, hooks, inherit=False):
    """inherit=True: the responder (with its method-level hooks) lives on a base class and the class that
    carries the class-level hooks merely inherits it."""
    cb, mb, ca, ma = hooks
    if stack == 'wsgi':
        def on_get(self, req, resp, **params):
            _enter(('responder', _pt(params)), resp, OTHER_ACTS, 'responder')
            resp.status = 201
    else:
        async def on_get(self, req, resp, **params):
            _enter(('responder', _pt(params)), resp, OTHER_ACTS, 'responder')
            resp.status = 201
    # decorators are written outermost first; apply innermost first
    decos = [('before', 'm', k) for k in range(mb)] + [('after', 'm', k) for k in range(ma)]
    for kind, level, k in reversed(decos):
        fn = _hook_fns(stack, kind, level, k)
        on_get = (falcon.before if kind == 'before' else falcon.after)(fn)(on_get)
    if inherit == 'suffix':
        # a suffixed responder whose suffix has a capital and a digit (route added with suffix='V2x')
        cls = type('Res', (), {'on_get_V2x': on_get})
    elif inherit:
        base = type('ResBase', (), {'on_get': on_get})
        cls = type('Res', (base,), {})
    else:
        cls = type('Res', (), {'on_get': on_get})
    decos = [('before', 'c', k) for k in range(cb)] + [('after', 'c', k) for k in range(ca)]
    for kind, level, k in reversed(decos):
        fn = _hook_fns(stack, kind, level, k)
        cls = (falcon.before if kind == 'before' else falcon.after)(fn)(cls)
    return cls()


def _sink_sync(req, resp, **params):
    _enter(('sink', _pt(params)), resp, OTHER_ACTS, 'sink')
    resp.status = 202


async def _sink_async(req, resp, **params):
    _enter(('sink', _pt(params)), resp, OTHER_ACTS, 'sink')
    resp.status = 202


# ---------------------------------------------------------------------------
# building and driving one configuration
# ---------------------------------------------------------------------------
_PNAMES = ('x', 'item_id', 'k9')
_PVALS = ('v', '42', 'a-b')


class Built:
    pass


def twin_of(cfg, i):
    fl = cfg['flavour']
    if fl == 'plain':
        return False
    if fl == 'twin':
        return True
    if fl == 'mix':
        return 'mix'
    return i % 2 == 1     # 'alt'


def build(cfg):
    b = Built()
    stack = cfg['stack']
    seed = cfg.get('seed', 0)
    b.pname = _PNAMES[seed % 3]
    b.pval = _PVALS[seed % 3]
    b.sname = _PNAMES[(seed + 1) % 3]
    b.sval = 'tail'
    b.route_keys = (b.pname, b.sname)
    comps = [make_component(i, ms, stack, twin_of(cfg, i)) for i, ms in enumerate(cfg['shape'])]
    App = falcon.App if stack == 'wsgi' else falcon.asgi.App
    indep = cfg['indep']
    if cfg['reg'] == 'dup' and comps:
        # one component object occupying two stack positions (top and bottom): two positions, two calls
        app = App(middleware=comps + [comps[0]], independent_middleware=indep)
    elif cfg['reg'] in ('ctor', 'dup'):
        app = App(middleware=comps or None, independent_middleware=indep)
    else:
        app = App(independent_middleware=indep)
        for c in comps:
            app.add_middleware(c)
    app.add_error_handler(AppError, _handler_sync if stack == 'wsgi' else _handler_async)
    b.resource = make_resource(stack, tuple(cfg['hooks']), cfg.get('inherit') or False)
    if cfg.get('inherit') == 'suffix':
        app.add_route('/r/{%s}' % b.pname, b.resource, suffix='V2x')
    else:
        app.add_route('/r/{%s}' % b.pname, b.resource)
    app.add_sink(_sink_sync if stack == 'wsgi' else _sink_async, '/s/(?P<%s>[a-z]+)' % b.sname)
    b.app = app
    b.cfg = cfg
    target = cfg['target']
    b.method = 'POST' if target == 'r405' else 'GET'
    b.path = {'routed': '/r/' + b.pval, 'r405': '/r/' + b.pval, 'unrouted': '/nothing/here',
              'sink': '/s/' + b.sval}[target]
    b.loop = vloop.VLoop() if stack == 'asgi' else None
    return b


def dispose(b):
    if b.loop is not None:
        try:
            b.loop.close()
        except Exception:
            pass


def drive(b, ch):
    _cur.ch = ch
    _cur.trace = tr = []
    _cur.built = b
    if b.cfg['stack'] == 'wsgi':
        res = wdrv.call(b.app, method=b.method, raw_path=b.path)
    else:
        res = adrv.call(b.app, method=b.method, raw_path=b.path, loop=b.loop)
    return tr, res


# ---------------------------------------------------------------------------
# reference model: interpreter of the documented stack discipline
# ---------------------------------------------------------------------------
def stack_model(cfg, choices, names):
    """names: dict(pname, pval, sname, sval).  Returns (trace, status)."""
    it = iter(choices)
    trace = []
    st = {'status': 200, 'raised': False}

    def take(n):
        c = next(it, 0)
        return c if c < n else n - 1

    def site(ev, acts, params):
        idx = len(trace)
        trace.append(ev)
        a = acts[take(len(acts))]
        if a == 'return' or a == 'complete':
            return a
        st['raised'] = True
        if a == 'http':
            st['status'] = 400 + idx
        elif a == 'st':
            st['status'] = 230 + idx
        elif a == 'app':
            trace.append(('handler', 'AppError', params))
            st['status'] = HANDLER_STATUS[take(len(HANDLER_ACTS))]
        else:
            st['status'] = 500
        return 'raise'

    shape = cfg['shape']
    # (component id, methods) per stack POSITION; reg='dup': the first component object is listed once more at the bottom
    positions = list(enumerate(shape))
    if cfg['reg'] == 'dup' and shape:
        positions.append((0, shape[0]))
    target = cfg['target']
    complete = False
    failed = False
    queued = []
    params = ()
    resource = 'none'
    # -- request methods, top-down ---------------------------------------
    for i, ms in positions:
        if 'req' in ms and not complete:
            r = site(('req', i), REQ_ACTS, params)
            if r == 'complete':
                complete = True
            elif r == 'raise':
                failed = True
                break
        if 'resp' in ms:
            queued.append(i)
    if cfg['indep']:
        queued = [i for i, ms in positions if 'resp' in ms]
    # -- routing, resource methods, responder --------------------------------
    if not failed and not complete:
        if target in ('routed', 'r405'):
            resource = 'res'
            params = ((names['pname'], names['pval']),)
        elif target == 'sink':
            params = ((names['sname'], names['sval']),)
        if resource == 'res':
            for i, ms in positions:
                if 'rsrc' in ms:
                    r = site(('rsrc', i, params, 'res'), REQ_ACTS, params)
                    if r == 'complete':
                        complete = True
                        break
                    if r == 'raise':
                        failed = True
                        break
        if not failed and not complete:
            if target == 'unrouted':
                st['raised'] = True
                st['status'] = 404
            elif target == 'r405':
                st['raised'] = True
                st['status'] = 405
            elif target == 'sink':
                if site(('sink', params), OTHER_ACTS, params) == 'return':
                    st['status'] = 202
            else:
                cb, mb, ca, ma = cfg['hooks']
                kw = dict(params)
                ok = True
                for level, k in [('c', k) for k in range(cb)] + [('m', k) for k in range(mb)]:
                    seen = tuple(sorted(kw.items()))
                    kw['inj_' + level + str(k)] = 1
                    if site(('before', level, k, seen, 'res'), OTHER_ACTS, params) == 'raise':
                        ok = False
                        break
                if ok:
                    if site(('responder', tuple(sorted(kw.items()))), OTHER_ACTS, params) == 'return':
                        st['status'] = 201
                        for level, k in [('m', k) for k in reversed(range(ma))] + [('c', k) for k in reversed(range(ca))]:
                            if site(('after', level, k, 'res'), OTHER_ACTS, params) == 'raise':
                                break
    # -- response methods, bottom-up, exactly once each ------------------------
    for i in reversed(queued):
        site(('resp', i, resource, 'F' if st['raised'] else 'T'), OTHER_ACTS, params)
    return trace, st['status']


# ---------------------------------------------------------------------------
# one configuration: explore every fault placement within the bound
# ---------------------------------------------------------------------------
def names_of(b):
    return {'pname': b.pname, 'pval': b.pval, 'sname': b.sname, 'sval': b.sval}


def cfg_key(cfg):
    return (cfg['stack'], tuple(tuple(ms) for ms in cfg['shape']), cfg['indep'], cfg['target'], cfg['reg'],
            cfg['flavour'], tuple(cfg['hooks']), cfg.get('inherit') or False)


def ev_kind(ev):
    if ev is None:
        return 'end'
    k = ev[0]
    if k in ('before', 'after'):
        return k + '-' + ev[1]
    return k


def compare(cfg, b, ch_choices, tr, res, rep):
    """Returns True when the execution agrees with the model."""
    exp_tr, exp_status = stack_model(cfg, ch_choices, names_of(b))
    base = {'stack': cfg['stack'], 'mode': 'indep' if cfg['indep'] else 'dep', 'target': cfg['target']}
    rec = {'cfg': cfg, 'choices': list(ch_choices)}
    where = 'stack=%s shape=%r independent=%s target=%s hooks=%r reg=%s choices=%r' % (
        cfg['stack'], cfg['shape'], cfg['indep'], cfg['target'], cfg['hooks'], cfg['reg'], list(ch_choices))
    ok = True
    if res.exc is not None:
        rep.violation(dict(base, kind='exception-escaped', exc=type(res.exc).__name__), rec,
                      '%s: %s escaped the app callable: %s' % (where, type(res.exc).__name__, res.exc))
        ok = False
    if tr != exp_tr:
        n = 0
        while n < len(tr) and n < len(exp_tr) and tr[n] == exp_tr[n]:
            n += 1
        e = exp_tr[n] if n < len(exp_tr) else None
        g = tr[n] if n < len(tr) else None
        kind = 'call-trace'
        if g is not None and g[0] == 'DECOY':
            kind = 'wrong-flavour-called'
        elif e is not None and g is not None and e[0] == g[0] and e[:2] == g[:2] and e[0] in ('req', 'rsrc', 'resp'):
            kind = 'call-arguments'
        rep.violation(dict(base, kind=kind, expected=ev_kind(e), got=ev_kind(g)), rec,
                      '%s: model expects call #%d = %r, framework made %r; expected trace %r, real trace %r'
                      % (where, n, e, g, exp_tr, tr))
        ok = False
    elif res.exc is None and res.code != exp_status:
        rep.violation(dict(base, kind='final-status', expected=str(exp_status)[0] + 'xx', got=str(res.code)[:1] + 'xx'),
                      rec, '%s: model expects final status %r, response had %r (trace %r)'
                      % (where, exp_status, res.code, tr))
        ok = False
    return ok


def explore_cfg(cfg, bound, rep):
    try:
        b = build(cfg)
    except Exception as e:  # every generated configuration is a documented, valid one
        rep.violation({'kind': 'app-construction-failed', 'stack': cfg['stack'], 'flavour': cfg['flavour'],
                       'exc': type(e).__name__},
                      {'cfg': cfg, 'choices': []},
                      'stack=%s shape=%r flavour=%s reg=%s hooks=%r: building the app raised %s: %s'
                      % (cfg['stack'], cfg['shape'], cfg['flavour'], cfg['reg'], cfg['hooks'], type(e).__name__, e))
        rep.c['configs'] += 1
        return 0
    key = cfg_key(cfg)
    stack = cfg['stack']

    def run(ch):
        tr, res = drive(b, ch)
        rep.state()
        rep.trace()
        rep.trans(len(tr))
        choices = ch.choices
        ok = compare(cfg, b, choices, tr, res, rep)
        devs = []
        for c, (n, label, cost) in zip(choices, ch.points):
            if c:
                acts = HANDLER_ACTS if label == 'handler' else (REQ_ACTS if n == len(REQ_ACTS) else OTHER_ACTS)
                devs.append(('h-' if label == 'handler' else '') + acts[c])
        if devs:
            rep.nt(digest((key, tuple(choices))))
        rep.outcome('%s:%s:%s' % (stack, '+'.join(sorted(devs)) or 'none', ('ok' if ok else 'DISAGREE')))
        return None

    try:
        n_exec, n_points, capped = choice.explore(run, bound)
    finally:
        dispose(b)
    if capped:
        rep.cap('choice.explore capped')
    rep.c['configs'] += 1
    rep.c['choice_points'] += n_points
    return n_exec


# ---------------------------------------------------------------------------
# lifespan
# ---------------------------------------------------------------------------
class _LifeStop(Exception):
    pass


def make_life_component(i, methods):
    ns = {}
    if 'startup' in methods:
        async def process_startup(self, scope, event):
            _life_enter(('startup', i, _life_args(scope, event)), 'startup%d' % i)
        ns['process_startup'] = process_startup
    if 'shutdown' in methods:
        async def process_shutdown(self, scope, event):
            _life_enter(('shutdown', i, _life_args(scope, event)), 'shutdown%d' % i)
        ns['process_shutdown'] = process_shutdown
    if not methods:
        async def process_request(self, req, resp):
            _cur.trace.append(('req-during-lifespan', i))
        ns['process_request'] = process_request
    return type('Life%d' % i, (), ns)()


def _life_args(scope, event):
    return ('scope-ok' if scope is _cur.built.scope else 'scope-other',
            event.get('type') if isinstance(event, dict) else repr(event))


def _life_code(phase, i):
    return 520 + 2 * i + (1 if phase == 'shutdown' else 0)


def _life_marker(act, phase, i):
    if act == 'runtime':
        return 'RuntimeError: boom-%s%d' % (phase, i)
    return '<HTTPError: %d>' % _life_code(phase, i)


def _life_enter(ev, label):
    _cur.trace.append(ev)
    a = LIFE_ACTS[_cur.ch.choose(len(LIFE_ACTS), label)]
    if a == 'return':
        return
    if a == 'runtime':
        raise RuntimeError('boom-' + label)
    raise falcon.HTTPError(_life_code(ev[0], ev[1]))


def lifespan_call(app, scope, script):
    """Minimal lifespan server: sends the scripted events one at a time; after a
    '*.failed' event or shutdown.complete nothing more is delivered, and a further
    receive() is recorded.  Returns (sent events, problems, escaped exception)."""
    sent = []
    problems = []
    state = {'i': 0, 'over': False, 'awaiting_reply': False}

    async def receive():
        if state['over']:
            problems.append('receive() awaited after the lifespan conversation was over')
            raise _LifeStop()
        if state['awaiting_reply']:
            problems.append('receive() awaited before replying to the previous event')
        if state['i'] >= len(script):
            raise _LifeStop()      # server has nothing more to say: connection torn down
        ev = {'type': script[state['i']]}
        state['i'] += 1
        state['awaiting_reply'] = True
        return ev

    async def send(ev):
        if state['over']:
            problems.append('event %r sent after the lifespan conversation was over' % (ev.get('type'),))
        if not state['awaiting_reply']:
            problems.append('event %r sent without a pending lifespan event' % (ev.get('type'),))
        sent.append(ev)
        state['awaiting_reply'] = False
        t = ev.get('type', '')
        if t.endswith('.failed') or t == 'lifespan.shutdown.complete':
            state['over'] = True

    exc = None
    try:
        vloop.run(app(scope, receive, send))
    except _LifeStop:
        pass
    except BaseException as e:  # noqa
        exc = e
    return sent, problems, exc


def lifespan_model(shape, choices):
    it = iter(choices)
    trace = []
    events = []

    def site(ev, label):
        trace.append(ev)
        c = next(it, 0)
        a = LIFE_ACTS[c if c < len(LIFE_ACTS) else 0]
        return a, _life_marker(a, ev[0], ev[1])

    for i, ms in enumerate(shape):
        if 'startup' in ms:
            a, label = site(('startup', i, ('scope-ok', 'lifespan.startup')), 'startup%d' % i)
            if a != 'return':
                events.append(('lifespan.startup.failed', label))
                return trace, events
    events.append(('lifespan.startup.complete', None))
    for i in reversed(range(len(shape))):
        if 'shutdown' in shape[i]:
            a, label = site(('shutdown', i, ('scope-ok', 'lifespan.shutdown')), 'shutdown%d' % i)
            if a != 'return':
                events.append(('lifespan.shutdown.failed', label))
                return trace, events
    events.append(('lifespan.shutdown.complete', None))
    return trace, events


def build_life(cfg):
    b = Built()
    comps = [make_life_component(i, ms) for i, ms in enumerate(cfg['shape'])]
    if cfg['reg'] == 'ctor':
        app = falcon.asgi.App(middleware=comps or None)
    else:
        app = falcon.asgi.App()
        for c in comps:
            app.add_middleware(c)
    b.app = app
    b.cfg = cfg
    b.resource = None
    b.scope = {'type': 'lifespan', 'asgi': {'version': '3.0', 'spec_version': '2.0'}, 'state': {}}
    return b


def life_run(cfg, b, ch, rep):
    _cur.ch = ch
    _cur.trace = tr = []
    _cur.built = b
    sent, problems, exc = lifespan_call(b.app, b.scope, ['lifespan.startup', 'lifespan.shutdown'])
    exp_tr, exp_ev = lifespan_model(cfg['shape'], ch.choices)
    rec = {'lifespan': True, 'cfg': cfg, 'choices': list(ch.choices)}
    where = 'lifespan shape=%r reg=%s choices=%r' % (cfg['shape'], cfg['reg'], list(ch.choices))
    ok = True
    if exc is not None:
        rep.violation({'kind': 'lifespan-exception-escaped', 'exc': type(exc).__name__}, rec,
                      '%s: %s escaped: %s' % (where, type(exc).__name__, exc))
        ok = False
    if tr != exp_tr:
        n = 0
        while n < len(tr) and n < len(exp_tr) and tr[n] == exp_tr[n]:
            n += 1
        e = exp_tr[n] if n < len(exp_tr) else None
        g = tr[n] if n < len(tr) else None
        rep.violation({'kind': 'lifespan-call-order', 'expected': ev_kind(e), 'got': ev_kind(g)}, rec,
                      '%s: model expects handler call #%d = %r, framework made %r; expected %r, real %r'
                      % (where, n, e, g, exp_tr, tr))
        ok = False
    got_types = [ev.get('type') for ev in sent]
    if got_types != [t for t, _ in exp_ev]:
        rep.violation({'kind': 'lifespan-events', 'expected': exp_ev[-1][0], 'got': str(got_types[-1:] and got_types[-1])},
                      rec, '%s: model expects events %r, server received %r' % (where, [t for t, _ in exp_ev], got_types))
        ok = False
    else:
        for ev, (t, marker) in zip(sent, exp_ev):
            if marker is not None:
                msg = ev.get('message')
                if not isinstance(msg, str) or marker not in msg:
                    rep.violation({'kind': 'lifespan-failure-not-reported', 'event': t}, rec,
                                  '%s: %s must report the first failure (%s); message was %r' % (where, t, marker, msg))
                    ok = False
    if problems:
        rep.violation({'kind': 'lifespan-protocol', 'what': problems[0][:40]}, rec, '%s: %r' % (where, problems))
        ok = False
    return ok, tr, exp_ev


def explore_life(cfg, rep):
    b = build_life(cfg)

    def run(ch):
        ok, tr, exp_ev = life_run(cfg, b, ch, rep)
        rep.state()
        rep.trace()
        rep.trans(len(tr))
        rep.c['lifespan_executions'] += 1
        if any(ch.choices):
            rep.nt(digest(('life', cfg['shape'], cfg['reg'], tuple(ch.choices))))
        rep.outcome('lifespan:%s:%s' % (exp_ev[-1][0].replace('lifespan.', ''), 'ok' if ok else 'DISAGREE'))

    # NOTE: ONE app object serves every lifespan cycle explored here, as one app serves the successive
    #   lifespans of a real server process.  If what the framework does in a later cycle depends on an
    #   earlier one (a handler list consumed, an iterator exhausted ...) the recorded choice points of a
    #   replayed prefix no longer line up: that divergence IS the violation, not harness noise.
    try:
        n_exec, n_points, capped = choice.explore(run, 99)
    except choice.Nondeterminism as e:
        rep.violation({'kind': 'lifespan-depends-on-earlier-cycles'},
                      {'lifespan': True, 'cfg': cfg, 'choices': [], 'repeat': 2},
                      'lifespan shape=%r reg=%s: the same app was taken through several startup/shutdown cycles and a later '
                      'cycle did not reach the handler calls the first one reached (%s)' % (cfg['shape'], cfg['reg'], e))
        n_points = 0
    rep.c['configs'] += 1
    rep.c['choice_points'] += n_points


# ---------------------------------------------------------------------------
# enumeration of configurations
# ---------------------------------------------------------------------------
_SUBSETS = [('req',), ('rsrc',), ('resp',), ('req', 'resp'), ('req', 'rsrc'), ('rsrc', 'resp'), ('req', 'rsrc', 'resp')]
_LIFE_SUBSETS = [(), ('startup',), ('shutdown',), ('startup', 'shutdown')]


def hook_stackings():
    out = []
    for nb in range(3):
        for na in range(3):
            for cb in range(nb + 1):
                for ca in range(na + 1):
                    out.append((cb, nb - cb, ca, na - ca))
    return out


def gen_configs(tier, seed):
    """List of (cfg, bound) -- simplest first."""
    out = []
    thorough = tier == 'thorough'
    no_hooks = (0, 0, 0, 0)
    for n in range(0, 4):
        for shape in itertools.product(_SUBSETS, repeat=n):
            for stack in ('wsgi', 'asgi'):
                if stack == 'wsgi':
                    flavours = ['plain']
                elif n == 0:
                    flavours = ['plain']
                elif n <= 2:
                    flavours = ['plain', 'twin', 'mix']
                else:
                    flavours = ['alt']
                regs = ['ctor', 'add', 'dup'] if 1 <= n <= 2 else ['ctor']
                for flavour in flavours:
                    for reg in regs:
                        for indep in (True, False):
                            for target in ('routed', 'unrouted', 'sink', 'r405'):
                                bound = 3 if thorough else 2
                                out.append(({'stack': stack, 'shape': shape, 'indep': indep, 'target': target,
                                             'reg': reg, 'flavour': flavour, 'hooks': no_hooks, 'seed': seed}, bound))
    if thorough:
        # N=4, <=2 deviations, routed/unrouted
        for shape in itertools.product(_SUBSETS, repeat=4):
            for stack in ('wsgi', 'asgi'):
                for indep in (True, False):
                    for target in ('routed', 'unrouted'):
                        out.append(({'stack': stack, 'shape': shape, 'indep': indep, 'target': target, 'reg': 'ctor',
                                     'flavour': 'plain' if stack == 'wsgi' else 'alt', 'hooks': no_hooks, 'seed': seed}, 2))
    # quick: every stacking for N<=1; for N=2 the eight 'pure' stackings (all hooks on the class or all on
    # the method, (before, after) counts (1,0) (0,1) (1,1) (2,2)); thorough: every stacking for N<=2
    pure = [(1, 0, 0, 0), (0, 1, 0, 0), (0, 0, 1, 0), (0, 0, 0, 1), (1, 0, 1, 0), (0, 1, 0, 1), (2, 0, 2, 0), (0, 2, 0, 2)]
    for n in range(0, 3):
        for shape in itertools.product(_SUBSETS, repeat=n):
            for stack in ('wsgi', 'asgi'):
                for indep in (True, False):
                    for hooks in (hook_stackings() if thorough or n <= 1 else pure):
                        if hooks == no_hooks:
                            continue
                        out.append(({'stack': stack, 'shape': shape, 'indep': indep, 'target': 'routed',
                                     'reg': 'ctor', 'flavour': 'plain', 'hooks': hooks, 'seed': seed}, 2))
                        if (hooks[0] or hooks[2]) and n <= 1:
                            # class-level hooks on a class whose responder is inherited from a base class
                            out.append(({'stack': stack, 'shape': shape, 'indep': indep, 'target': 'routed', 'reg': 'ctor',
                                         'flavour': 'plain', 'hooks': hooks, 'seed': seed, 'inherit': True}, 2))
                            # ... and on a class whose responder carries a route suffix
                            out.append(({'stack': stack, 'shape': shape, 'indep': indep, 'target': 'routed', 'reg': 'ctor',
                                         'flavour': 'plain', 'hooks': hooks, 'seed': seed, 'inherit': 'suffix'}, 2))
    return out


def gen_life_configs(tier):
    out = []
    for n in range(0, (4 if tier == 'thorough' else 3) + 1):
        for shape in itertools.product(_LIFE_SUBSETS, repeat=n):
            for reg in (['ctor', 'add'] if n else ['ctor']):
                out.append({'shape': shape, 'reg': reg})
    return out


def run_batch(batch, rep):
    kind, items = batch
    if kind == 'life':
        for cfg in items:
            explore_life(cfg, rep)
        return
    for cfg, bound in items:
        n = explore_cfg(cfg, bound, rep)
        rep.c['executions_with_hooks' if any(cfg['hooks']) else 'executions_without_hooks'] += n
        if len(rep.samples) < 2 and len(cfg['shape']) >= 2:
            rep.sample({'cfg': cfg, 'bound': bound, 'executions': n})


def check(rep):
    cfgs = gen_configs(rep.tier, rep.seed)
    life = gen_life_configs(rep.tier)
    thorough = rep.tier == 'thorough'
    rep.bounds = {
        'components': ('0..3' + (' (and 4 with <=2 deviations, routed/unrouted)' if thorough else '')
                       + ', each a non-empty subset of {process_request, process_resource, process_response}'),
        'deviations': ('<=3' if thorough else '<=2') + '; a raising handler counts as one more',
        'stacks': ['wsgi', 'asgi (plain and *_async twins with sync decoys)'],
        'independent_middleware': [True, False],
        'targets': ['routed', 'unrouted', 'sink', 'r405'],
        'hooks': ('all 35 class/method stackings of <=2 before and <=2 after hooks, <=2 deviations, N<=%s'
                  % ('2' if thorough else '1; N=2 with the 8 single-level stackings')),
        'lifespan': 'N<=%d components x {startup, shutdown} subsets, every return/raise assignment (unbounded)' % (4 if thorough else 3),
        'http_configs': len(cfgs), 'lifespan_configs': len(life),
    }
    rep.rule = ('one execution = one request (or one lifespan conversation) driven through the real app with one '
                'assignment of actions to the call sites actually reached; non-trivial = at least one call site '
                'deviates (sets resp.complete or raises)')
    rep.assumptions = ['an error handler that raises a non-HTTP exception is outside the property (excluded)',

                       'the unrouted default responder and the 405 responder count as raising (HTTPNotFound / HTTPMethodNotAllowed)',
                       'a resource object is truthy']
    # contiguous blocks (simplest configurations first, so the first example kept per violation
    # kind is the simplest); the pool hands blocks out dynamically, which balances the load
    bs = max(1, len(cfgs) // 320)
    batches = [('life', life[i:i + 100]) for i in range(0, len(life), 100)]
    batches += [('http', cfgs[i:i + bs]) for i in range(0, len(cfgs), bs)]
    par.run_shards(run_batch, batches, rep)


def _tup(x):
    if isinstance(x, list):
        return tuple(_tup(v) for v in x)
    return x


def replay(rec):
    from mc.core.report import Report
    rep = Report('C03')
    cfg = dict(rec['cfg'])
    cfg['shape'] = _tup(cfg['shape'])
    ch = choice.Chooser(tuple(rec['choices']))
    if rec.get('lifespan'):
        b = build_life(cfg)
        ok, tr, exp_ev = life_run(cfg, b, ch, rep)
        for _ in range(rec.get('repeat', 1) - 1):
            # further cycles on the same app must behave like the first
            ok, tr, exp_ev = life_run(cfg, b, choice.Chooser(tuple(rec['choices'])), rep)
        out = {'real_trace': tr, 'expected_events': exp_ev}
    else:
        cfg['hooks'] = _tup(cfg['hooks'])
        try:
            b = build(cfg)
        except Exception as e:  # noqa
            return {'violation': True, 'details': ['building the app raised %s: %s' % (type(e).__name__, e)]}
        try:
            tr, res = drive(b, ch)
            compare(cfg, b, ch.choices, tr, res, rep)
            exp_tr, exp_status = stack_model(cfg, ch.choices, names_of(b))
            out = {'real_trace': tr, 'model_trace': exp_tr, 'real_status': res.code, 'model_status': exp_status,
                   'escaped': repr(res.exc) if res.exc is not None else None}
        finally:
            dispose(b)
    v = list(rep.viol.values())
    out['violation'] = bool(v)
    out['details'] = [x['explain'] for x in v]
    return out
