"""Reference model for C13: a multipart/form-data encoder and an independent
strict decoder (RFC 2046 section 5.1.1 + RFC 7578, no transport padding).

Imports nothing from falcon.  A part is the tuple
    (name, filename, fstar, ctype, content)
name      str
filename  str | None            plain  filename="..."
fstar     (charset, str) | None RFC 5987 filename*=charset''pct
ctype     str | None            raw Content-Type value
content   bytes
and what the application must see for it is
    (name, filename-or-None, content-type ('text/plain' when absent), content bytes).
"""

CRLF = b'\r\n'
_ATTR = set(b'abcdefghijklmnopqrstuvwxyzABCDEFGHIJKLMNOPQRSTUVWXYZ0123456789!#$&+-.^_`|~')
_TOKEN = set(b"abcdefghijklmnopqrstuvwxyzABCDEFGHIJKLMNOPQRSTUVWXYZ0123456789!#$%&'*+-.^_`|~")
_HEXD = b'0123456789abcdefABCDEF'
_CHARSETS = {'utf-8': 'utf-8', 'iso-8859-1': 'latin-1'}


class Reject(Exception):
    """The strict decoder does not accept this body."""


# ---------------------------------------------------------------------------
# encoder
# ---------------------------------------------------------------------------
def pct(b):
    return ''.join(chr(c) if c in _ATTR else '%%%02X' % c for c in b)


def _qs(v):
    """quoted-string content: backslash-escape the quote and the backslash (RFC 9110 5.6.4)"""
    return v.replace('\\', '\\\\').replace('"', '\\"')


def part_headers(p, style=0):
    """style 0: Content-Disposition, then Content-Type;
    style 1: Content-Type first; style 2: lower-case header names."""
    name, filename, fstar, ctype, _ = p
    cd = 'form-data; name="%s"' % _qs(name)
    if filename is not None:
        cd += '; filename="%s"' % _qs(filename)
    if fstar is not None:
        cd += "; filename*=%s''%s" % (fstar[0], pct(fstar[1].encode(_CHARSETS[fstar[0].lower()])))
    n_cd, n_ct = ('content-disposition', 'content-type') if style == 2 else ('Content-Disposition', 'Content-Type')
    lines = [n_cd.encode() + b': ' + cd.encode('utf-8')]
    if ctype is not None:
        ct = n_ct.encode() + b': ' + ctype.encode('ascii')
        if style == 1:
            lines.insert(0, ct)
        else:
            lines.append(ct)
    return CRLF.join(lines)


def encode(parts, boundary, preamble=None, tail=CRLF, style=0):
    """preamble: None or bytes (followed by CRLF); tail: what follows the close
    delimiter (b'' = no final CRLF, CRLF + epilogue otherwise)."""
    dash = b'--' + boundary
    out = []
    if preamble is not None:
        out.append(preamble + CRLF)
    for p in parts:
        out.append(dash + CRLF + part_headers(p, style) + CRLF + CRLF + p[4] + CRLF)
    out.append(dash + b'--')
    out.append(tail)
    return b''.join(out)


def header_value(boundary):
    return 'multipart/form-data; boundary=' + boundary.decode('ascii')


def visible(p):
    name, filename, fstar, ctype, content = p
    return (name, fstar[1] if fstar is not None else filename, ctype if ctype is not None else 'text/plain', content)


def headers_size(p, style=0):
    """Size of the part's header block (without the terminating CRLF CRLF)."""
    return len(part_headers(p, style))


# ---------------------------------------------------------------------------
# strict decoder
# ---------------------------------------------------------------------------
def decode(body, boundary):
    """-> list of visible parts; raises Reject unless the body is exactly
        [preamble CRLF] 1*( dash-boundary CRLF headers CRLF CRLF content CRLF ) dash-boundary "--" [CRLF epilogue]
    (or the part-less form  [preamble CRLF] dash-boundary "--" [CRLF epilogue])."""
    dash = b'--' + boundary
    i = body.find(dash)
    if i < 0:
        raise Reject('no dash-boundary')
    if i != 0 and (i < 2 or body[i - 2:i] != CRLF):
        raise Reject('first dash-boundary is not at the start of a line')
    pos = i + len(dash)
    delim = CRLF + dash
    parts = []
    while True:
        nxt = body[pos:pos + 2]
        if nxt == b'--':
            pos += 2
            break
        if nxt != CRLF:
            raise Reject('junk after boundary')
        pos += 2
        h = body.find(CRLF + CRLF, pos)
        if h < 0:
            raise Reject('unterminated headers')
        block = body[pos:h]
        pos = h + 4
        e = body.find(delim, pos)
        if e < 0:
            raise Reject('unterminated part')
        if delim in block or dash in block:
            raise Reject('boundary inside headers')
        name, filename, ctype = _headers(block)
        parts.append((name, filename, ctype, body[pos:e]))
        pos = e + len(delim)
    rest = body[pos:]
    if rest and rest[:2] != CRLF:
        raise Reject('junk after close delimiter')
    return parts


def _headers(block):
    if not block:
        raise Reject('no headers')
    seen = {}
    for line in block.split(CRLF):
        if b'\r' in line or b'\n' in line:
            raise Reject('bare CR/LF in header')
        k, sep, v = line.partition(b': ')
        if not sep or not k or any(c not in _TOKEN for c in k):
            raise Reject('not a header line')
        if v != v.strip() or any(c < 0x20 or c == 0x7f for c in v):
            raise Reject('header value')
        k = k.lower()
        if k in seen:
            raise Reject('duplicate header')
        seen[k] = v
    if set(seen) - {b'content-disposition', b'content-type'}:
        raise Reject('unexpected header')
    if b'content-disposition' not in seen:
        raise Reject('no Content-Disposition')
    try:
        cd = seen[b'content-disposition'].decode('utf-8')
    except UnicodeDecodeError:
        raise Reject('header not UTF-8')
    name, filename = _disposition(cd)
    ctype = 'text/plain'
    if b'content-type' in seen:
        try:
            ctype = seen[b'content-type'].decode('ascii')
        except UnicodeDecodeError:
            raise Reject('Content-Type not ASCII')
        _content_type(ctype)
    return name, filename, ctype


def _is_token(s):
    return bool(s) and all(ord(c) < 128 and ord(c) in _TOKEN for c in s)


def _content_type(v):
    main, *params = v.split('; ')
    t, slash, sub = main.partition('/')
    if not slash or not _is_token(t) or not _is_token(sub):
        raise Reject('media type')
    for p in params:
        k, eq, val = p.partition('=')
        if not eq or not _is_token(k) or not _is_token(val):
            raise Reject('media type parameter')


def _disposition(v):
    if not v.startswith('form-data'):
        raise Reject('not form-data')
    i = len('form-data')
    params = {}
    n = len(v)
    while i < n:
        if v[i:i + 2] != '; ':
            raise Reject('parameter separator')
        i += 2
        j = i
        while j < n and v[j] not in '=;" ':
            j += 1
        key = v[i:j]
        if not _is_token(key) or v[j:j + 1] != '=':
            raise Reject('parameter name')
        key = key.lower()
        i = j + 1
        if v[i:i + 1] == '"':
            # quoted-string with quoted-pairs (RFC 9110 5.6.4)
            j = i + 1
            buf = []
            while True:
                if j >= n:
                    raise Reject('unterminated quoted string')
                c = v[j]
                if c == '\\':
                    if j + 1 >= n:
                        raise Reject('dangling backslash')
                    if v[j + 1] not in '"\\':
                        raise Reject('only the quote and the backslash are escaped in the strict subset')
                    buf.append(v[j + 1])
                    j += 2
                    continue
                if c == '"':
                    break
                buf.append(c)
                j += 1
            val = ''.join(buf)
            i = j + 1
        else:
            j = i
            while j < n and v[j] not in '; "':
                j += 1
            val = v[i:j]
            if not _is_token(val):
                raise Reject('parameter value')
            i = j
        if key in params:
            raise Reject('duplicate parameter')
        params[key] = val
    if set(params) - {'name', 'filename', 'filename*'}:
        raise Reject('unexpected parameter')
    if 'name' not in params:
        raise Reject('no name')
    filename = params.get('filename')
    if 'filename*' in params:
        filename = _ext_value(params['filename*'])
    return params['name'], filename


def _ext_value(s):
    cs, q1, rest = s.partition("'")
    lang, q2, val = rest.partition("'")
    if not q1 or not q2 or lang or cs.lower() not in _CHARSETS or not val:
        raise Reject('ext-value')
    raw = bytearray()
    b = val.encode('ascii', 'replace')
    i = 0
    while i < len(b):
        c = b[i]
        if c == 0x25:
            if i + 2 >= len(b):
                raise Reject('pct')
            if b[i + 1] not in _HEXD or b[i + 2] not in _HEXD:
                raise Reject('pct')
            raw.append(int(b[i + 1:i + 3].decode(), 16))
            i += 3
        elif c in _ATTR:
            raw.append(c)
            i += 1
        else:
            raise Reject('ext-value character')
    try:
        return bytes(raw).decode(_CHARSETS[cs.lower()])
    except UnicodeDecodeError:
        raise Reject('ext-value bytes')
