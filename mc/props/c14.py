"""C14 -- buffered readers behave like one flat byte buffer for every chunking.

SEQ engine to closure inside ENUM over configurations (DESIGN.md C14).
Implementation under test: falcon.util.reader.BufferedReader (pure Python),
falcon.asgi.reader.BufferedReader, and -- as a built artifact, in lockstep --
falcon/cyutil/reader*.so when present.
Reference model: `Cursor` -- every operation is defined on the whole byte
string and an integer position.
"""
import importlib.machinery
import importlib.util
import glob
import io
import itertools
import os
import sys

from mc.core import par, seq, srcload, watchdog
from mc.core.report import digest

import falcon.util.reader as sync_reader_mod
import falcon.asgi.reader as async_reader_mod
from falcon.errors import DelimiterError, OperationNotAllowed

SyncReader = sync_reader_mod.BufferedReader
AsyncReader = async_reader_mod.BufferedReader


# ---------------------------------------------------------------------------
# reference model
# ---------------------------------------------------------------------------
class Cursor:
    """Flat cursor; `end` is the (lazily known) end of the visible window.
    Nested delimited readers are (start, end) windows on the same data."""

    __slots__ = ('data', 'pos', 'wins', 'chunk', 'iterating')

    def __init__(self, data, chunk):
        self.data = data
        self.pos = 0
        self.wins = [(0, len(data))]
        self.chunk = chunk
        self.iterating = False

    @property
    def end(self):
        return self.wins[-1][1]

    @property
    def start(self):
        return self.wins[-1][0]

    def key(self):
        return (self.pos, tuple(self.wins), self.iterating)

    def remaining(self):
        return self.end - self.pos

    def read(self, size):
        if size is None or size < 0 or size > self.remaining():
            size = self.remaining()
        r = self.data[self.pos:self.pos + size]
        self.pos += size
        return r

    def peek(self, size):
        if size < 0 or size > self.chunk:
            size = self.chunk
        return self.data[self.pos:min(self.pos + size, self.end)]

    def read_until(self, d, size=-1, consume=False):
        i = self.data.find(d, self.pos, self.end)
        stop = self.end if i < 0 else i
        n = stop - self.pos
        if size is not None and size >= 0:
            n = min(n, size)
        r = self.data[self.pos:self.pos + n]
        self.pos += n
        if consume:
            if self.data[self.pos:min(self.pos + len(d), self.end)] == d:
                self.pos += len(d)
            else:
                return ('DelimiterError', r)
        return r

    def readline(self, size=-1):
        if size is None or size < 0 or size > self.remaining():
            size = self.remaining()
        i = self.data.find(b'\n', self.pos, self.end)
        stop = self.end if i < 0 else i + 1
        n = min(stop - self.pos, size)
        r = self.data[self.pos:self.pos + n]
        self.pos += n
        return r

    def readlines(self, hint=-1):
        out, total = [], 0
        while True:
            line = self.readline()
            if not line:
                break
            out.append(line)
            if hint >= 0:
                total += len(line)
                if total >= hint:
                    break
        return out

    def delimit(self, d):
        i = self.data.find(d, self.pos, self.end)
        self.wins.append((self.pos, self.end if i < 0 else i))

    def pop(self):
        self.wins.pop()


# ---------------------------------------------------------------------------
# sources
# ---------------------------------------------------------------------------
class SyncSource:
    """Fake underlying read(size): short reads at the configured cuts; records
    every requested size."""

    def __init__(self, data, cuts, declared):
        self.data = data
        self.cuts = cuts
        self.pos = 0
        self.declared = declared
        self.bad = None

    def read(self, size):
        if not isinstance(size, int) or size <= 0:
            self.bad = 'source asked for size %r' % (size,)
            size = len(self.data) if not isinstance(size, int) or size < 0 else 0
        elif size > self.declared - self.pos:
            self.bad = 'source asked for %d bytes with only %d declared bytes left' % (size, self.declared - self.pos)
        stop = min(self.pos + size, len(self.data))
        for c in self.cuts:
            if self.pos < c < stop:
                stop = c
                break
        r = self.data[self.pos:stop]
        self.pos = stop
        return r


async def async_source(chunks):
    i = 0
    while i < len(chunks):
        c = chunks[i]
        i += 1
        yield c


def run_coro(coro):
    try:
        coro.send(None)
    except StopIteration as e:
        return e.value
    coro.close()
    raise RuntimeError('coroutine suspended on a source that never suspends')


class AsyncSink:
    def __init__(self):
        self.buf = []

    async def write(self, data):
        self.buf.append(bytes(data))


_SCALARS = (bytes, int, bool, str, type(None), float)


def obj_state(o, depth=0):
    """Complete, hashable state of an implementation object (generic walk)."""
    if isinstance(o, _SCALARS):
        return o
    if depth > 8:
        return ('deep', type(o).__name__)
    if isinstance(o, (list, tuple)):
        return tuple(obj_state(x, depth + 1) for x in o)
    if isinstance(o, SyncSource):
        return ('src', o.pos)
    fr = getattr(o, 'ag_frame', False)
    if fr is not False:
        if fr is None:
            return ('agen-done',)
        out = [o.ag_code.co_name, fr.f_lasti]
        for k, v in sorted(fr.f_locals.items()):
            if k == 'self':
                continue
            out.append((k, obj_state(v, depth + 1)))
        return tuple(out)
    if isinstance(o, (SyncReader, AsyncReader)):
        names = []
        for cls in type(o).__mro__:
            names.extend(getattr(cls, '__slots__', ()))
        names.extend(getattr(o, '__dict__', {}).keys())
        out = []
        for k in sorted(set(names)):
            v = getattr(o, k, None)
            if callable(v) and not hasattr(v, 'ag_frame'):
                # the bound read function of the source / functools.partial of a parent
                f = getattr(v, 'func', None)
                slf = getattr(f, '__self__', None) if f is not None else getattr(v, '__self__', None)
                out.append((k, obj_state(slf, depth + 1) if isinstance(slf, (SyncReader, SyncSource)) else 'fn'))
                continue
            out.append((k, obj_state(v, depth + 1)))
        return tuple(out)
    return ('obj', type(o).__name__)


def module_globals_state():
    out = []
    for mod in (sync_reader_mod, async_reader_mod):
        for k, v in sorted(vars(mod).items()):
            if isinstance(v, (bytearray, list, dict, set)) and not k.startswith('__'):
                out.append((mod.__name__, k, repr(v)))
    return tuple(out)


# ---------------------------------------------------------------------------
# the harness
# ---------------------------------------------------------------------------
class AbortConfig(Exception):
    pass


class State:
    __slots__ = ('readers', 'cy', 'src', 'model', 'iter', 'flags', 'subtell0')


class ReaderHarness:
    def __init__(self, kind, data, cuts, chunk, declared, delims, rep, cy_cls=None, nested=1, mode=None):
        self.mode = mode
        self.kind = kind            # 'sync' | 'async'
        self.data = data
        self.cuts = cuts            # sync: cut positions; async: chunk list
        self.chunk = chunk
        self.declared = declared
        self.delims = delims
        self.rep = rep
        self.cy_cls = cy_cls
        self.nested = nested
        self.visible = data[:declared] if kind == 'sync' else data
        self._ops = self._build_ops()

    def cfg(self):
        return {'kind': self.kind, 'data': self.data, 'cuts': list(self.cuts), 'chunk': self.chunk,
                'declared': self.declared, 'delims': list(self.delims), 'nested': self.nested, 'mode': self.mode}

    def _build_ops(self):
        if self.mode == 'd3':
            # focused alphabet for delimiters of length 3 (look-alike prefixes straddling a chunk edge)
            ops = [('read', 1), ('read', 2), ('read', 3), ('read', -1), ('peek', 1), ('peek', -1), ('exhaust',)]
            for d in self.delims:
                ops += [('read_until', d, -1, False), ('read_until', d, 1, False), ('read_until', d, 2, False),
                        ('read_until', d, 3, False), ('read_until', d, -1, True), ('pipe_until', d, False), ('delimit', d),
                        ('read_until', d, 0, True)]      # "the delimiter must follow right here": nothing read, delimiter consumed
            ops.append(('pop',))
            return ops
        ops = [('read', 1), ('read', 2), ('read', -1), ('read', 0), ('read', None),
               ('peek', 1), ('peek', 2), ('peek', -1), ('exhaust',), ('pipe',)]
        for d in self.delims:
            ops += [('read_until', d, -1, False), ('read_until', d, 1, False), ('read_until', d, 2, False),
                    ('read_until', d, -1, True), ('read_until', d, 1, True), ('read_until', d, 0, True),
                    ('pipe_until', d, False), ('pipe_until', d, True), ('delimit', d)]
        if self.kind == 'sync':
            ops += [('readline', -1), ('readline', 2), ('readlines', -1), ('readlines', 2)]
        else:
            ops += [('readall',), ('anext',)]
        ops.append(('pop',))
        return ops

    # -- SEQ protocol ---------------------------------------------------
    def fresh(self):
        s = State()
        s.model = Cursor(self.visible, self.chunk)
        s.cy = None
        if self.kind == 'sync':
            s.src = SyncSource(self.data, self.cuts, self.declared)
            s.readers = [SyncReader(s.src.read, self.declared, self.chunk)]
        else:
            s.src = async_source(list(self.cuts))
            s.readers = [AsyncReader(s.src, self.chunk)]
        s.iter = None
        s.flags = ()
        s.subtell0 = [0]
        return s

    def ops(self, s):
        out = []
        depth = len(s.readers)
        for op in self._ops:
            if s.model.iterating and op[0] != 'anext':
                continue
            if op[0] == 'pop':
                if depth > 1 and s.model.pos == s.model.end:
                    out.append(op)
                continue
            if op[0] == 'delimit' and depth > self.nested:
                continue
            if op[0] == 'anext' and depth > 1:
                continue
            out.append(op)
        return out

    def canon(self, s):
        k = (tuple(obj_state(r) for r in s.readers), obj_state(s.src) if self.kind == 'sync' else obj_state(s.src),
             obj_state(s.iter) if s.iter is not None else None, s.model.key(), module_globals_state())
        return k

    def replay(self, s, op):
        got = self._exec(s, op)
        self._model(s, op)
        if op[0] == 'anext' and isinstance(got, bytes):
            s.model.pos += len(got)

    def step(self, s, op, hist):
        rep = self.rep
        try:
            with watchdog.limit(1.0):
                got = self._exec(s, op)
        except watchdog.Hang:
            self._viol('non-termination', op, hist, None, 'operation still running after 1 s')
            raise AbortConfig()
        except (DelimiterError,) as e:
            got = ('DelimiterError',)
        except Exception as e:  # any other exception is a violation
            self._model(s, op)
            self._viol('unexpected-exception', op, hist, None, '%s: %s' % (type(e).__name__, e), exc=type(e).__name__)
            return False
        exp = self._model(s, op)
        rep.outcome('%s:%s' % (op[0], 'E' if isinstance(exp, tuple) and exp and exp[0] == 'DelimiterError'
                               else ('empty' if not exp else 'data')))
        if isinstance(exp, tuple) and exp and exp[0] == 'DelimiterError':
            if got != ('DelimiterError',):
                self._viol('missing-DelimiterError', op, hist, 'DelimiterError', got)
            return False   # state after an exception is unspecified: terminal
        if got == ('DelimiterError',):
            self._viol('spurious-DelimiterError', op, hist, exp, got)
            return False
        if op[0] == 'anext':
            # iteration may chunk as it likes: non-empty prefix of the rest, or StopAsyncIteration at the end
            rest = exp
            if got == ('StopAsyncIteration',):
                if rest != b'':
                    self._viol('iteration-stopped-early', op, hist, rest, got)
                return False
            if not isinstance(got, bytes) or not got or not rest.startswith(got):
                self._viol('iteration-chunk-not-prefix', op, hist, rest, got)
                return False
            s.model.pos += len(got)
        elif got != exp:
            self._viol('return-value', op, hist, exp, got)
            return False
        # position / eof / source discipline
        if self.kind == 'sync':
            if s.src.bad:
                self._viol('source-over-request', op, hist, None, s.src.bad)
                return False
            if s.src.pos > self.declared:
                self._viol('source-over-read', op, hist, self.declared, s.src.pos)
                return False
        else:
            r = s.readers[-1]
            tell = r.tell()
            want = s.model.pos - s.model.start
            if tell != want:
                self._viol('tell', op, hist, want, tell)
                return False
            if r.eof and s.model.pos != s.model.end:
                self._viol('eof-early', op, hist, False, True)
                return False
            if op[0] in ('exhaust', 'pipe', 'readall') or (op[0] == 'read' and op[1] in (-1, None)):
                if not r.eof:
                    self._viol('eof-not-reported', op, hist, True, False)
                    return False
        if hist is not None:
            r0 = s.readers[-1]
            if getattr(r0, '_buffer_len', 0) - getattr(r0, '_buffer_pos', 0) > 0:
                rep.nt(digest((self.kind, self.data, tuple(self.cuts), self.chunk, self.declared, self.canon(s)[0])))
        return True

    # -- execution on the real readers ------------------------------------
    def _exec(self, s, op):
        r = s.readers[-1]
        name = op[0]
        if self.kind == 'sync':
            return self._exec_sync(r, s, op)
        return self._exec_async(r, s, op)

    def _exec_sync(self, r, s, op):
        name = op[0]
        if name == 'read':
            return r.read(op[1])
        if name == 'peek':
            return r.peek(op[1])
        if name == 'read_until':
            return r.read_until(op[1], op[2], op[3])
        if name == 'pipe':
            b = io.BytesIO()
            r.pipe(b)
            return b.getvalue()
        if name == 'exhaust':
            r.exhaust()
            return b''
        if name == 'pipe_until':
            b = io.BytesIO()
            r.pipe_until(op[1], b, op[2])
            return b.getvalue()
        if name == 'readline':
            return r.readline(op[1])
        if name == 'readlines':
            return r.readlines(op[1])
        if name == 'delimit':
            s.readers.append(r.delimit(op[1]))
            return b''
        if name == 'pop':
            s.readers.pop()
            return b''
        raise AssertionError(op)

    def _exec_async(self, r, s, op):
        name = op[0]
        if name == 'read':
            return run_coro(r.read(op[1]))
        if name == 'readall':
            return run_coro(r.readall())
        if name == 'peek':
            return run_coro(r.peek(op[1]))
        if name == 'read_until':
            return run_coro(r.read_until(op[1], op[2], op[3]))
        if name == 'pipe':
            k = AsyncSink()
            run_coro(r.pipe(k))
            return b''.join(k.buf)
        if name == 'exhaust':
            run_coro(r.exhaust())
            return b''
        if name == 'pipe_until':
            k = AsyncSink()
            run_coro(r.pipe_until(op[1], k, op[2]))
            return b''.join(k.buf)
        if name == 'delimit':
            s.readers.append(r.delimit(op[1]))
            s.subtell0.append(0)
            return b''
        if name == 'pop':
            s.readers.pop()
            return b''
        if name == 'anext':
            if s.iter is None:
                s.iter = r.__aiter__()
            try:
                return run_coro(s.iter.__anext__())
            except StopAsyncIteration:
                return ('StopAsyncIteration',)
        raise AssertionError(op)

    # -- the same operation on the cursor -----------------------------------
    def _model(self, s, op):
        m = s.model
        name = op[0]
        if name in ('read',):
            return m.read(op[1])
        if name == 'readall':
            return m.read(-1)
        if name == 'peek':
            return m.peek(op[1])
        if name == 'read_until':
            return m.read_until(op[1], op[2], op[3])
        if name == 'pipe':
            return m.read(-1)
        if name == 'exhaust':
            m.read(-1)
            return b''
        if name == 'pipe_until':
            return m.read_until(op[1], -1, op[2])
        if name == 'readline':
            return m.readline(op[1])
        if name == 'readlines':
            return m.readlines(op[1])
        if name == 'delimit':
            m.delimit(op[1])
            return b''
        if name == 'pop':
            m.pop()
            return b''
        if name == 'anext':
            m.iterating = True
            return m.data[m.pos:m.end]
        raise AssertionError(op)

    def _viol(self, kind, op, hist, exp, got, exc=''):
        impl = self.kind
        self.rep.violation(
            {'kind': kind, 'reader': impl, 'op': op[0], 'exc': exc},
            {'cfg': self.cfg(), 'hist': [list(o) for o in (hist or ())], 'op': list(op)},
            'reader=%s data=%r source=%r chunk_size=%d declared=%d history=%r op=%r: cursor model says %r, reader gave %r'
            % (impl, self.data, self.cuts, self.chunk, self.declared, list(hist or ()), op, exp, got))


def compositions(n):
    """All cut sets of range(1, n)."""
    for k in range(0, n):
        for cuts in itertools.combinations(range(1, n), k):
            yield cuts


def chunks_of(data, cuts):
    out, p = [], 0
    for c in cuts:
        out.append(data[p:c])
        p = c
    out.append(data[p:])
    return out


def gen_configs(tier, seed):
    """Deterministic list of configuration descriptors (simplest first)."""
    last = b'x' if seed % 2 == 0 else b'-'
    sym4 = [b'a', b'b', b'\n', last]
    sym3 = [b'a', b'b', b'\n']
    alld = [b'a', b'ab', b'\n', b'aa']
    cfgs = []
    if tier == 'quick':
        sync_plan = [(n, sym4, 2, (1, 2, 3), None) for n in range(0, 3)] + [(3, sym3, 2, (1, 2, 3), None)]
        async_plan = [(n, sym4, (1, 2, 3)) for n in range(0, 3)] + [(3, sym3, (2, 3))]
    else:
        sync_plan = [(n, sym4, 2, (1, 2, 3), None) for n in range(0, 4)] + [(4, sym3, 1, (2, 3), 'two'),
                                                                          (5, [b'a', b'\n'], 1, (2, 3), 'one')]
        async_plan = [(n, sym4, (1, 2, 3)) for n in range(0, 4)] + [(4, sym3, (3,))]
    for n, sym, maxcuts, chunks, decl_mode in sync_plan:
        for tup in itertools.product(sym, repeat=n):
            data = b''.join(tup)
            cutsets = [c for c in compositions(n) if len(c) <= maxcuts] if n else [()]
            for cuts in cutsets:
                for chunk in chunks:
                    if decl_mode is None:
                        decls = sorted({n, max(n - 1, 0), n + 2})
                    elif decl_mode == 'two':
                        decls = sorted({n, n - 1})
                    else:
                        decls = [n]
                    for declared in decls:
                        cfgs.append(('sync', data, cuts, chunk, declared))
    for n, sym, chunksz in async_plan:
        for tup in itertools.product(sym, repeat=n):
            data = b''.join(tup)
            shapes = set()
            for cuts in (compositions(n) if n else [()]):
                ch = chunks_of(data, cuts) if n else []
                shapes.add(tuple(ch))
                if len(ch) <= 2:
                    shapes.add(tuple([b''] + ch))
                    shapes.add(tuple(ch + [b'']))
                    if len(ch) == 2:
                        shapes.add((ch[0], b'', ch[1]))
            for ch in sorted(shapes):
                for chunk in chunksz:
                    cfgs.append(('async', data, ch, chunk, len(data)))
    # 3-byte delimiters: two symbols, chunk sizes 3 and 4, reduced operation alphabet (mode 'd3')
    # (the shortest witness of a consumed look-alike prefix straddling the edge of a 3-byte sync chunk,
    #  with the source not yet at EOF, needs 7 bytes)
    for n in range(3, 8 if tier == 'quick' else 9):
        for tup in itertools.product([b'a', b'b'], repeat=n):
            data = b''.join(tup)
            for cuts in compositions(n):
                if tier == 'quick':
                    maxcuts = 2 if n <= 4 else (1 if n == 5 else 0)
                else:
                    maxcuts = 2 if n <= 5 else (1 if n == 6 else 0)
                if len(cuts) > maxcuts:
                    continue
                for chunk in (3, 4):
                    if n >= 6 and chunk == 4 and tier == 'quick':
                        continue
                    if n <= 7:
                        cfgs.append(('sync', data, cuts, chunk, n, 'd3'))
                    if n <= (5 if tier == 'quick' else 6):
                        cfgs.append(('async', data, tuple(chunks_of(data, cuts)), chunk, n, 'd3'))
            # async source items of sizes (>= chunk size, 1, >= chunk size): a tiny item between two big ones
            if n >= 7:
                for cuts in ((3, 4),) + (((4, 5),) if n >= 8 else ()):
                    cfgs.append(('async', data, tuple(chunks_of(data, cuts)), 3, n, 'd3'))
    return cfgs, alld


D3_DELIMS = [b'aba', b'abb']


def run_batch(batch, rep):
    cfgs, alld, nested = batch
    for cfg in cfgs:
        kind, data, cuts, chunk, declared = cfg[:5]
        mode = cfg[5] if len(cfg) > 5 else None
        delims = D3_DELIMS if mode == 'd3' else [d for d in alld if len(d) <= chunk]
        # second-level delimit() multiplies the async state graphs by ~5 (measured: 1.6e4 of 2.1e4 CPU seconds of the
        # thorough tier): it is explored for every sync configuration and for async data of <= 2 bytes
        deep = nested if not (mode == 'd3' or (kind == 'async' and len(data) >= 3)) else 1
        h = ReaderHarness(kind, data, cuts, chunk, declared, delims, rep, nested=deep, mode=mode)
        before = rep.c['states']
        if rep.c['hangs'] >= 3:
            rep.cap('worker batch abandoned after 3 non-terminating operations')
            break
        try:
            seq.bfs(h, rep)
        except AbortConfig:
            rep.c['hangs'] += 1
        rep.trace(rep.c['states'] - before)   # every state = one history replayed in lockstep with the model
        rep.c['configs'] += 1
        rep.sample({'cfg': h.cfg(), 'states_in_this_config': rep.c['states'] - before})


def check(rep):
    cfgs, alld = gen_configs(rep.tier, rep.seed)
    nested = 1 if rep.tier == 'quick' else 2
    rep.bounds = {'sync_max_len': '2 over 4 symbols, 3 over {a,b,LF}' if rep.tier == 'quick' else '3 over 4 symbols, 4 over {a,b,LF}, 5 over {a,LF}',
                  'async_max_len': '2 over 4 symbols + 3 over 3' if rep.tier == 'quick' else '3 over 4 symbols, 4 over {a,b,LF}',
                  'configs': len(cfgs), 'chunk_sizes': [1, 2, 3], 'three_byte_delimiters': 'data <=%d over {a,b}, chunk sizes 3 and 4, delimiters aba/abb, 15-operation alphabet' % 7, 'delimiters': alld, 'sync_cuts<=': 2, 'nesting': nested if nested == 1 else '2 (sync; async for data <= 2 bytes), else 1',
                  'history_length': 'unbounded (closure of the reachable state graph per configuration)'}
    rep.rule = ('one BFS to closure per configuration (data x source chunking x chunk_size x declared length); '
                'a state is the complete attribute/generator-frame state of the real reader(s) plus the cursor; '
                'non-trivial = distinct reached states in which the reader holds unread look-ahead in its buffer')
    rep.assumptions = ['pure-Python readers imported from /repo working tree',
                       'state after an exception is unspecified (terminal)',
                       'mixing async iteration with other calls is unspecified: after the first __anext__ only iteration continues',
                       'a delimited sub-reader is left only once the cursor says it is fully consumed']
    bs = 40
    batches = [(cfgs[i:i + bs], alld, nested) for i in range(0, len(cfgs), bs)]
    par.run_shards(run_batch, batches, rep)


def replay(rec):
    from mc.core.report import Report
    cfg = rec['cfg']
    rep = Report('C14')
    cuts = [bytes(c) if isinstance(c, (bytes, bytearray)) else c for c in cfg['cuts']]
    if True:
        h = ReaderHarness(cfg['kind'], cfg['data'], tuple(cuts), cfg['chunk'], cfg['declared'], cfg['delims'], rep,
                          nested=cfg.get('nested', 1), mode=cfg.get('mode'))
    s = h.fresh()

    def tup(o):
        return tuple(o)
    hist = tuple(tup(o) for o in rec['hist'])
    for o in hist:
        h.replay(s, o)
    try:
        h.step(s, tup(rec['op']), hist)
    except AbortConfig:
        pass
    v = list(rep.viol.values())
    return {'violation': bool(v), 'details': [x['explain'] for x in v]}
