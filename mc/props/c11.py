"""C11 -- content negotiation and media-handler resolution follow RFC 9110 precedence.

Part 1, ENUM (negotiation)
  alphabet  members = media range x q (+ whitespace / case / quoting variants), see `members()`;
            ranges  {*/*, *, A/*, A/a, A/a;p1=v1, A/a; p2="v2", A/a;p1=v1;p2=v2, B/b, A (no slash), ''}
            q       {absent, 0, 0.5, 1, 0.001, 1.0000, abc, 2, -1, nan}
            candidates {B/b, A/a, A/a;p1=v1, A/a;p1=v1x, A/a;p2=v2;p1=v1, A/a;p1=v1;p2=v2;p3=z}
  bound     headers = ALL sequences of <= k members (quick k=2, thorough k=3), each against every
            candidate (quality, client_accepts) and every candidate list of <= 3 distinct candidates
            (+ the empty list and two lists with a repeated candidate) (best_match; client_prefers on
            lists of <= 2), on falcon.mediatypes, falcon.Request and falcon.asgi.Request.
  oracle    mc.props.c11_model (own RFC 9110 12.5.1 / documented order); exact float / exact string;
            a member without type/subtype or with q outside the decimal numbers in [0,1] => the
            functions raise InvalidMediaRange/InvalidMediaType and the request methods answer
            False / None; no other exception type anywhere.

Part 2, SEQ without merging, depth-bounded (handler map; the resolver's lru_cache is not readable)
  alphabet  21 operations on a falcon.media.Handlers: h[k]=H (3 keys x 2 handlers), del h[k] (3),
            pop(k) (2) / pop(k, None) (1), setdefault (3), update (3 payloads), clear,
            copy (continue on the copy; the original stays observed) / copy (keep the original; the copy
            stays observed).  After every operation a battery of resolutions:
            9 content types x 2 default types x raise_not_found in {True, False} through `_resolve`
            on both live objects, and 5 content types through req.get_media() / resp.media
            rendering on WSGI and ASGI request/response objects.
            mode 'each': the battery runs after every operation (warm caches);
            mode 'last': only after the last operation (cold caches).
  bound     quick: all histories <= 3 ops; thorough: all <= 4 ops, and all <= 5 ops over a 10-operation
            sub-alphabet; 2 initial maps (Handlers(), Handlers({json: H1})).
  oracle    a plain dict + c11_model.resolve (exact key, else part 1's matcher with the content type as
            the header and the keys, in mapping order, as candidates, else 415/None): expected handler
            IDENTITY; the mapping contents (keys in order, handler identity) after every operation.
"""
import itertools

from mc.core import par, seq
from mc.core.report import digest
from mc.drivers import wsgi as wdrv
from mc.drivers import asgi as adrv
from mc.props import c11_model as M

import falcon
import falcon.asgi
from falcon import errors
from falcon.media import Handlers
from falcon.media.base import BaseHandler
from falcon.util import mediatypes

DOCUMENTED = (errors.InvalidMediaRange, errors.InvalidMediaType)


# ---------------------------------------------------------------------------
# part 1: alphabet
# ---------------------------------------------------------------------------
NAMES = [
    dict(A='text', a='plain', B='application', b='json', p1='format', v1='flowed', v1x='fixed', p2='charset',
         v2='utf-8', p3='x', v3='z'),
    dict(A='image', a='png', B='text', b='html', p1='level', v1='1', v1x='2', p2='charset', v2='utf-8', p3='y',
         v3='k'),
    dict(A='application', a='xml', B='audio', b='ogg', p1='version', v1='a', v1x='b', p2='profile', v2='x-y',
         p3='w', v3='0'),
]

QVALS = [None, '0', '0.5', '1', '0.001', '1.0000', 'abc', '2', '-1', 'nan']


def members(seed):
    """[(text, class)] simplest first.  class 'quoted-comma' marks the one member whose
    quoted parameter value contains a comma (valid RFC 9110; see final report)."""
    n = NAMES[seed % len(NAMES)]
    f = lambda s: s.format(**n)   # noqa: E731
    good = [f(x) for x in ('*/*', '{A}/{a}', '{A}/*', '{B}/{b}', '*', '{A}/{a};{p1}={v1}', '{A}/{a}; {p2}="{v2}"',
                           '{A}/{a};{p1}={v1};{p2}={v2}')]
    bad = [f('{A}'), '']
    out = []
    for q in QVALS:
        for r in good:
            out.append((r if q is None else r + ';q=' + q, 'plain'))
    for r in bad:
        out.append((r, 'plain'))
        out.append((r + ';q=0.5', 'plain'))
    for v in (' {A}/{a} ; q=0.5', '{A}/{a};q= 0.5 ', '\t{A}/{a}', '{A}/{a};Q=0.5', '{A}/{a};q=0.5;{p1}={v1}',
              '{A}/{a} ;{p1}={v1} ; q=0', '{A}/{a};{P1}={v1}', '{A}/{a};{p1}={v1x};q=0.5', '{A}/{a};{p2}="x;y"',
              '{A}/*;q=0.5 '):
        out.append((v.format(P1=n['p1'].upper(), **n), 'plain'))
    out.append((f('{A}/{a};{p2}="x,y"'), 'quoted-comma'))
    return out


def candidates(seed):
    n = NAMES[seed % len(NAMES)]
    return [s.format(**n) for s in ('{B}/{b}', '{A}/{a}', '{A}/{a};{p1}={v1}', '{A}/{a};{p1}={v1x}',
                                    '{A}/{a};{p2}={v2};{p1}={v1}', '{A}/{a};{p1}={v1};{p2}={v2};{p3}={v3}')]


def candidate_lists(cands):
    out = [()]
    for k in (1, 2, 3):
        out.extend(itertools.permutations(range(len(cands)), k))
    out.append((1, 1))
    out.append((2, 1, 2))
    return out


async def _no_receive():
    return {'type': 'http.disconnect'}


def run_coro(coro):
    try:
        coro.send(None)
    except StopIteration as e:
        return e.value
    coro.close()
    raise RuntimeError('coroutine suspended although nothing can suspend it')


def make_requests(header):
    """WSGI and ASGI Request carrying Accept: header (None = no Accept header)."""
    hs = [] if header is None else [('Accept', header)]
    return (('wsgi', falcon.Request(wdrv.make_environ(headers=hs))),
            ('asgi', falcon.asgi.Request(adrv.make_scope(headers=hs), _no_receive)))


def call_fn(fn, *args):
    try:
        return ('V', fn(*args))
    except DOCUMENTED as e:
        return ('E', type(e).__name__)
    except Exception as e:  # noqa
        return ('X', type(e).__name__ + ': ' + str(e)[:80])


class Neg:
    """Evaluates one header on the real code and on the model."""

    def __init__(self, seed, rep):
        self.seed = seed
        self.rep = rep
        self.members = members(seed)
        self.cands = candidates(seed)
        self.lists = candidate_lists(self.cands)
        self.lists_req = [ls for ls in self.lists if len(ls) <= 2]
        self.cand_parsed = [M.parse_member(c, is_range=False) for c in self.cands]
        self.mem_parsed = [M.parse_member(m) for m, _ in self.members]

    def header(self, idx):
        return ','.join(self.members[i][0] for i in idx)

    def viol(self, kind, fn, idx, header, args, exp, got):
        cls = 'quoted-comma' if any(self.members[i][1] == 'quoted-comma' for i in idx) else 'plain'
        if cls == 'quoted-comma' and kind in ('spurious-error', 'value'):
            # one defect (the header is split on a comma inside a quoted-string): one kind per layer
            kind, fn_sig = 'valid-range-rejected', ('request' if '.' in fn else 'mediatypes')
        else:
            fn_sig = fn
        self.rep.violation(
            {'part': 'negotiation', 'kind': kind, 'fn': fn_sig, 'class': cls},
            {'part': 'negotiation', 'seed': self.seed, 'idx': list(idx), 'header': header},
            'Accept %r, %s%r: model says %r, falcon gave %r' % (header, fn, args, exp, got))

    def model_q(self, idx, header):
        """per-candidate model quality, or MALFORMED; built from per-member parses of the *model's own*
        split of the header (so a quoted comma does not split)."""
        ranges = M.parse_header(header)
        if ranges is M.MALFORMED:
            return M.MALFORMED, None
        return [M.quality_parsed(c, ranges) for c in self.cand_parsed], ranges

    def check_header(self, idx, via_request=True):
        rep = self.rep
        header = self.header(idx)
        rep.state()
        mq, ranges = self.model_q(idx, header)
        malformed = mq is M.MALFORMED
        # -- falcon.mediatypes.quality ---------------------------------------
        for ci, c in enumerate(self.cands):
            got = call_fn(mediatypes.quality, c, header)
            rep.trans()
            if got[0] == 'X':
                self.viol('unexpected-exception', 'quality', idx, header, (c,), 'value or InvalidMediaRange', got[1])
            elif malformed:
                if got[0] != 'E':
                    self.viol('error-expected', 'quality', idx, header, (c,), 'InvalidMediaRange', got[1])
            elif got[0] == 'E':
                self.viol('spurious-error', 'quality', idx, header, (c,), mq[ci], got[1])
            elif got[1] != mq[ci] or type(got[1]) is not float:
                self.viol('value', 'quality', idx, header, (c,), mq[ci], got[1])
        if malformed:
            rep.outcome('malformed')
        else:
            # non-trivial: the precedence rule really decided (two matching ranges of different
            # specificity for one candidate), or two candidates tie / compete
            for ci, c in enumerate(self.cand_parsed):
                ss = sorted({s[:4] for s in (M.score(r, c) for r in ranges) if s is not None})
                if len(ss) >= 2:
                    rep.nt(('neg', header, ci))
            rep.outcome('q:' + ','.join('%g' % q for q in mq))
        # -- falcon.mediatypes.best_match ---------------------------------------
        for ls in self.lists:
            cl = [self.cands[i] for i in ls]
            got = call_fn(mediatypes.best_match, cl, header)
            rep.trans()
            if not cl:
                exp = ('V', '')
            elif malformed:
                exp = ('E', None)
            else:
                best, bq = '', 0.0
                for i in ls:
                    if mq[i] > bq:
                        best, bq = self.cands[i], mq[i]
                exp = ('V', best)
            if got[0] == 'X':
                self.viol('unexpected-exception', 'best_match', idx, header, (cl,), exp, got[1])
            elif exp[0] == 'E':
                if got[0] != 'E':
                    self.viol('error-expected', 'best_match', idx, header, (cl,), 'InvalidMediaRange', got[1])
            elif got[0] == 'E':
                self.viol('spurious-error', 'best_match', idx, header, (cl,), exp[1], got[1])
            elif got[1] != exp[1]:
                self.viol('value', 'best_match', idx, header, (cl,), exp[1], got[1])
        rep.trace()
        if not via_request:
            return
        # -- request methods ------------------------------------------------------
        if header == '':
            # an empty Accept value is documented to mean */*
            eff = [1.0] * len(self.cands)
            eff_mal = False
        else:
            eff, eff_mal = mq, malformed
        for stack, req in make_requests(header):
            for ci, c in enumerate(self.cands):
                exp = False if eff_mal else eff[ci] != 0.0
                got = call_fn(req.client_accepts, c)
                rep.trans()
                if got[0] != 'V':
                    self.viol('unexpected-exception', stack + '.client_accepts', idx, header, (c,), exp, got[1])
                elif got[1] is not exp:
                    self.viol('value', stack + '.client_accepts', idx, header, (c,), exp, got[1])
            for ls in self.lists_req:
                cl = [self.cands[i] for i in ls]
                if eff_mal or not cl:
                    exp = None
                else:
                    best, bq = None, 0.0
                    for i in ls:
                        if eff[i] > bq:
                            best, bq = self.cands[i], eff[i]
                    exp = best
                got = call_fn(req.client_prefers, cl)
                rep.trans()
                if got[0] != 'V':
                    self.viol('unexpected-exception', stack + '.client_prefers', idx, header, (cl,), exp, got[1])
                elif got[1] != exp:
                    self.viol('value', stack + '.client_prefers', idx, header, (cl,), exp, got[1])


def run_neg_shard(shard, rep):
    _, seed, k, first = shard
    neg = Neg(seed, rep)
    n = len(neg.members)
    if first is None:
        # k == 1 plus the "no Accept header" case
        for i in range(n):
            neg.check_header((i,))
            if i < 4:
                rep.sample({'accept': neg.header((i,))})
        for stack, req in make_requests(None):
            for c in neg.cands:
                rep.trans()
                if req.client_accepts(c) is not True:
                    neg.viol('value', stack + '.client_accepts', (), None, (c,), True, False)
            rep.trans()
            if req.client_prefers(neg.cands[2:4]) != neg.cands[2]:
                neg.viol('value', stack + '.client_prefers', (), None, (neg.cands[2:4],), neg.cands[2], '?')
        return
    for rest in itertools.product(range(n), repeat=k - 1):
        neg.check_header((first,) + rest)
    rep.sample({'accept': neg.header((first,) + (n - 2,) * (k - 1))})


# ---------------------------------------------------------------------------
# part 2: handler map histories
# ---------------------------------------------------------------------------
class TagHandler(BaseHandler):
    def __init__(self, tag):
        self.tag = tag

    def serialize(self, media, content_type):
        return b'S:' + self.tag.encode()

    def deserialize(self, stream, content_type, content_length):
        return 'D:' + self.tag

    def __repr__(self):
        return '<H%s>' % self.tag


H = {'H1': TagHandler('H1'), 'H2': TagHandler('H2')}
KJ, KT, KV = 'application/json', 'text/plain', 'application/vnd.api+json'
KP = 'application/json; version=2'      # a parameterised key (may come to sit BEFORE the bare key of the same type)
KM = 'application/vnd.Acme.Order+json'   # a key spelled with capitals: found under exactly that spelling
QUERIES = [KM, KM.lower(), KJ, 'application/json; charset=UTF-8', 'application/*', 'text/*', '*/*', None, 'foo/bar', KV, 'nonsense',
           'application/json; version=2; charset=utf-8', 'application/json; q=0', 'application/json; version=3']
E2E = [KJ, 'application/json; charset=UTF-8', 'application/*', None, 'foo/bar']
DEFAULTS = [KJ, KT]

OPS = [('set', KJ, 'H1'), ('set', KJ, 'H2'), ('set', KT, 'H1'), ('set', KT, 'H2'), ('set', KV, 'H1'), ('set', KV, 'H2'),
       ('set', KP, 'H2'), ('del', KP), ('set', KM, 'H2'), ('del', KM),
       ('del', KJ), ('del', KT), ('del', KV),
       ('pop', KJ), ('pop', KT), ('popd', KV),
       ('setdefault', KJ, 'H2'), ('setdefault', KT, 'H1'), ('setdefault', KV, 'H1'),
       ('update', ((KJ, 'H2'), (KT, 'H1'))), ('update', ()), ('update', ((KV, 'H2'),)),
       ('update_raise', ((KJ, 'H2'),)), ('update_raise', ((KT, 'H2'), (KJ, 'H1'))),
       ('clear',), ('copy_switch',), ('copy_keep',)]
OPS_SMALL = [('set', KM, 'H1'), ('set', KJ, 'H2'), ('set', KT, 'H1'), ('set', KV, 'H2'), ('set', KP, 'H1'), ('del', KJ), ('pop', KT), ('setdefault', KJ, 'H1'),
             ('update', ((KV, 'H1'), (KJ, 'H1'))), ('update_raise', ((KJ, 'H2'),)), ('clear',), ('copy_switch',), ('copy_keep',)]

_model_memo = {}
_SSE_LOOP = [None]


def _sse_loop():
    if _SSE_LOOP[0] is None:
        from mc.core import vloop
        _SSE_LOOP[0] = vloop.VLoop()
    return _SSE_LOOP[0]


def model_resolve(model, q, d):
    k = (tuple(model), q, d)
    r = _model_memo.get(k, 0)
    if r == 0:
        r = _model_memo[k] = M.resolve(model, q, d)
    return r


class HState:
    __slots__ = ('cur', 'mcur', 'other', 'mother', 'prev', 'app')


class _SseRes:
    async def on_get(self, req, resp):
        async def emit():
            yield falcon.asgi.SSEvent(json={})
        resp.sse = emit()


def make_sse_app(handlers):
    """A long-lived ASGI app whose response-side mapping IS the mapping under test (event streams serialize
    SSEvent(json=...) with the handler the mapping designates for JSON at the time of the request)."""
    app = falcon.asgi.App()
    app.resp_options.media_handlers = handlers
    app.add_route('/sse', _SseRes())
    return app


class HandlersHarness:
    def __init__(self, init, mode, prefix, ops, rep):
        self.init = init
        self.mode = mode
        self.prefix = tuple(prefix)
        self.opsl = ops
        self.rep = rep

    # -- SEQ protocol ---------------------------------------------------------
    def fresh(self):
        s = HState()
        if self.init == 'default':
            s.cur = Handlers()
            s.mcur = dict(s.cur.data)       # the three stock handlers; identity only
        else:
            s.cur = Handlers({KJ: H['H1']})
            s.mcur = {KJ: H['H1']}
        s.other = None
        s.mother = None
        s.prev = None
        s.app = make_sse_app(s.cur)
        for op in self.prefix:
            self.replay(s, op)
        return s

    def ops(self, s):
        return self.opsl

    def replay(self, s, op):
        self.apply(s, op, None)
        if self.mode == 'each':
            self.battery(s, None, op, check=False)

    def step(self, s, op, hist):
        full = self.prefix + tuple(hist)
        before = self.expectations(s)
        ok = self.apply(s, op, full)
        if not ok:
            return False
        after = self.expectations(s)
        changed = sum(1 for a, b in zip(before, after) if a is not b)
        if changed:
            self.rep.nt(('h', self.init, self.mode, full, op))
        self.rep.outcome('%s:%d-changed' % (op[0], min(changed, 3)))
        self.rep.trace()
        return self.battery(s, full, op, check=True)

    def expectations(self, s):
        out = []
        for q in QUERIES:
            for d in DEFAULTS:
                k = model_resolve(s.mcur, q, d)
                out.append(s.mcur[k] if k is not None else None)
        return out

    # -- one mutation on implementation and model ----------------------------
    def apply(self, s, op, full):
        name = op[0]
        h, m = s.cur, s.mcur

        def both(fi, fm):
            try:
                gi = ('V', fi())
            except KeyError:
                gi = ('KeyError',)
            except Exception as e:  # noqa
                gi = ('X', type(e).__name__ + ': ' + str(e)[:60])
            try:
                gm = ('V', fm())
            except KeyError:
                gm = ('KeyError',)
            return gi, gm

        if name == 'set':
            gi, gm = both(lambda: h.__setitem__(op[1], H[op[2]]), lambda: m.__setitem__(op[1], H[op[2]]))
        elif name == 'del':
            gi, gm = both(lambda: h.__delitem__(op[1]), lambda: m.__delitem__(op[1]))
        elif name == 'pop':
            gi, gm = both(lambda: h.pop(op[1]), lambda: m.pop(op[1]))
        elif name == 'popd':
            gi, gm = both(lambda: h.pop(op[1], None), lambda: m.pop(op[1], None))
        elif name == 'setdefault':
            gi, gm = both(lambda: h.setdefault(op[1], H[op[2]]), lambda: m.setdefault(op[1], H[op[2]]))
        elif name == 'update':
            payload = [(k, H[v]) for k, v in op[1]]
            gi, gm = both(lambda: h.update(dict(payload)), lambda: m.update(dict(payload)))
        elif name == 'update_raise':
            # update() from a source that fails part-way: the pairs delivered before the failure ARE in the mapping
            def source():
                for k, v in op[1]:
                    yield (k, H[v])
                raise RuntimeError('handler source failed')
            for target in (h, m):
                try:
                    target.update(source())
                except RuntimeError:
                    pass
            gi = gm = ('V', None)
        elif name == 'clear':
            gi, gm = both(lambda: h.clear(), lambda: m.clear())
        elif name == 'copy_switch':
            gi, gm = both(lambda: h.copy(), lambda: dict(m))
            if gi[0] == 'V':
                s.other, s.mother = h, m
                s.cur, s.mcur = gi[1], gm[1]
                gi = gm = ('V', None)
        elif name == 'copy_keep':
            gi, gm = both(lambda: h.copy(), lambda: dict(m))
            if gi[0] == 'V':
                s.other, s.mother = gi[1], gm[1]
                gi = gm = ('V', None)
        else:
            raise AssertionError(op)
        self.rep.trans()
        if full is None:
            return True
        if gi[0] != gm[0] or (gi[0] == 'V' and gi[1] is not gm[1]):
            self.viol('op-result', op, full, 'cur', '-', gm, gi)
            return False
        for label, obj, mod in (('cur', s.cur, s.mcur), ('other', s.other, s.mother)):
            if obj is None:
                continue
            got = list(obj.data.items())
            exp = list(mod.items())
            if type(obj) is not Handlers:
                self.viol('copy-type', op, full, label, '-', 'Handlers', type(obj).__name__)
                return False
            if len(got) != len(exp) or any(a[0] != b[0] or a[1] is not b[1] for a, b in zip(got, exp)):
                if name.startswith('copy') and not exp:
                    self.viol('mapping-mismatch', ('copy',) + tuple(op[1:]), full, 'copy', '-', [k for k, _ in exp],
                              [k for k, _ in got], cls='copy-of-empty', real_op=op)
                else:
                    self.viol('mapping-mismatch', op, full, label, '-', [k for k, _ in exp], [k for k, _ in got])
                return False
        return True

    # -- resolutions -----------------------------------------------------------
    def battery(self, s, full, op, check):
        rep = self.rep
        ok = True
        if True:
            for label, obj, mod in (('cur', s.cur, s.mcur), ('other', s.other, s.mother)):
                if obj is None:
                    continue
                if label == 'cur' and check:
                    ok = self.e2e(obj, mod, full, op, check) and ok
                if label == 'cur' and (full is None or len(full) <= 3):
                    # (histories longer than 3 operations are judged through _resolve / get_media / resp.media only:
                    #  one served event stream per state doubled the thorough tier)
                    ok = self.sse_probe(s, obj, mod, full, op, check) and ok
                res = obj._resolve
                for q in QUERIES:
                    for d in DEFAULTS:
                        k = model_resolve(mod, q, d)
                        exp_h = mod[k] if k is not None else None
                        for r in (True, False, 'dflt'):
                            try:
                                # the two-argument form is a different lru_cache key
                                got = res(q, d) if r == 'dflt' else res(q, d, r)
                            except errors.HTTPUnsupportedMediaType:
                                got = '415'
                            except Exception as e:  # noqa
                                got = 'X:' + type(e).__name__
                            rep.trans()
                            if not check:
                                continue
                            if exp_h is None:
                                good = (got == '415') if r else (got == (None, None, None))
                            else:
                                good = (type(got) is tuple and len(got) == 3 and got[0] is exp_h
                                        and got[1] is getattr(exp_h, '_serialize_sync', None)
                                        and got[2] is getattr(exp_h, '_deserialize_sync', None))
                            if not good:
                                self.viol('resolve-mismatch', op, full, label, '_resolve',
                                          '%r for (%r, default=%r, raise=%r)' % (exp_h if exp_h is not None else
                                                                                   ('415' if r else None), q, d, r),
                                          got[0] if type(got) is tuple else got)
                                ok = False
        return ok

    def sse_probe(self, s, obj, mod, full, op, check):
        if s.app.resp_options.media_handlers is not obj:
            s.app.resp_options.media_handlers = obj          # copy_switch: the application installs the copy
        res = adrv.call(s.app, method='GET', raw_path='/sse', loop=_sse_loop())
        self.rep.trans()
        if not check:
            return True
        k = model_resolve(mod, KJ, KJ)
        exp_h = mod[k] if k is not None else None
        want = b'data: S:' + exp_h.tag.encode() + b'\n\n' if isinstance(exp_h, TagHandler) else b'data: {}\n\n'
        if res.exc is not None or res.body != want:
            self.viol('resolve-mismatch', op, full, 'cur', 'sse',
                      '%r for an event stream (body %r)' % (exp_h if exp_h is not None else 'built-in JSON', want),
                      repr(res.exc) if res.exc is not None else res.body)
            return False
        return True

    def e2e(self, obj, mod, full, op, check):
        rep = self.rep
        ok = True
        ropt = falcon.RequestOptions()
        ropt.media_handlers = obj
        sopt = falcon.ResponseOptions()
        sopt.media_handlers = obj
        d = ropt.default_media_type
        for q in E2E:
            k = model_resolve(mod, q, d)
            exp_h = mod[k] if k is not None else None
            if exp_h is not None and not isinstance(exp_h, TagHandler):
                exp_h = 'stock'
            hs = [] if q is None else [('Content-Type', q)]
            results = []
            # WSGI request
            env = wdrv.make_environ(method='POST', headers=hs, body=b'{}')
            req = falcon.Request(env, options=ropt)
            results.append(('wsgi.get_media', self._try(req.get_media), 'D:'))
            # ASGI request
            evs = [{'type': 'http.request', 'body': b'{}', 'more_body': False}]

            async def receive():
                return evs.pop(0) if evs else {'type': 'http.disconnect'}
            areq = falcon.asgi.Request(adrv.make_scope(method='POST', headers=hs + [('Content-Length', '2')]), receive,
                                       options=ropt)
            results.append(('asgi.get_media', self._try(lambda: run_coro(areq.get_media())), 'D:'))
            # responses
            resp = falcon.Response(options=sopt)
            if q is not None:
                resp.content_type = q
            resp.media = {}
            results.append(('wsgi.resp.media', self._try(resp.render_body), b'S:'))
            aresp = falcon.asgi.Response(options=sopt)
            if q is not None:
                aresp.content_type = q
            aresp.media = {}
            results.append(('asgi.resp.media', self._try(lambda: run_coro(aresp.render_body())), b'S:'))
            rep.trans(4)
            if not check:
                continue
            for via, got, pre in results:
                if exp_h is None:
                    good = got == '415'
                elif exp_h == 'stock':
                    # one of falcon's own handlers: identity is checked through _resolve; here only "no error"
                    good = got != '415' and not (isinstance(got, str) and got.startswith('X:'))
                else:
                    good = got == pre + (exp_h.tag if isinstance(pre, str) else exp_h.tag.encode())
                if not good:
                    self.viol('resolve-mismatch', op, full, 'cur', via,
                              '%r for content type %r' % (exp_h if exp_h is not None else '415', q), got)
                    ok = False
        return ok

    @staticmethod
    def _try(fn):
        try:
            return fn()
        except errors.HTTPUnsupportedMediaType:
            return '415'
        except Exception as e:  # noqa
            return 'X:%s: %s' % (type(e).__name__, str(e)[:60])

    def viol(self, kind, op, full, target, via, exp, got, cls='-', real_op=None):
        self.rep.violation(
            {'part': 'handlers', 'kind': kind, 'lastop': op[0], 'target': target, 'via': via, 'class': cls},
            {'part': 'handlers', 'init': self.init, 'mode': self.mode, 'hist': [list(o) for o in full],
             'op': list(real_op or op)},
            'Handlers init=%s, battery=%s, history %r then %r: dict model says %r, falcon gave %r (on %s via %s)'
            % (self.init, self.mode, [o for o in full], op, exp, got, target, via))


def run_handlers_shard(shard, rep):
    _, init, mode, prefix, depth, small = shard
    h = HandlersHarness(init, mode, prefix, OPS_SMALL if small else OPS, rep)
    seq.bfs(h, rep, max_depth=depth, merge=False)
    if not prefix:
        rep.sample({'handlers_history_example': [list(OPS[0]), list(OPS[6]), list(OPS[19])], 'init': init, 'mode': mode})


def run_shard(shard, rep):
    if shard[0] == 'neg':
        run_neg_shard(shard, rep)
    else:
        run_handlers_shard(shard, rep)


def check(rep):
    quick = rep.tier == 'quick'
    k = 2 if quick else 3
    nm = len(members(rep.seed))
    ncl = len(candidate_lists(candidates(rep.seed)))
    depth = 3 if quick else 4
    rep.bounds = {
        'negotiation': {'members': nm, 'max_members_per_header': k, 'headers': sum(nm ** i for i in range(1, k + 1)),
                        'candidates': 6, 'candidate_lists': ncl, 'stacks': ['falcon.mediatypes', 'wsgi Request',
                                                                            'asgi Request']},
        'handlers': {'operations': len(OPS), 'max_history': depth,
                     'extra': None if quick else 'histories <= 5 over %d operations' % len(OPS_SMALL),
                     'initial_maps': 2, 'battery_modes': ['each', 'last'],
                     'resolutions_per_battery': len(QUERIES) * len(DEFAULTS) * 3, 'e2e_types': len(E2E)},
    }
    rep.rule = ('negotiation: every header of <= k members x every candidate / candidate list, compared with the '
                'precedence model; non-trivial = (header, candidate) where >= 2 ranges of different specificity match. '
                'handlers: every operation history up to the bound, replayed from a fresh map, the resolution battery '
                'after each step; non-trivial = a step that changes the expected answer of >= 1 resolution '
                '(a stale cache entry would be visible)')
    rep.assumptions = [
        'pure-Python falcon imported from the working tree',
        'ties between candidates are broken by candidate order (first wins); for the handler map that is mapping order',
        'a member without "/" (other than a lone "*"), an empty member, or q outside decimal [0,1] is malformed and must '
        'raise InvalidMediaRange/InvalidMediaType from the functions (False/None from the request methods)',
        'a comma inside a quoted parameter value does not end the media range (RFC 9110 5.6.4/12.5.1)',
        '|= on the handler map is outside the property and not generated',
    ]
    shards = [('neg', rep.seed, 1, None)]
    for kk in range(2, k + 1):
        for first in range(nm):
            shards.append(('neg', rep.seed, kk, first))
    hs = []
    for init in ('json', 'default'):
        for mode in ('each', 'last'):
            hs.append(('h', init, mode, (), 2, False))     # all histories <= 2 first: shortest examples win
    for d in range(3, depth + 1):
        for init in ('json', 'default'):
            for mode in ('each', 'last'):
                for op in OPS:
                    hs.append(('h', init, mode, (op,), d - 1, False))
    if not quick:
        for init in ('json', 'default'):
            for mode in ('each', 'last'):
                for op in OPS_SMALL:
                    hs.append(('h', init, mode, (op,), 4, True))
    # rotate shard order by seed (same set)
    shards = shards[:1] + hs + shards[1:]
    par.run_shards(run_shard, shards, rep)


def replay(rec):
    from mc.core.report import Report
    rep = Report('C11')
    if rec['part'] == 'negotiation':
        neg = Neg(rec['seed'], rep)
        if rec['idx']:
            neg.check_header(tuple(rec['idx']))
        v = list(rep.viol.values())
        return {'violation': bool(v), 'details': [x['explain'] for x in v]}

    def tup(o):
        return tuple(tup(x) for x in o) if isinstance(o, list) else o
    hist = [tup(o) for o in rec['hist']]
    h = HandlersHarness(rec['init'], rec['mode'], (), OPS, rep)
    s = h.fresh()
    for o in hist:
        h.replay(s, o)
    h.step(s, tup(rec['op']), hist)
    v = list(rep.viol.values())
    return {'violation': bool(v), 'details': [x['explain'] for x in v]}
