"""C09 -- typed request-header accessors agree with the RFC reading or answer 400.

Engine   ENUM: per accessor family a small ABNF-derived grammar enumerated to a depth, plus ALL
         edit-distance-1 mutants (deletion, substitution / insertion from {space , ; : = " [ a 0})
         of the listed base values.  Every value is put into a WSGI environ and an ASGI scope made by
         mc.drivers.{wsgi,asgi}; falcon.Request(env) / falcon.asgi.Request(scope, receive) are built
         directly; base values additionally travel through falcon.App / falcon.asgi.App.
Families content-length | range | dates | etags | cookies | forwarded | x-forwarded combos | host/URL |
         accept | header-name lookup | response round trip   (alphabets: the F* classes below)
Bound    quick: grammar depth 2, mutants of depth-1 bases (~3.7e4 values); thorough: depth 3, mutants of
         depth-1 and (most) depth-2 bases, and all edit-distance-2 mutants of a few short bases
         (~7e5 values).  Counts per family are written to the evidence file (`bounds`).
Oracle   mc.props.c09_oracle (own RFC parsers, no falcon imports) says VALID(v) or INVALID:
           VALID   => the accessor returns exactly v (a few documented alternatives where the RFC
                      leaves the representation open: IPv6 brackets, quoted cookie values, proto case)
           INVALID => any value, or an HTTPError with a 4xx status
           always  => no other exception type; a second read equals the first; a fresh Request read
                      in the opposite accessor order gives the same values (memoisation);
                      uri/url/prefix/relative_uri/forwarded_uri/forwarded_prefix equal the
                      composition of their parts; through the app: same value / same 4xx status.
         Header lookup is case-insensitive; dates and entity-tags written with
         resp.last_modified/expires/etag read back equal from a request.
"""
import datetime
import itertools
import operator

from mc.core import par
from mc.drivers import wsgi as wdrv
from mc.drivers import asgi as adrv
from mc.props import c09_gen as G
from mc.props import c09_oracle as O
from mc.props import c11_model as M

import falcon
import falcon.asgi
from falcon import ETag, Forwarded

STACKS = ('wsgi', 'asgi')
UTC = datetime.timezone.utc


async def _no_receive():
    return {'type': 'http.disconnect'}


# ---------------------------------------------------------------------------
# building requests, reading accessors
# ---------------------------------------------------------------------------
def build(cfg, stack):
    kw = dict(cfg)
    no_host = kw.pop('no_host', False)
    no_client = kw.pop('no_client', False)
    no_server = kw.pop('asgi_no_server', None)
    ws = kw.pop('ws', False)
    if ws:
        assert stack == 'asgi'
        scope = make_scope(kw, no_host, no_client, no_server)
        scope['type'] = 'websocket'
        del scope['method']
        scope['subprotocols'] = []
        return falcon.asgi.Request(scope, _no_receive)
    if stack == 'wsgi':
        return falcon.Request(make_env(kw, no_host, no_client))
    return falcon.asgi.Request(make_scope(kw, no_host, no_client, no_server), _no_receive)


def make_env(kw, no_host, no_client):
    env = wdrv.make_environ(**kw)
    if no_host:
        env.pop('HTTP_HOST', None)
    if no_client:
        env.pop('REMOTE_ADDR', None)
    return env


def make_scope(kw, no_host, no_client, no_server):
    if no_client:
        kw = dict(kw, remote_addr=None)
    scope = adrv.make_scope(include_host=not no_host, **kw)
    if no_server == 'missing':
        del scope['server']         # "server" is optional in the ASGI HTTP scope
    elif no_server == 'none':
        scope['server'] = None
    return scope


def snap(v):
    """Plain comparable snapshot of an accessor value."""
    if v is None or isinstance(v, (bool, int, float)):
        return v
    if isinstance(v, ETag):
        return (str(v), bool(v.is_weak))
    if isinstance(v, str):
        return v
    if isinstance(v, datetime.datetime):
        off = v.utcoffset()
        return ('dt', v.year, v.month, v.day, v.hour, v.minute, v.second, v.microsecond,
                None if off is None else int(off.total_seconds()))
    if isinstance(v, Forwarded):
        return ('fwd', v.src, v.dest, v.host, v.scheme)
    if isinstance(v, (list, tuple)):
        return tuple(snap(x) for x in v)
    if isinstance(v, dict):
        return ('dict',) + tuple(sorted((k, snap(x)) for k, x in v.items()))
    return ('?', repr(v))


_ACC_CACHE = {}


def accessor(acc_id):
    fn = _ACC_CACHE.get(acc_id)
    if fn is not None:
        return fn
    parts = acc_id.split('|')
    k = parts[0]
    if k == 'hdt':
        name, obs = parts[1], parts[2] == '1'
        fn = lambda r: r.get_header_as_datetime(name, obs_date=obs)   # noqa: E731
    elif k == 'hint':
        fn = lambda r: r.get_header_as_int(parts[1])   # noqa: E731
    elif k == 'cookie':
        fn = lambda r: r.get_cookie_values(parts[1])   # noqa: E731
    elif k == 'accepts':
        fn = lambda r: r.client_accepts(parts[1])   # noqa: E731
    elif k == 'prefers':
        lst = parts[1:]
        fn = lambda r: r.client_prefers(lst)   # noqa: E731
    elif k == 'hdr':
        fn = lambda r: r.get_header(parts[1])   # noqa: E731
    else:
        fn = operator.attrgetter(k)
    _ACC_CACHE[acc_id] = fn
    return fn


def acc_name(acc_id):
    k = acc_id.split('|')[0]
    return {'hdt': 'get_header_as_datetime', 'hint': 'get_header_as_int', 'cookie': 'get_cookie_values',
            'accepts': 'client_accepts', 'prefers': 'client_prefers', 'hdr': 'get_header'}.get(k, k)


def observe(fn, req):
    try:
        v = fn(req)
    except falcon.HTTPError as e:
        return ('H', e.status_code)
    except Exception as e:  # noqa
        return ('X', type(e).__name__)
    return ('V', snap(v))


SKIP = ('INVALID', 'unspecified')
# accessors computed from another accessor that is read earlier in the same case: when the parent
# escaped with a non-HTTP exception (reported once, at the parent) the child is not judged again
DERIVED = {'subdomain': 'host', 'remote_addr': 'access_route'}


class Case:
    __slots__ = ('fam', 'value', 'cfg', 'reads', 'cls', 'compose', 'is_base')

    def __init__(self, fam, value, cfg, reads, cls, compose=False, is_base=False):
        self.fam = fam
        self.value = value
        self.cfg = cfg
        self.reads = reads      # [(acc_id, oracle verdict)]
        self.cls = cls
        self.compose = compose
        self.is_base = is_base


def viol(rep, case, stack, acc_id, kind, exp, got, exc='-', cls=None):
    rep.violation(
        {'family': case.fam, 'accessor': acc_name(acc_id), 'stack': stack, 'kind': kind, 'exc': exc,
         'input': cls or case.cls},
        {'family': case.fam, 'value': case.value, 'stack': stack, 'accessor': acc_id, 'seed': rep.seed, 'tier': rep.tier},
        '%s %s: %s=%r -> req.%s: oracle says %s, falcon gave %r'
        % (stack, case.fam, case.fam, case.value, acc_id, exp, got))


def judge(rep, case, stack, acc_id, verdict, obs):
    # input class in the signature: the oracle's sub-class for VALID input, plain 'invalid' otherwise
    cls = verdict[-1] if verdict[0] == 'VALID' else 'invalid'
    if obs[0] == 'X':
        viol(rep, case, stack, acc_id, 'unexpected-exception',
             ('VALID %r' % (verdict[1][:2],)) if verdict[0] == 'VALID' else 'INVALID (value or 4xx)', obs[1],
             exc=obs[1], cls=cls)
        return
    if verdict[0] == 'VALID':
        if obs[0] == 'H':
            viol(rep, case, stack, acc_id, 'valid-rejected', 'VALID %r' % (verdict[1][:2],), 'HTTP %s' % obs[1], cls=cls)
        elif obs[1] not in verdict[1]:
            viol(rep, case, stack, acc_id, 'wrong-value', 'VALID %r' % (verdict[1][:2],), obs[1], cls=cls)
    elif obs[0] == 'H' and not (isinstance(obs[1], int) and 400 <= obs[1] < 500):
        viol(rep, case, stack, acc_id, 'non-4xx-error', 'INVALID (value or 4xx)', 'HTTP %s' % obs[1], cls=cls)


def check_compose(rep, case, stack, ob):
    """URL compositions from the request's own parts (ob: acc_id -> observation)."""
    def val(k):
        o = ob.get(k)
        return o[1] if o is not None and o[0] == 'V' else None
    cfg = case.cfg
    root = cfg.get('root_path', '')
    path = cfg.get('raw_path', '/')
    qs = cfg.get('query', '')
    rel = root + path + ('?' + qs if qs else '')
    checks = []
    if val('relative_uri') is not None:
        checks.append(('relative_uri', rel, val('relative_uri')))
    sch, net = val('scheme'), val('netloc')
    if sch is not None and net is not None:
        if val('uri') is not None:
            checks.append(('uri', sch + '://' + net + rel, val('uri')))
        if val('url') is not None:
            checks.append(('url', sch + '://' + net + rel, val('url')))
        if val('prefix') is not None:
            checks.append(('prefix', sch + '://' + net + root, val('prefix')))
    fs, fh = val('forwarded_scheme'), val('forwarded_host')
    if fs is not None and fh is not None:
        if val('forwarded_uri') is not None:
            checks.append(('forwarded_uri', fs + '://' + fh + rel, val('forwarded_uri')))
        if val('forwarded_prefix') is not None:
            checks.append(('forwarded_prefix', fs + '://' + fh + root, val('forwarded_prefix')))
    for k, exp, got in checks:
        if exp != got:
            viol(rep, case, stack, k, 'composition', 'composition of its parts %r' % exp, got)


def run_case(case, rep, apps=None):
    ids = [a for a, _ in case.reads]
    fns = [accessor(a) for a in ids]
    rep.state()
    nontrivial = False
    for stack in STACKS:
        if case.cfg.get('ws') and stack == 'wsgi':
            continue
        a = build(case.cfg, stack)
        b = build(case.cfg, stack)
        o1 = [observe(f, a) for f in fns]
        o2 = [observe(f, a) for f in fns]
        o3 = [observe(f, b) for f in reversed(fns)]
        o3.reverse()
        rep.trans(3 * len(fns))
        ob = {}
        for i, (acc_id, verdict) in enumerate(case.reads):
            if not (DERIVED.get(acc_id) and ob.get(DERIVED[acc_id], ('V',))[0] == 'X'):
                judge(rep, case, stack, acc_id, verdict, o1[i])
            rep.outcome('%s:%s:%s' % (case.fam, verdict[0], o1[i][0] if o1[i][0] != 'H' else 'H%s' % o1[i][1]))
            parent = DERIVED.get(acc_id)
            if o1[i][0] == 'X' or (parent and ob.get(parent, ('V',))[0] == 'X'):
                ob[acc_id] = ('X', 'tainted') if o1[i][0] != 'X' else o1[i]
                continue        # reported once; what a Request does after such an exception is not compared
            if o2[i] != o1[i]:
                viol(rep, case, stack, acc_id, 'repeat-read-differs', o1[i], o2[i])
            if o3[i] != o1[i]:
                viol(rep, case, stack, acc_id, 'fresh-read-differs', o1[i], o3[i])
            ob[acc_id] = o1[i]
            if verdict[0] == 'VALID' and o1[i][0] == 'V' and o1[i][1] is not None:
                nontrivial = True
        if case.compose:
            check_compose(rep, case, stack, ob)
        if apps is not None and case.is_base:
            through_app(rep, case, stack, ids, fns, [ob[a] for a in ids], apps)
        rep.trace()
    if nontrivial:
        rep.nt((case.fam, case.value if isinstance(case.value, str) else repr(case.value)))


# ---------------------------------------------------------------------------
# through an app
# ---------------------------------------------------------------------------
class Apps:
    """One WSGI and one ASGI app whose sink reads ONE accessor and answers repr(snapshot)."""

    def __init__(self):
        self.fn = None
        holder = self

        def sink(req, resp, **kw):
            resp.text = repr(snap(holder.fn(req)))

        async def asink(req, resp, **kw):
            resp.text = repr(snap(holder.fn(req)))

        self.wsgi = falcon.App()
        self.wsgi.add_sink(sink, '/')
        self.asgi = falcon.asgi.App()
        self.asgi.add_sink(asink, '/')


def through_app(rep, case, stack, ids, fns, direct, apps):
    kw = dict(case.cfg)
    no_host = kw.pop('no_host', False)
    no_client = kw.pop('no_client', False)
    no_server = kw.pop('asgi_no_server', None)
    for acc_id, fn, d in zip(ids, fns, direct):
        if d[0] == 'X':
            continue            # already reported by the direct read
        apps.fn = fn
        if stack == 'wsgi':
            res = wdrv.call(apps.wsgi, env=make_env(kw, no_host, no_client))
        else:
            res = adrv.call(apps.asgi, scope=make_scope(kw, no_host, no_client, no_server))
        rep.trans()
        if res.exc is not None:
            viol(rep, case, stack, acc_id, 'app-exception-escaped', d, repr(res.exc)[:80])
        elif d[0] == 'V':
            if res.code != 200 or res.body != repr(d[1]).encode():
                viol(rep, case, stack, acc_id, 'app-differs-from-direct', d, (res.code, res.body[:80]))
        elif res.code != d[1]:
            viol(rep, case, stack, acc_id, 'app-differs-from-direct', d, (res.code, res.body[:80]))


# ---------------------------------------------------------------------------
# families
# ---------------------------------------------------------------------------
class Family:
    name = ''

    def __init__(self, tier, seed):
        self.tier = tier
        self.quick = tier == 'quick'
        self.seed = seed
        self.n = G.names(seed)

    def values(self):       # -> (all values, number of base values)
        raise NotImplementedError

    def case(self, v, is_base):
        raise NotImplementedError


def hname(name, i):
    """The header name as sent, in one of 3 casings (the drivers normalise it as servers do)."""
    return (name, name.lower(), name.upper())[i % 3]


class FContentLength(Family):
    name = 'content-length'

    def values(self):
        bases = ['0', '5', '007', '42', '18446744073709551616', '', ' 5', '5 ', '+5', '-5', '5.0', '0x10', '1e3', '1_0',
                 '\xb2', '5, 5', 'abc', '١', '1' * 4300, '9' * 4301]
        bases = [b for b in bases if all(ord(c) < 256 for c in b)]
        mut = [b for b in bases if len(b) <= 20]
        vals = G.with_mutants(bases, mut)
        if not self.quick:
            vals = G.with_mutants2(vals, ['5', '42', '007'])
        return vals, len(bases)

    def case(self, v, is_base):
        verdict = O.content_length(v)
        return Case(self.name, v, {'headers': [(hname('Content-Length', len(v)), v)]},
                    [('content_length', verdict), ('hint|Content-Length', verdict if v != '' else O.INV('empty'))],
                    verdict[-1], is_base=is_base)


class FRange(Family):
    name = 'range'

    def values(self):
        ints = ['0', '5', '10'] if self.quick else ['0', '5', '10', '007', '18446744073709551616']
        specs = [a + '-' + b for a in ints for b in ints] + [a + '-' for a in ints] + ['-' + a for a in ints]
        units = ['bytes', self.n['unit2']]
        d1 = [u + '=' + s for u in units for s in specs]
        bases = list(d1)
        for u in units:
            for sep in (',', ', '):
                bases += [u + '=' + a + sep + b for a in specs for b in specs]
        if not self.quick:
            s3 = [a + '-' + b for a in ints[:3] for b in ints[:3]] + [a + '-' for a in ints[:3]] + ['-' + a for a in ints[:3]]
            bases += ['bytes=' + ','.join(t) for t in itertools.product(s3, repeat=3)]
        specials = ['', 'bytes', 'bytes=', '=0-5', 'bytes=-', 'bytes=0', 'bytes=a-b', 'bytes=0-5-7', 'bytes 0-5',
                    'BYTES=0-5', 'bytes=0-5;q=1', 'bytes=\xb2-\xb3', 'bytes=' + '1' * 4301 + '-']
        bases += specials
        mut = list(d1) + specials[:11]
        if not self.quick:
            s2 = [a + '-' + b for a in ints[:3] for b in ints[:3]] + [a + '-' for a in ints[:3]] + ['-' + a for a in ints[:3]]
            mut += ['bytes=' + a + sep + b for a in s2 for b in s2 for sep in (',', ', ')]
        vals = G.with_mutants(bases, mut)
        if not self.quick:
            vals = G.with_mutants2(vals, ['bytes=0-5', 'bytes=5-', 'bytes=-5'])
        return vals, len(bases)

    def case(self, v, is_base):
        vr = O.range_(v)
        return Case(self.name, v, {'headers': [(hname('Range', len(v)), v)]},
                    [('range', vr), ('range_unit', O.range_unit(v))], vr[-1], is_base=is_base)


_D3 = ['Mon', 'Tue', 'Wed', 'Thu', 'Fri', 'Sat', 'Sun']
_DL = ['Monday', 'Tuesday', 'Wednesday', 'Thursday', 'Friday', 'Saturday', 'Sunday']
_MO = ['Jan', 'Feb', 'Mar', 'Apr', 'May', 'Jun', 'Jul', 'Aug', 'Sep', 'Oct', 'Nov', 'Dec']


def fmt_imf(t):
    return '%s, %02d %s %04d %02d:%02d:%02d GMT' % (_D3[t.weekday()], t.day, _MO[t.month - 1], t.year, t.hour, t.minute,
                                                   t.second)


def fmt_850(t):
    return '%s, %02d-%s-%02d %02d:%02d:%02d GMT' % (_DL[t.weekday()], t.day, _MO[t.month - 1], t.year % 100, t.hour,
                                                   t.minute, t.second)


def fmt_asc(t):
    return '%s %s %2d %02d:%02d:%02d %04d' % (_D3[t.weekday()], _MO[t.month - 1], t.day, t.hour, t.minute, t.second,
                                              t.year)


def instants(seed):
    base = [datetime.datetime(1994, 11, 6, 8, 49, 37), datetime.datetime(2000, 2, 29, 23, 59, 59),
            datetime.datetime(1970, 1, 1, 0, 0, 0), datetime.datetime(2038, 1, 19, 3, 14, 8)]
    # one instant per month, weekdays cycling; the seed shifts the day / year
    for m in range(1, 13):
        base.append(datetime.datetime(2001 + seed % 3, m, 1 + (m * 5 + seed) % 28, (m * 7) % 24, (m * 13) % 60,
                                      (m * 17) % 60))
    return base


class FDates(Family):
    name = 'dates'

    def values(self):
        ins = instants(self.seed)
        bases = []
        for t in ins:
            bases += [fmt_imf(t), fmt_850(t), fmt_asc(t)]
        specials = ['', 'Sun, 06 Nov 1994 08:49:37 UTC', 'Sun, 06 Nov 1994 08:49:37 +0000', 'Sun, 06 Nov 1994 08:49:37',
                    'sun, 06 nov 1994 08:49:37 gmt', 'Sun, 6 Nov 1994 08:49:37 GMT', 'Mon, 06 Nov 1994 08:49:37 GMT',
                    'Sun, 30 Feb 1994 08:49:37 GMT', 'Sun, 06 Nov 1994 24:00:00 GMT', 'Sun, 06 Nov 1994 08:49:60 GMT',
                    'Sun, 00 Nov 1994 08:49:37 GMT', 'Sun, 06 Nov 0000 08:49:37 GMT', 'Sun, 06 Nov 94 08:49:37 GMT',
                    'Sunday, 06-Nov-94 08:49:37 EST', 'Sun Nov 6 08:49:37 1994', '784111777', 'Sun, 06 Nov 1994',
                    'Sun, 06 Nov 1994 08:49:37 GMT, Sun, 06 Nov 1994 08:49:37 GMT', 'Tue, 29 Feb 2000 23:59:59 GMT',
                    'Thu, 29 Feb 2001 23:59:59 GMT', 'Fri, 31 Dec 9999 23:59:59 GMT']
        bases += specials
        mut = bases[:3] if self.quick else bases[:len(ins) * 3]
        vals = G.with_mutants(bases, mut)
        # (value, which of Date / If-Modified-Since / If-Unmodified-Since carries it)
        return [(v, w) for v in vals for w in (0, 1, 2)], len(bases) * 3

    FIXED = ['Tue, 15 Nov 1994 12:45:26 GMT', 'Wed, 21 Oct 2015 07:28:00 GMT', 'Sat, 01 Jan 2000 00:00:01 GMT']
    HDRS = ['Date', 'If-Modified-Since', 'If-Unmodified-Since']
    PROPS = ['date', 'if_modified_since', 'if_unmodified_since']

    def case(self, vw, is_base):
        v, w = vw
        i = len(v)
        hs, reads = [], []
        for k in range(3):
            val = v if k == w else self.FIXED[k]
            hs.append((hname(self.HDRS[k], i), val))
            strict = O.http_date(val, False)
            obs = O.http_date(val, True)
            reads += [(self.PROPS[k], strict), ('hdt|%s|1' % self.HDRS[k], obs), ('hdt|%s|0' % self.HDRS[k].lower(), strict)]
        return Case(self.name, list(vw), {'headers': hs}, reads, O.http_date(v, True)[-1], is_base=is_base)


class FEtags(Family):
    name = 'etags'

    def values(self):
        t = self.n['tag']
        atoms = ['"%s"' % t, 'W/"%s"' % t, '""', '"%s,b"' % t, '*', '"\xe9"', 'w/"%s"' % t, t]
        d2 = G.lists(atoms, 2, [', ', ','])
        bases = list(d2)
        if not self.quick:
            bases = G.lists(atoms, 3, [', ', ','])
        specials = ['', ' ', ',', ' , ', '"%s" , W/"b"' % t, '"%s",,"b"' % t, ', "%s"' % t, '"%s" "b"' % t, '"a b"',
                    'W/', '"', 'W/*', '"%s"; q=1' % t, '\t"%s"\t' % t, '"W/"', '"x", "W/"']
        bases += specials
        if self.quick:
            mut = atoms + [a + ', ' + b for a in atoms[:4] for b in atoms[:4]]
        else:
            mut = d2 + specials
        vals = G.with_mutants(bases, mut)
        if not self.quick:
            vals = G.with_mutants2(vals, atoms[:3] + ['*'])
        out = [(v, w) for v in vals[:len(bases)] for w in (0, 1)]
        nb = len(out)
        # the same list sent as two header lines (the gateway / falcon must join them)
        for a in atoms:
            for b in atoms:
                if O.etags(a + ', ' + b) == O.etags(a + ',' + b):
                    out.append((a, 2, b))
                    out.append((a, 3, b))
        nb = len(out)
        out += [(v, w) for v in vals[len(bases):] for w in (0, 1)]
        return out, nb

    FIXED = ['W/"fixed-m"', '"fixed-n1", "fixed-n2"']

    def case(self, vw, is_base):
        v, w = vw[0], vw[1]
        i = len(v)
        if w >= 2:
            name = ('If-Match', 'If-None-Match')[w - 2]
            other = ('If-None-Match', 'If-Match')[w - 2]
            hs = [(name, v), (other, self.FIXED[3 - w]), (name, vw[2])]
            vals = {name: v + ', ' + vw[2], other: self.FIXED[3 - w]}
            vals = [vals['If-Match'], vals['If-None-Match']]
        else:
            vals = [v, self.FIXED[1]] if w == 0 else [self.FIXED[0], v]
            hs = [(hname('If-Match', i), vals[0]), (hname('If-None-Match', i), vals[1])]
        v0, v1 = O.etags(vals[0]), O.etags(vals[1])
        return Case(self.name, list(vw), {'headers': hs}, [('if_match', v0), ('if_none_match', v1)],
                    O.etags(v)[-1], is_base=is_base)


_DQ = []


def dquote_policy():
    """Which reading of a quoted cookie value this implementation applies ('strip' | 'keep'), observed once on the
    non-empty value "q" -- the statement leaves the choice open, not the consistency."""
    if not _DQ:
        seen = set()
        for stack in STACKS:
            try:
                seen.add(build({'headers': [('Cookie', 'probe="q"')]}, stack).cookies.get('probe'))
            except Exception:   # noqa: BLE001
                seen.add(None)
        _DQ.append('strip' if seen == {'q'} else ('keep' if seen == {'"q"'} else None))
    return _DQ[0]


class FCookies(Family):
    name = 'cookies'

    def values(self):
        a, b = self.n['ck1'], self.n['ck2']
        names = [a, b, a + ' ' + b, '']
        vals = ['1', '', '"q"', '""', 'x=y', '"p q"', 'p,q']
        pairs = [n + '=' + v for n in names for v in vals] + [a]
        bases = G.lists(pairs, 2, ['; ', ';'])
        good = [n + '=' + v for n in (a, b) for v in ('1', '"q"', '')]
        if not self.quick:
            bases += [s for s in G.lists(good, 3, ['; ']) if s.count(';') == 2]
        specials = ['', ' ', ';', '; ', a + '=1;', a + '=1; ', ' ' + a + '=1', a + ' = 1', a + '=1 ; ' + b + '=2',
                    a + '=1,' + b + '=2', a + '="\\"x\\""', a + '="\\101"', a + '=%22', a.upper() + '=1; ' + a + '=2',
                    '$Version=1; ' + a + '=1', a + '=1; ' + a + '=2; ' + a + '=3']
        bases += specials
        if self.quick:
            mut = pairs[:8] + [a + '=1; ' + b + '=2']
        else:
            ok = [n + '=' + v for n in (a, b) for v in vals]
            mut = pairs + [x + sep + y for x in ok for y in ok for sep in ('; ', ';')] + specials
        out = G.with_mutants(bases, mut)
        if not self.quick:
            out = G.with_mutants2(out, [a + '=1', a + '="q"'])
        return out, len(bases)

    def case(self, v, is_base):
        a, b = self.n['ck1'], self.n['ck2']
        vd = O.cookie_pairs(v, dquote_policy())
        if vd[0] == 'VALID':
            order, multi = [], {}
            for name, alts in vd[1]:
                if name not in multi:
                    order.append(name)
                    multi[name] = []
                multi[name].append(alts)
            # `cookies`: first value of every name; all combinations of the quoting alternatives
            firsts = [multi[n][0] for n in order]
            cookies_alts = tuple(('dict',) + tuple(sorted(zip(order, combo))) for combo in itertools.product(*firsts))
            reads = [('cookies', O.V(*cookies_alts))]
            for n in (a, b, 'zz'):
                if n in multi:
                    reads.append(('cookie|' + n, O.V(*[tuple(c) for c in itertools.product(*multi[n])])))
                else:
                    reads.append(('cookie|' + n, O.V(None)))
        else:
            reads = [('cookies', vd), ('cookie|' + a, vd), ('cookie|' + b, vd), ('cookie|zz', vd)]
        return Case(self.name, v, {'headers': [(hname('Cookie', len(v)), v)]}, reads, vd[-1], is_base=is_base)


DEFAULT_HOST = 'falconframework.org'
NETLOC_8080 = DEFAULT_HOST + ':8080'


def fwd_reads(v, scheme, netloc, remote, rel, root):
    """Expected reads for a Forwarded header value on a request with the given own scheme/netloc."""
    vd = O.forwarded(v)
    if vd[0] != 'VALID':
        return [(k, vd) for k in ('forwarded', 'access_route', 'forwarded_scheme', 'forwarded_host', 'forwarded_uri',
                                  'forwarded_prefix')], vd[-1]
    els = vd[1]
    f_lower = tuple(('fwd', e.get('for'), e.get('by'), e.get('host'), e['proto'].lower() if 'proto' in e else None)
                    for e in els)
    # proto is documented to be normalised to lower case (URI schemes are case-insensitive)
    reads = [('forwarded', O.V(f_lower))]
    cls = 'valid'
    # access route
    nodes, bad = [], None
    for e in els:
        if 'for' in e:
            nd = O.node(e['for'])
            if nd[0] != 'VALID':
                bad = nd
                break
            if nd[2] != 'valid':
                cls = nd[2]
            nodes.append(nd[1])
    if bad is not None:
        reads.append(('access_route', bad))
        cls = bad[-1]
    else:
        routes = []
        for combo in itertools.product(*nodes):
            r = list(combo)
            if not r or r[-1] != remote:
                r.append(remote)
            routes.append(tuple(r))
        reads.append(('access_route', O.V(*routes, cls=cls)))
    first = els[0]
    if first.get('proto'):
        schemes = (first['proto'].lower(),)
    else:
        schemes = (scheme,)
    hosts = (first['host'],) if first.get('host') else (netloc,)
    reads.append(('forwarded_scheme', O.V(*schemes)))
    reads.append(('forwarded_host', O.V(*hosts)))
    reads.append(('forwarded_uri', O.V(*[s + '://' + h + rel for s in schemes for h in hosts])))
    reads.append(('forwarded_prefix', O.V(*[s + '://' + h + root for s in schemes for h in hosts])))
    return reads, cls


class FForwarded(Family):
    name = 'forwarded'

    def values(self):
        n = self.n
        fors = ['for=%s' % n['v4'], 'for="[%s]"' % n['v6'], 'for="[%s]:8080"' % n['v6'], 'for="%s:8080"' % n['v4'],
                'for=unknown', 'for=%s' % n['obf'], 'for="%s:%s"' % (n['v4'], n['obfport']),
                'For="%s:%s"' % (n['obf'], n['obfport']), 'for=%s' % n['host'], 'for="a:b:c"']
        others = ['by=%s' % n['v4b'], 'proto=http', 'proto=HTTPS', 'host=%s' % n['host'], 'host="%s:8080"' % n['xhost'],
                  'foo=bar', 'x="a\\"b, c;d"']
        p = fors + others
        e2 = [a + ';' + b for a in p for b in p]
        bases = list(p)
        specials = ['', ',', ';', 'for=%s,,for=%s' % (n['v4'], n['v4b']), 'for=%s;;proto=http' % n['v4'],
                    ' for=%s ' % n['v4'], 'for = %s' % n['v4'], 'for=%s; proto=http' % n['v4'], 'for=%s,for=%s' % (n['v4'], n['v4b']),
                    'for="%s' % n['v4'], 'for=%s:' % n['v4'], 'for="%s:"' % n['v4'], 'for="%s:x"' % n['v4'],
                    'for="[%s]:"' % n['v6'], 'for="[%s]:_x"' % n['v6'], 'for="[%s"' % n['v6'], 'for=""', 'proto=""',
                    'host=""', 'for=%s;FOR=%s' % (n['v4'], n['v4b']), 'for=\xe9', 'for="\xe9"']
        bases += specials + e2 + [a + ', ' + b for a in p for b in p]
        if not self.quick:
            p8 = fors[:5] + others[:3]
            bases += [', '.join(t) for t in itertools.product(p8, repeat=3)]
            bases += [a + ', ' + b for a in e2[::3] for b in p8]
        if self.quick:
            mut = fors[:4] + fors[6:7] + others[1:2] + others[4:5]
        else:
            mut = p + specials + e2
        vals = G.with_mutants(bases, mut)
        nb = len(bases)
        # two Forwarded header lines (one element each): joined by the gateway (WSGI) / by falcon (ASGI)
        two = [(a, b) for a in p for b in p]
        return vals[:nb] + two + vals[nb:], nb + len(two)

    def case(self, v, is_base):
        remote = '127.0.0.1'
        if isinstance(v, (tuple, list)):
            lines = list(v)
            v = ', '.join(lines)
            hs = [('Forwarded', x) for x in lines]
        else:
            hs = [(hname('Forwarded', len(v)), v)]
        # a non-default port, so that host != netloc
        reads, cls = fwd_reads(v, 'http', NETLOC_8080, remote, '/', '')
        reads.append(('remote_addr', O.V(remote)))
        reads += [('scheme', O.V('http')), ('netloc', O.V(NETLOC_8080)), ('relative_uri', O.V('/')),
                  ('host', O.V(DEFAULT_HOST)), ('port', O.V(8080))]
        return Case(self.name, v if len(hs) == 1 else [x[1] for x in hs], {'headers': hs, 'port': 8080}, reads, cls,
                    compose=True, is_base=is_base)


class FXForwarded(Family):
    """Precedence among Forwarded / X-Forwarded-For / X-Real-IP / X-Forwarded-Proto / X-Forwarded-Host
    and the remote address: the full product of small alphabets (no mutants)."""
    name = 'x-forwarded'

    def values(self):
        n = self.n
        fwd = [None, 'for=%s' % n['ip1'], 'proto=https;host=%s' % n['xhost'], 'by=%s' % n['v4b'], '']
        xff = [None, n['ip1'], '%s, %s' % (n['ip1'], n['ip2']), '%s,%s' % (n['ip2'], n['ip1']), ' %s ' % n['ip1'], '']
        xfp = [None, 'https', 'HTTPS']
        xfh = [None, n['xhost'], '%s:8443' % n['xhost']]
        xri = [None, n['ip2']]
        remote = ['127.0.0.1', n['ip1'], None]
        schemes = ['http', 'https']
        vals = list(itertools.product(fwd, xff, xfp, xfh, xri, remote, schemes))
        return vals, len(vals)

    def case(self, v, is_base):
        fwd, xff, xfp, xfh, xri, remote, scheme = v
        hs = []
        for name, val in (('Forwarded', fwd), ('X-Forwarded-For', xff), ('X-Forwarded-Proto', xfp),
                          ('X-Forwarded-Host', xfh), ('X-Real-IP', xri)):
            if val is not None:
                hs.append((name, val))
        cfg = {'headers': hs, 'scheme': scheme, 'port': 8080}
        if remote is None:
            cfg['no_client'] = True
            rem = '127.0.0.1'
        else:
            cfg['remote_addr'] = rem = remote
        netloc = NETLOC_8080
        rel, root = '/', ''
        cls = 'valid'
        if fwd is not None:
            if fwd == '':
                # present but blank: no element -> own scheme / netloc / remote address
                # (an empty Forwarded value is not valid by RFC 7239: only the exception contract applies)
                reads = [('forwarded', SKIP), ('access_route', SKIP), ('forwarded_scheme', SKIP),
                         ('forwarded_host', SKIP)]
            else:
                reads, cls = fwd_reads(fwd, scheme, netloc, rem, rel, root)
                reads = [r for r in reads if r[0] not in ('forwarded_uri', 'forwarded_prefix')]
        else:
            reads = [('forwarded', O.V(None))]
            if xff is not None:
                items = [x.strip(' ') for x in xff.split(',')]
                if all(items):
                    r = list(items)
                    if r[-1] != rem:
                        r.append(rem)
                    reads.append(('access_route', O.V(tuple(r))))
                else:
                    reads.append(('access_route', SKIP))
            elif xri is not None:
                reads.append(('access_route', O.V((xri, rem) if xri != rem else (rem,))))
            else:
                reads.append(('access_route', O.V((rem,))))
            reads.append(('forwarded_scheme', O.V(xfp.lower()) if xfp is not None else O.V(scheme)))
            reads.append(('forwarded_host', O.V(xfh) if xfh is not None else O.V(netloc)))
        reads += [('remote_addr', O.V(rem)), ('scheme', O.V(scheme)), ('netloc', O.V(netloc)),
                  ('relative_uri', O.V(rel)), ('forwarded_uri', SKIP), ('forwarded_prefix', SKIP), ('uri', SKIP)]
        return Case(self.name, list(x for x in v), cfg, reads, cls, compose=True, is_base=is_base)


class FHost(Family):
    name = 'host'

    def values(self):
        n = self.n
        hosts = [n['host'], n['sub'], n['single'], n['v4'], '[%s]' % n['v6'], '[::1]', '']
        ports = ['', ':80', ':8080', ':443', ':', ':x', ':-1', ':08080', ':99999', ': 80', ':8080x']
        hp = [h + p for h in hosts for p in ports]
        specials = ['[::1', '::1', '::1]:80', '[::1]x', '[::1]80', 'a:80:90', 'a:b:c', 'exa mple.com', 'example.com.',
                    '.example.com', 'a..b', 'user@example.com', 'example.com:80/', '[v1.x]', '[::1]:' + '8' * 4301,
                    'xn--bcher-kva.example', 'EXAMPLE.com', 'a_b.example', 'host\xe9.example', '%41.example']
        bases = hp + specials
        if self.quick:
            mut = [n['host'] + ':8080', '[::1]:8080', n['v4'] + ':80', n['sub'], '[%s]' % n['v6'], n['single'] + ':']
        else:
            mut = hp + specials[:14]
        vals = G.with_mutants(bases, mut)
        if not self.quick:
            vals = G.with_mutants2(vals, [n['single'] + ':80', '[::1]:80'])
        out = []
        cfgs = [('http', '', '/', ''), ('https', '/app', '/a/b', 'x=1')]
        for i, v in enumerate(vals):
            base = i < len(bases)
            if base:
                for c in cfgs:
                    out.append((v,) + c)
            else:
                out.append((v,) + cfgs[i % 2])
        nb = len(bases) * 2
        # requests without a Host header: server name / port from the gateway
        for scheme in ('http', 'https'):
            for port in (80, 443, 8080):
                for c in cfgs:
                    out.insert(nb, (None, scheme, c[1], c[2], c[3], port))
                    nb += 1
            # ... and no server address either (ASGI: "server" missing / None => localhost, default port)
            for how in ('missing', 'none'):
                out.insert(nb, (None, scheme, '', '/', '', how))
                nb += 1
        # WebSocket handshakes (ASGI only): ws is the plain scheme (default port 80), wss the secure one (443)
        for scheme in ('ws', 'wss'):
            for hv in hp:
                out.append((hv,) + (scheme,) + cfgs[0][1:])
            for hv in hosts[:2]:
                out.append((hv,) + (scheme,) + cfgs[1][1:])
            for port in (80, 443, 8080):
                out.append((None, scheme, '', '/', '', port))
                out.append((None, scheme, '/app', '/a/b', 'x=1', port))
            for how in ('missing', 'none'):
                out.append((None, scheme, '', '/', '', how))
        return out, nb

    def case(self, v, is_base):
        hv, scheme, root, path, qs = v[:5]
        default = 80 if scheme in ('http', 'ws') else 443
        rel = root + path + ('?' + qs if qs else '')
        cfg = {'scheme': scheme, 'root_path': root, 'raw_path': path, 'query': qs, 'host': self.n['srv'],
               'port': default}
        if scheme in ('ws', 'wss'):
            cfg['ws'] = True
        if hv is None:
            sport = v[5]
            cfg['no_host'] = True
            srv = self.n['srv']
            if isinstance(sport, str):
                cfg['asgi_no_server'] = sport
                cfg['host'] = srv = 'localhost'
                sport = default
            cfg['port'] = sport
            host_alts, port, cls = (srv,), sport, 'no-host-header'
            netlocs = (srv if sport == default else '%s:%d' % (srv, sport),)
            kind = 'name'
            ok = True
        else:
            cfg['headers'] = [(hname('Host', len(hv)), hv)]
            vd = O.host_port(hv)
            ok = vd[0] == 'VALID'
            cls = vd[-1]
            if ok:
                host_alts = vd[1]
                port = vd[2] if vd[2] is not None else default
                netlocs = [hv]
                if vd[2] is None or vd[2] == default:
                    bare = hv[:hv.rfind(':')] if (hv.count(':') == 1 or hv.rfind(']:') >= 0) else hv
                    if bare not in netlocs:
                        netlocs.append(bare)
                kind = 'ip' if cls.endswith('ip') or hv.startswith('[') or O._IPV4.match(host_alts[0]) else 'name'
        if ok:
            reads = [('host', O.V(*host_alts, cls=cls)), ('port', O.V(port, cls=cls)), ('netloc', O.V(*netlocs, cls=cls))]
            if kind == 'name':
                h = host_alts[0]
                reads.append(('subdomain', O.V(h.partition('.')[0] if '.' in h else None, cls=cls)))
            else:
                reads.append(('subdomain', ('INVALID', cls)))
            reads += [('uri', O.V(*[scheme + '://' + nl + rel for nl in netlocs], cls=cls)),
                      ('url', O.V(*[scheme + '://' + nl + rel for nl in netlocs], cls=cls)),
                      ('prefix', O.V(*[scheme + '://' + nl + root for nl in netlocs], cls=cls)),
                      ('forwarded_host', O.V(*netlocs, cls=cls)),
                      ('forwarded_uri', O.V(*[scheme + '://' + nl + rel for nl in netlocs], cls=cls)),
                      ('forwarded_prefix', O.V(*[scheme + '://' + nl + root for nl in netlocs], cls=cls))]
        else:
            reads = [(k, vd) for k in ('host', 'port', 'netloc', 'subdomain', 'uri', 'url', 'prefix', 'forwarded_host',
                                       'forwarded_uri', 'forwarded_prefix')]
        reads += [('relative_uri', O.V(rel)), ('scheme', O.V(scheme)), ('root_path', O.V(root)),
                  ('forwarded_scheme', O.V(scheme))]
        return Case(self.name, list(v), cfg, reads, cls, compose=True, is_base=is_base)


class FAccept(Family):
    name = 'accept'
    CANDS = ['application/json', 'application/xml', 'application/x-msgpack', 'application/msgpack', 'text/plain']

    def values(self):
        ranges = ['application/json', 'application/xml', 'application/x-msgpack', 'application/msgpack', '*/*',
                  'application/*', 'text/plain', 'application/json;v=1']
        qs = ['', ';q=0', ';q=0.5']
        mem = [r + q for q in qs for r in ranges]
        bases = G.lists(mem, 2, [', ', ','])
        if not self.quick:
            m10 = ranges[:6] + [ranges[0] + ';q=0', ranges[4] + ';q=0', ranges[5] + ';q=0.5', ranges[1] + ';q=0.5']
            bases += [', '.join(t) for t in itertools.product(m10, repeat=3)]
        specials = ['', ' ', '*', 'application', 'application/json;q=1.0000', 'application/json;q=2',
                    'application/json;q=abc', 'application/json;q=', 'application/json; q=0.5', 'application/json ;q=0.5',
                    'APPLICATION/JSON', 'application/json;charset="a,b"', 'application/json;charset="a;b"',
                    'application/json,', ',application/json', 'application/json;;q=0', 'application/json;q=0;q=1']
        bases += specials
        mut = (ranges + mem[8:12] + mem[16:18]) if self.quick else (
            mem + specials + [a + sep + b for a in ranges for b in ranges for sep in (', ', ',')])
        return G.with_mutants(bases, mut), len(bases)

    def case(self, v, is_base):
        c = self.CANDS
        pref = [c[1], c[0]]
        if M.strictly_valid(v) and ('"' not in v or ',' not in v):
            q = [M.quality(x, v) for x in c]
            best = M.best_match(pref, v)
            reads = [('client_accepts_json', O.V(q[0] != 0.0)), ('client_accepts_xml', O.V(q[1] != 0.0)),
                     ('client_accepts_msgpack', O.V(q[2] != 0.0 or q[3] != 0.0)),
                     ('accepts|' + c[4], O.V(q[4] != 0.0)), ('prefers|' + '|'.join(pref), O.V(best or None)),
                     ('accept', O.V(v))]
            cls = 'valid'
        else:
            cls = 'quoted-comma' if M.strictly_valid(v) else 'invalid'
            vd = ('INVALID', cls)
            reads = [(k, vd) for k in ('client_accepts_json', 'client_accepts_xml', 'client_accepts_msgpack',
                                       'accepts|' + c[4], 'prefers|' + '|'.join(pref))]
            reads.append(('accept', O.V(v) if v else vd))
        return Case(self.name, v, {'headers': [(hname('Accept', len(v)), v)]}, reads, cls, is_base=is_base)


FAMILIES = [FContentLength, FRange, FDates, FEtags, FCookies, FForwarded, FXForwarded, FHost, FAccept]
FAM_BY_NAME = {f.name: f for f in FAMILIES}

_vals_memo = {}


def family_values(name, tier, seed):
    k = (name, tier, seed)
    if k not in _vals_memo:
        fam = FAM_BY_NAME[name](tier, seed)
        vals, nb = fam.values()
        _vals_memo[k] = (fam, vals, nb)
    return _vals_memo[k]


def run_enum_shard(shard, rep):
    _, name, tier, seed, start, stop = shard
    fam, vals, nb = family_values(name, tier, seed)
    apps = Apps()
    for i in range(start, stop):
        v = vals[i]
        case = fam.case(v, i < nb)
        run_case(case, rep, apps)
    rep.parts.setdefault('families', {})
    rep.parts['families'][name] = rep.parts['families'].get(name, 0) + (stop - start)
    if start == 0:
        rep.sample({'family': name, 'first_values': [vals[j] if isinstance(vals[j], str) else list(vals[j])
                                                      for j in range(min(3, len(vals)))]})


# ---------------------------------------------------------------------------
# header-name lookup
# ---------------------------------------------------------------------------
def casings(name):
    alt = ''.join(c.upper() if i % 2 else c.lower() for i, c in enumerate(name))
    return [name, name.lower(), name.upper(), alt]


def lookup_viol(rep, stack, what, sent, asked, exp, got, kind='lookup'):
    rep.violation({'family': 'lookup', 'accessor': what, 'stack': stack, 'kind': kind, 'exc': '-', 'input': 'valid'},
                  {'family': 'lookup'},
                  '%s header sent as %r, %s(%r): expected %r, falcon gave %r' % (stack, sent, what, asked, exp, got))


def run_lookup(shard, rep):
    sent = [('Content-Type', 'text/plain'), ('Content-Length', '3'), ('Accept', 'a/b'), ('X-Custom-Header', 'v1'),
            ('Cookie', 'k=v'), ('If-Match', '"x"'), ('x-lower', 'v2'), ('X-UPPER-CASE', 'v3'), ('Range', 'bytes=1-2'),
            ('If-Modified-Since', 'Sun, 06 Nov 1994 08:49:37 GMT'), ('Forwarded', 'for=1.2.3.4')]
    when = ('dt', 1994, 11, 6, 8, 49, 37, 0, 0)
    typed = [('content_type', 'text/plain'), ('content_length', 3), ('accept', 'a/b'), ('if_match', (('x', False),)),
             ('cookies', ('dict', ('k', 'v'))), ('range', (1, 2)), ('range_unit', 'bytes'), ('if_modified_since', when),
             ('access_route', ('1.2.3.4', '127.0.0.1'))]
    for ci in range(4):
        hs = [(casings(n)[ci], v) for n, v in sent]
        for stack in STACKS:
            req = build({'headers': hs}, stack)
            rep.state()
            for n, v in sent:
                for asked in casings(n):
                    got = observe(lambda r: r.get_header(asked), req)
                    rep.trans()
                    if got != ('V', v):
                        lookup_viol(rep, stack, 'get_header', casings(n)[ci], asked, v, got)
                    got = observe(lambda r: r.get_header(asked, required=True, default='zz'), req)
                    rep.trans()
                    if got != ('V', v):
                        lookup_viol(rep, stack, 'get_header', casings(n)[ci], asked, v, got)
            for asked in casings('X-Missing'):
                got = observe(lambda r: r.get_header(asked), req)
                if got != ('V', None):
                    lookup_viol(rep, stack, 'get_header', None, asked, None, got)
                got = observe(lambda r: r.get_header(asked, default='dflt'), req)
                if got != ('V', 'dflt'):
                    lookup_viol(rep, stack, 'get_header', None, asked, 'dflt', got)
                got = observe(lambda r: r.get_header(asked, required=True), req)
                rep.trans(3)
                if got[0] != 'H' or not 400 <= got[1] < 500:
                    lookup_viol(rep, stack, 'get_header', None, asked, 'HTTP 4xx (required header missing)', got)
            for asked in casings('Content-Length'):
                got = observe(lambda r: r.get_header_as_int(asked), req)
                if got != ('V', 3):
                    lookup_viol(rep, stack, 'get_header_as_int', casings('Content-Length')[ci], asked, 3, got)
            for asked in casings('If-Modified-Since'):
                got = observe(lambda r: r.get_header_as_datetime(asked), req)
                rep.trans(2)
                if got != ('V', when):
                    lookup_viol(rep, stack, 'get_header_as_datetime', casings('If-Modified-Since')[ci], asked, when, got)
            for acc, exp in typed:
                got = observe(accessor(acc), req)
                rep.trans()
                if got != ('V', exp):
                    lookup_viol(rep, stack, acc, 'all headers in casing #%d' % ci, acc, exp, got)
            want = {n.lower(): v for n, v in sent}
            want['host'] = DEFAULT_HOST
            low = observe(lambda r: dict(r.headers_lower), req)
            hd = observe(lambda r: {k.lower(): v for k, v in r.headers.items()}, req)
            rep.trans(2)
            exp = snap(want)
            if low != ('V', exp):
                lookup_viol(rep, stack, 'headers_lower', 'casing #%d' % ci, '-', exp, low)
            if hd != ('V', exp):
                lookup_viol(rep, stack, 'headers', 'casing #%d' % ci, '-', exp, hd)
            rep.trace()
    # more distinct spellings than the ASGI name cache holds (64): every one must still resolve
    name = 'X-Custom-Header'
    letters = [i for i, c in enumerate(name) if c.isalpha()]
    spellings = []
    for mask in range(96):
        s = list(name.lower())
        for b, pos in enumerate(letters[:7]):
            if mask >> b & 1:
                s[pos] = s[pos].upper()
        spellings.append(''.join(s))
    for stack in STACKS:
        req = build({'headers': [(name, 'v1'), ('X-Other', 'o')]}, stack)
        for rnd in range(2):
            for s in spellings:
                got = observe(lambda r: r.get_header(s), req)
                rep.trans()
                if got != ('V', 'v1'):
                    lookup_viol(rep, stack, 'get_header', name, s, 'v1', got, kind='lookup-after-many-names')
            for s in casings('X-Other') + casings('Host'):
                got = observe(lambda r: r.get_header(s), req)
                exp = 'o' if s.lower() == 'x-other' else DEFAULT_HOST
                rep.trans()
                if got != ('V', exp):
                    lookup_viol(rep, stack, 'get_header', s, s, exp, got, kind='lookup-after-many-names')
        rep.trace()
    rep.parts.setdefault('families', {})['lookup'] = 1


# ---------------------------------------------------------------------------
# response API -> request API round trip
# ---------------------------------------------------------------------------
def rt_viol(rep, stack, what, wrote, header, exp, got):
    rep.violation({'family': 'round-trip', 'accessor': what, 'stack': stack, 'kind': 'round-trip', 'exc': '-',
                   'input': 'valid'}, {'family': 'round-trip'},
                  '%s: wrote %r, header %r, read back %r, expected %r' % (what, wrote, header, got, exp))


class RTResource:
    def __init__(self):
        self.write = None
        self.seen = None

    def on_get(self, req, resp):
        self._do(req, resp)

    def _do(self, req, resp):
        w = self.write
        if w is not None:
            if w[0] == 'etag':
                resp.etag = w[1]
            elif w[0] == 'last_modified':
                resp.last_modified = w[1]
            else:
                resp.expires = w[1]
        self.seen = (snap(req.if_none_match), snap(req.if_match), snap(req.if_modified_since),
                     snap(req.if_unmodified_since), snap(req.date))


class RTResourceAsync(RTResource):
    async def on_get(self, req, resp):
        self._do(req, resp)


def run_roundtrip(shard, rep):
    seed = shard[3]
    tier = shard[2]
    moments = list(instants(seed))
    years = (1970, 1999, 2000, 2024, 2038, 9999)
    for y in years:
        moments.append(datetime.datetime(y, 12, 31, 23, 59, 59))
        moments.append(datetime.datetime(y, 1, 1, 0, 0, 0))
    if tier != 'quick':
        for m in range(1, 13):
            for d in range(1, 29):
                moments.append(datetime.datetime(2023 + seed % 3, m, d, d % 24, (m * d) % 60, (m + d) % 60))
    wres, ares = RTResource(), RTResourceAsync()
    wapp = falcon.App()
    wapp.add_route('/', wres)
    aapp = falcon.asgi.App()
    aapp.add_route('/', ares)
    for t in moments:
        exp = ('dt', t.year, t.month, t.day, t.hour, t.minute, t.second, 0, 0)
        for aware in (False, True):
            w = t.replace(tzinfo=UTC) if aware else t
            rep.state()
            for attr in ('last_modified', 'expires'):
                for stack, cls in (('wsgi', falcon.Response), ('asgi', falcon.asgi.Response)):
                    resp = cls()
                    setattr(resp, attr, w)
                    h = resp.get_header('Last-Modified' if attr == 'last_modified' else 'Expires')
                    req = build({'headers': [('If-Modified-Since', h), ('If-Unmodified-Since', h), ('Date', h)]}, stack)
                    for acc in ('if_modified_since', 'if_unmodified_since', 'date', 'hdt|Date|1'):
                        got = observe(accessor(acc), req)
                        rep.trans()
                        if got != ('V', exp):
                            rt_viol(rep, stack, 'resp.%s -> req.%s' % (attr, acc), w, h, exp, got)
            # through the apps: response of request 1 feeds the headers of request 2
            for stack, app, res_ in (('wsgi', wapp, wres), ('asgi', aapp, ares)):
                res_.write = ('last_modified', w)
                drv = wdrv if stack == 'wsgi' else adrv
                r1 = drv.call(app)
                h = r1.get('Last-Modified')
                res_.write = None
                res_.seen = None
                r2 = drv.call(app, headers=[('If-Modified-Since', h or ''), ('If-Unmodified-Since', h or ''),
                                             ('Date', h or '')])
                rep.trans(2)
                if r1.exc or r2.exc or r1.code != 200 or r2.code != 200 or res_.seen is None or res_.seen[2:] != (exp, exp, exp):
                    rt_viol(rep, stack, 'app: resp.last_modified -> req.if_modified_since', w, h, exp,
                            (r1.code, r2.code, res_.seen, r1.exc, r2.exc))
            rep.trace()
    tag = G.names(seed)['tag']
    opaque = [tag, tag + ',b', 'a' * 40, '!#$%&\'()*+-./:;<=>?@[]^_`{|}~', '\xe9', 'W/', '0', 'x' + tag + '/y']
    for o in opaque:
        for weak in (False, True):
            e = ETag(o)
            e.is_weak = weak
            written = [e.dumps()]
            if not weak:
                written.append(o)        # documented: "wrapped with double quotes in case the user didn't pass it"
            exp = ((o, weak),)
            rep.state()
            # ETag.loads(dumps())
            back = ETag.loads(e.dumps())
            rep.trans()
            if snap(back) != (o, weak):
                rt_viol(rep, '-', 'ETag.dumps -> ETag.loads', (o, weak), e.dumps(), (o, weak), snap(back))
            for wv in written:
                for stack, cls in (('wsgi', falcon.Response), ('asgi', falcon.asgi.Response)):
                    resp = cls()
                    resp.etag = wv
                    h = resp.get_header('ETag')
                    req = build({'headers': [('If-None-Match', h), ('If-Match', h + ', ' + h)]}, stack)
                    got = observe(accessor('if_none_match'), req)
                    got2 = observe(accessor('if_match'), req)
                    rep.trans(2)
                    if got != ('V', exp):
                        rt_viol(rep, stack, 'resp.etag -> req.if_none_match', wv, h, exp, got)
                    if got2 != ('V', exp + exp):
                        rt_viol(rep, stack, 'resp.etag -> req.if_match (list of two)', wv, h, exp + exp, got2)
                for stack, app, res_ in (('wsgi', wapp, wres), ('asgi', aapp, ares)):
                    res_.write = ('etag', wv)
                    drv = wdrv if stack == 'wsgi' else adrv
                    r1 = drv.call(app)
                    h = r1.get('ETag')
                    res_.write = None
                    res_.seen = None
                    r2 = drv.call(app, headers=[('If-None-Match', h or ''), ('If-Match', h or '')])
                    rep.trans(2)
                    if r1.exc or r2.exc or r1.code != 200 or r2.code != 200 or res_.seen is None or res_.seen[:2] != (exp, exp):
                        rt_viol(rep, stack, 'app: resp.etag -> req.if_none_match', wv, h, exp,
                                (r1.code, r2.code, res_.seen and res_.seen[:2], r1.exc, r2.exc))
            rep.trace()
    rep.parts.setdefault('families', {})['round-trip'] = len(moments) * 2 + len(opaque) * 2


def run_shard(shard, rep):
    if shard[0] == 'enum':
        run_enum_shard(shard, rep)
    elif shard[0] == 'lookup':
        run_lookup(shard, rep)
    else:
        run_roundtrip(shard, rep)


def check(rep):
    counts = {}
    shards = [('lookup', None, rep.tier, rep.seed), ('roundtrip', None, rep.tier, rep.seed)]
    per = 1500 if rep.tier == 'quick' else 4000
    plan = []
    for f in FAMILIES:
        fam, vals, nb = family_values(f.name, rep.tier, rep.seed)
        counts[f.name] = {'values': len(vals), 'base_values': nb, 'mutants': len(vals) - nb}
        plan.append((f.name, len(vals), nb))
    # base values of every family first (simplest first), then the mutants
    for name, n, nb in plan:
        for s in range(0, nb, per):
            shards.append(('enum', name, rep.tier, rep.seed, s, min(nb, s + per)))
    for name, n, nb in plan:
        for s in range(nb, n, per):
            shards.append(('enum', name, rep.tier, rep.seed, s, min(n, s + per)))
    rep.bounds = {'families': counts, 'total_values': sum(c['values'] for c in counts.values()),
                  'stacks': list(STACKS), 'mutation_alphabet': G.SUBS,
                  'reads_per_value': 'every accessor of the family twice on one Request and once, in reverse order, '
                                     'on a fresh Request; base values also through falcon.App / falcon.asgi.App'}
    rep.rule = ('every generated header value x {WSGI, ASGI}: accessor results compared with the RFC oracle '
                '(VALID => exact value; INVALID => value or 4xx; never another exception), repeat and fresh reads equal, '
                'URL compositions equal their parts; non-trivial = distinct values the oracle calls VALID for which an '
                'accessor returned a parsed (non-None) value that was compared exactly')
    rep.assumptions = [
        'pure-Python falcon imported from the working tree',
        'header names reach falcon upper-cased (WSGI) / lower-cased (ASGI) as the gateway specs require; the 3 sent casings '
        'are normalised by the drivers, the 4 lookup casings are seen by falcon',
        'dates: the properties support IMF-fixdate only (documented); the obsolete formats are VALID only with obs_date=True; '
        'rfc850 two-digit years may resolve to either century',
        'Range: only a single range is supported (documented): multi-range and suffix-length 0 count as INVALID',
        'quoted cookie values: with or without the DQUOTEs, but ONE reading for all of them (observed on a non-empty value); IPv6 hosts: with or without brackets; proto: lower-cased or as sent',
        'a comma inside a quoted Accept parameter is C11 territory and is treated as unspecified here',
        'response round trip: years >= 1970, second precision, naive or UTC-aware datetimes',
    ]
    par.run_shards(run_shard, shards, rep)


def replay(rec):
    from mc.core.report import Report
    rep = Report('C09')
    fam = rec.get('family')
    if fam == 'lookup':
        run_lookup(('lookup', None, 'quick', 0), rep)
    elif fam == 'round-trip':
        run_roundtrip(('roundtrip', None, 'quick', 0), rep)
    else:
        f = FAM_BY_NAME[fam](rec.get('tier', 'quick'), rec.get('seed', 0))
        v = rec['value']
        if isinstance(v, list):
            v = tuple(v)
        case = f.case(v, True)
        run_case(case, rep, Apps())
    v = list(rep.viol.values())
    return {'violation': bool(v), 'details': [x['explain'] for x in v][:20]}
