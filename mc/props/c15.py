"""C15 -- response headers act as a case-insensitive map; cookies get separate lines.

Engines: SEQ (mc.core.seq.bfs, merged on the complete state) over header/cookie
operation histories; ENUM for cookie attributes, cookie values and URI-helper strings.
Everything runs inside a real request on falcon.App (WSGI) and falcon.asgi.App, the
header list is the one the spec drivers receive.

Part A  histories (depth <=3 quick, <=4 thorough) over 74 operations:
  set_header / append_header (5 names in mixed case x 2 values, one latin-1), delete_header,
  set_headers (dict, pairs, pairs with a repeated name), the typed properties content_type,
  cache_control, etag, location, vary, content_length, downloadable_as (set, set falsy, set None, del),
  append_link, set_cookie (2 names x 2 attribute profiles), unset_cookie, append_header
  ('Set-Cookie' in 2 casings), and get/set/delete/set_headers on Set-Cookie in 2 casings.
  After the last operation: its outcome, resp.headers, get_header in 3 casings for the 11
  header names in play, the 7 typed properties; then the emitted header list of both stacks.
  Oracle: c15_model.HeaderModel (dict keyed by lower-cased name + raw list + jar):
  every plain header exactly once, lower-case bytes names on ASGI, one Set-Cookie line per
  raw line and per cookie in the jar with exactly the requested attributes (RFC 6265
  reader), an unset cookie empty, expired as a user agent computes it (Max-Age before
  Expires) and carrying the requested SameSite/Domain/Path, HeaderNotSupported for every
  plain call on Set-Cookie.
Part B  cookies: full product expires {none, naive, aware +02:00} x max_age {none, 0, 5, 5.7,
  '9', '0'} x domain x path x secure {None, True, False} x http_only x same_site {none, 'Lax',
  'STRICT', 'none'} x partitioned x secure_cookies_by_default (13 824 cookies per stack);
  unset_cookie variants; all values of length <=3 over {a, SP, ", ;, ',', \\, =} echoed in a
  Cookie header and read with req.cookies / get_cookie_values; legal and illegal names;
  non-ASCII refused with the documented KeyError / ValueError.
Part C  URI-bearing helpers: all strings of length 1..3 over {a, SP, e-acute, U+1F600, /, ?, #}
  plus percent-sign cases through location, content_location, append_link (target, anchor,
  title*), downloadable_as, viewable_as: emitted value is ASCII, decodes (independent
  RFC 3986 decoder) to the original; well-formed escaped input is left unchanged.
"""
import datetime
import itertools

from mc.core import par, seq
from mc.drivers import asgi as asgi_drv
from mc.drivers import wsgi as wsgi_drv
from mc.props import c15_model as M

import falcon
import falcon.asgi
from falcon.errors import HeaderNotSupported

# ---------------------------------------------------------------------------
# applications
# ---------------------------------------------------------------------------


class _Holder:
    fn = None


class _WsgiResource:
    def on_get(self, req, resp):
        _Holder.fn(req, resp)


class _AsgiResource:
    async def on_get(self, req, resp):
        _Holder.fn(req, resp)


_APPS = {}


def get_app(stack, secure_default=True):
    k = (stack, secure_default)
    if k not in _APPS:
        if stack == 'wsgi':
            app = falcon.App(media_type=M.DEFAULT_CT)
            app.add_route('/', _WsgiResource())
        else:
            app = falcon.asgi.App(media_type=M.DEFAULT_CT)
            app.add_route('/', _AsgiResource())
        app.resp_options.secure_cookies_by_default = secure_default
        _APPS[k] = app
    return _APPS[k]


def drive(stack, fn, secure_default=True, headers=()):
    _Holder.fn = fn
    try:
        if stack == 'wsgi':
            return wsgi_drv.call(get_app(stack, secure_default), headers=list(headers))
        return asgi_drv.call(get_app(stack, secure_default), headers=list(headers))
    finally:
        _Holder.fn = None


STACKS = ('wsgi', 'asgi')

# ---------------------------------------------------------------------------
# Part A: operations
# ---------------------------------------------------------------------------
NAMES = ('X-A', 'x-a', 'X-B', 'Content-Type', 'Vary', 'LiNk')    # Link: also written by append_link()
PROP_HEADER = {'content_type': 'content-type', 'cache_control': 'cache-control', 'etag': 'etag',
               'location': 'location', 'vary': 'vary', 'content_length': 'content-length',
               'downloadable_as': 'content-disposition'}
OBSERVED = ('x-a', 'x-b', 'content-type', 'vary', 'cache-control', 'etag', 'location', 'content-length',
            'content-disposition', 'link', 'x-never')
SC_CASINGS = ('Set-Cookie', 'set-cookie')
COOKIE_PROFILES = ({}, {'max_age': 60, 'secure': False, 'http_only': False, 'path': '/p'},
                   # every attribute the API knows, so that a re-issue with profile 0 must drop each of them
                   {'max_age': 5, 'domain': 'ex.org', 'path': '/q', 'same_site': 'Strict', 'partitioned': True,
                    'expires': datetime.datetime(2031, 1, 2, 3, 4, 5)})


class Alphabet:
    def __init__(self, seed):
        self.vals = ('v%d' % seed, '\xe9;w=%d, z' % seed)
        self.cookies = ('ck%da' % seed, 'ck%db' % seed)
        self.props = {
            'content_type': ('text/x%d' % seed, None),
            'cache_control': (['a', 'b%d' % seed], None),
            'etag': ('e%d' % seed, 'W/"w"', None),
            'location': ('/p q%d' % seed, None),
            'vary': (['A', 'B%d' % seed], ('C',), [], None),
            'content_length': (15 + seed, '7', 0, None),
            'downloadable_as': ('f%d.txt' % seed, None),
        }
        self.links = (('/l%d' % seed, 'next'), ('/l 2', 'prev'))
        self.bulk = (
            ('dict', (('X-A', self.vals[0]), ('x-b', self.vals[1]))),
            ('pairs', (('X-A', self.vals[0]), ('x-a', self.vals[1]))),
            ('pairs', (('Vary', self.vals[1]), ('CONTENT-TYPE', self.vals[0]))),
        )
        ops = []
        for n in NAMES:
            for i in range(2):
                ops.append(('set', n, i))
        for n in NAMES:
            for i in range(2):
                ops.append(('append', n, i))
        for n in NAMES:
            ops.append(('delete', n))
        for i in range(len(self.bulk)):
            ops.append(('bulk', i))
        for p, vs in self.props.items():
            for i in range(len(vs)):
                ops.append(('prop', p, i))
        for p in self.props:
            ops.append(('delprop', p))
        for i in range(len(self.links)):
            ops.append(('link', i))
        for c in range(2):
            for pr in range(len(COOKIE_PROFILES)):
                ops.append(('set_cookie', c, pr))
        for c in range(2):
            ops.append(('unset_cookie', c))
        for i, casing in enumerate(SC_CASINGS):
            ops.append(('append_raw', casing, i))
        for casing in SC_CASINGS:
            for m in ('get', 'set', 'delete', 'bulk_pairs', 'bulk_dict'):
                ops.append(('guard', m, casing))
        self.ops = tuple(ops)


def model_transform(alpha, prop, value):
    if prop in ('cache_control', 'vary'):
        return ', '.join(value)
    if prop == 'etag':
        return value if value.endswith('"') else '"' + value + '"'
    if prop == 'location':
        return M.ref_encode(value)
    if prop == 'downloadable_as':
        return 'attachment; filename="%s"' % value
    return str(value)


def apply_model(alpha, m, op):
    """-> outcome: 'ok' | 'NotSupported'"""
    try:
        k = op[0]
        if k == 'set':
            m.set(op[1], alpha.vals[op[2]])
        elif k == 'append':
            m.append(op[1], alpha.vals[op[2]])
        elif k == 'delete':
            m.delete(op[1])
        elif k == 'bulk':
            m.set_many(alpha.bulk[op[1]][1])
        elif k == 'prop':
            v = alpha.props[op[1]][op[2]]
            if v is None:
                m.delete(PROP_HEADER[op[1]])
            else:
                m.set(PROP_HEADER[op[1]], model_transform(alpha, op[1], v))
        elif k == 'delprop':
            m.delete(PROP_HEADER[op[1]])
        elif k == 'link':
            t, rel = alpha.links[op[1]]
            m.append('Link', '<%s>; rel=%s' % (M.ref_encode(t), rel))
        elif k == 'set_cookie':
            m.set_cookie(alpha.cookies[op[1]], 'val%d' % op[2], COOKIE_PROFILES[op[2]])
        elif k == 'unset_cookie':
            m.unset_cookie(alpha.cookies[op[1]], {})
        elif k == 'append_raw':
            m.append(op[1], 'r%d=1; Path=/' % op[2])
        elif k == 'guard':
            meth = op[1]
            if meth == 'get':
                m.get(op[2])
            elif meth == 'set':
                m.set(op[2], 'x=1')
            elif meth == 'delete':
                m.delete(op[2])
            else:
                m.set_many([(op[2], 'x=1')])
        else:
            raise AssertionError(op)
    except M.NotSupported:
        return 'NotSupported'
    return 'ok'


def apply_impl(alpha, resp, op):
    try:
        k = op[0]
        if k == 'set':
            resp.set_header(op[1], alpha.vals[op[2]])
        elif k == 'append':
            resp.append_header(op[1], alpha.vals[op[2]])
        elif k == 'delete':
            resp.delete_header(op[1])
        elif k == 'bulk':
            form, pairs = alpha.bulk[op[1]]
            resp.set_headers(dict(pairs) if form == 'dict' else list(pairs))
        elif k == 'prop':
            setattr(resp, op[1], alpha.props[op[1]][op[2]])
        elif k == 'delprop':
            delattr(resp, op[1])
        elif k == 'link':
            t, rel = alpha.links[op[1]]
            resp.append_link(t, rel)
        elif k == 'set_cookie':
            resp.set_cookie(alpha.cookies[op[1]], 'val%d' % op[2], **COOKIE_PROFILES[op[2]])
        elif k == 'unset_cookie':
            resp.unset_cookie(alpha.cookies[op[1]])
        elif k == 'append_raw':
            resp.append_header(op[1], 'r%d=1; Path=/' % op[2])
        elif k == 'guard':
            meth = op[1]
            if meth == 'get':
                resp.get_header(op[2])
            elif meth == 'set':
                resp.set_header(op[2], 'x=1')
            elif meth == 'delete':
                resp.delete_header(op[2])
            elif meth == 'bulk_pairs':
                resp.set_headers([(op[2], 'x=1')])
            else:
                resp.set_headers({op[2]: 'x=1'})
        else:
            raise AssertionError(op)
    except HeaderNotSupported:
        return 'NotSupported'
    except Exception as e:  # noqa
        return 'EXC:' + type(e).__name__
    return 'ok'


def casings(lname):
    return (lname, lname.upper(), lname.title())


def impl_state(resp):
    """Complete mutable header/cookie state of the Response (generic for the jar)."""
    jar = resp._cookies
    jar_state = None
    if jar is not None:
        jar_state = tuple((k, m.key, m.value, m.coded_value, tuple(sorted((a, repr(v)) for a, v in m.items() if v != '')))
                          for k, m in jar.items())
    extra = getattr(resp, '__dict__', {})
    return (tuple(resp._headers.items()), tuple(resp._extra_headers or ()), jar_state,
            tuple(sorted((k, repr(v)) for k, v in extra.items())))


def observe(resp):
    gets = {}
    for ln in OBSERVED:
        gets[ln] = tuple(resp.get_header(c) for c in casings(ln))
    props = {p: getattr(resp, p) for p in PROP_HEADER}
    return {'headers': resp.headers, 'gets': gets, 'props': props, 'dflt': resp.get_header('X-Never', 'dflt'),
            'state': impl_state(resp)}


def run_history(alpha, stack, hist):
    box = {}

    def fn(req, resp):
        box['results'] = [apply_impl(alpha, resp, op) for op in hist]
        box['obs'] = observe(resp)
    res = drive(stack, fn)
    return box, res


def judge_emitted(stack, res, m, now):
    """Compare the header list the server received with the model.  -> list of (kind, detail, msg)"""
    out = []
    if res.exc is not None:
        return [('exception-escaped', type(res.exc).__name__, 'escaped the app: %r' % (res.exc,))]
    for p in res.problems:
        out.append(('protocol', ''.join(c for c in p if c.isalpha() or c == ' ')[:40].strip(), 'protocol monitor: ' + p))
    pairs = res.header_multi()
    plain = [(n, v) for n, v in pairs if n != 'set-cookie' and n != 'content-length']
    names = [n for n, _ in plain]
    if len(names) != len(set(names)):
        out.append(('plain-duplicated', '', 'a plain header is emitted more than once: %r' % (plain,)))
    want = {k: v for k, v in m.plain.items() if k != 'content-length'}
    got = dict(plain)
    if 'content-type' not in want:
        got.pop('content-type', None)         # the framework's default media type (C05's business)
    if got != want:
        out.append(('emitted-plain', '', 'model map %r, server received %r' % (want, got)))
    if stack == 'asgi':
        for n, v in res.headers or []:
            if type(n) is not bytes or n != n.lower():
                out.append(('asgi-name-case', '', 'ASGI header name %r' % (n,)))
    lines = [v for n, v in pairs if n == 'set-cookie']
    out.extend(judge_cookie_lines(lines, m, True, now))
    return out


def judge_cookie_lines(lines, m, secure_default, now):
    out = []
    lines = list(lines)
    total = len(m.raw) + len(m.jar)
    if len(lines) != total:
        out.append(('set-cookie-count', '', 'expected %d Set-Cookie lines (%d raw + %d cookies), got %r'
                    % (total, len(m.raw), len(m.jar), lines)))
        return out
    for r in m.raw:
        if r in lines:
            lines.remove(r)
        else:
            out.append(('raw-cookie-lost', '', 'raw Set-Cookie %r not among %r' % (r, lines)))
    parsed = [M.parse_set_cookie(x) for x in lines]
    for name, (kind, value, spec) in m.jar.items():
        mine = [p for p in parsed if p is not None and p[0] == name]
        if len(mine) != 1:
            out.append(('cookie-line', kind, 'cookie %r: %d lines among %r' % (name, len(mine), lines)))
            continue
        _, raw, attrs = mine[0]
        if not M.cookie_value_matches(raw, value):
            out.append(('cookie-value', kind, 'cookie %r: value %r emitted as %r' % (name, value, raw)))
        if kind == 'set':
            d = M.attrs_diff(attrs, M.expected_cookie_attrs(spec, secure_default))
            if d:
                out.append(('cookie-attrs', 'set:' + d, 'cookie %r written with %r carries %r' % (name, spec, attrs)))
        else:
            out.extend(judge_unset(name, attrs, spec, now))
    return out


def judge_unset(name, attrs, spec, now):
    out = []
    attrs = dict(attrs)
    exp = attrs.pop('expires', None)
    ma = attrs.pop('max-age', None)
    expired = False
    if ma is not None:
        # Max-Age takes precedence over Expires (RFC 6265, 5.3 step 3)
        try:
            expired = int(ma) <= 0
        except ValueError:
            expired = False
    elif exp is not None:
        dt = M.parse_http_date(exp)
        expired = dt is not None and dt < now
    if not expired:
        out.append(('unset-not-expired', 'max-age' if ma is not None else 'expires',
                    'unset cookie %r is not expired for a user agent: Expires=%r Max-Age=%r' % (name, exp, ma)))
    # The statement asks of an unset cookie that it is expired; what unset_cookie() was asked to
    # put on it (SameSite, Domain, Path) must be there.  Flags or scope left over from an earlier
    # set_cookie() of the same name are not judged (the project's own tests expect HttpOnly/Secure
    # to survive), only a left-over Max-Age is -- above, because it un-expires the cookie.
    want = {'samesite': (spec.get('samesite') or 'Lax')}
    if spec.get('domain'):
        want['domain'] = spec['domain']
    if spec.get('path'):
        want['path'] = spec['path']
    got = {k: v for k, v in attrs.items() if k in want}
    d = M.attrs_diff(got, want)
    if d:
        out.append(('cookie-attrs', 'unset:' + d, 'unset cookie %r carries %r, requested %r' % (name, attrs, want)))
    return out


def utcnow():
    """Read AFTER the response was emitted: an expiry stamped before that instant is in the past."""
    return datetime.datetime.now(datetime.timezone.utc).replace(tzinfo=None)


class State:
    __slots__ = ('hist', 'model', 'impl')


class HistoryHarness:
    def __init__(self, alpha, rep, prefix=()):
        self.alpha = alpha
        self.rep = rep
        self.prefix = tuple(prefix)

    def fresh(self):
        s = State()
        s.hist = ()
        s.model = M.HeaderModel()
        s.impl = None
        for op in self.prefix:
            self.replay(s, op)
        return s

    def ops(self, s):
        out = []
        for op in self.alpha.ops:
            if op[0] == 'delprop' and PROP_HEADER[op[1]] not in s.model.plain:
                continue          # `del resp.prop` on an absent header is unspecified
            out.append(op)
        return out

    def replay(self, s, op):
        apply_model(self.alpha, s.model, op)
        s.hist = s.hist + (op,)

    def canon(self, s):
        return (s.impl, s.model.key())

    def step(self, s, op, hist):
        want_res = apply_model(self.alpha, s.model, op)
        s.hist = s.hist + (op,)
        ok = True
        impl = []
        for stack in STACKS:
            box, res = run_history(self.alpha, stack, s.hist)
            self.rep.c['requests'] += 1
            viols = self.judge(stack, s, op, want_res, box, res)
            if viols:
                ok = False
                for kind, detail, msg in viols:
                    # one root cause, one sig: attributes left over from an earlier write of the same name
                    if kind == 'cookie-attrs' and ':extra:' in detail and op[0] in ('set_cookie', 'unset_cookie') \
                            and any(o[0] in ('set_cookie', 'unset_cookie') and o[1] == op[1] for o in s.hist[:-1]):
                        detail = 'residue-of-earlier-write'
                    self.rep.violation(
                        {'part': 'history', 'kind': kind, 'detail': detail, 'stack': stack, 'op': op[0]},
                        {'part': 'history', 'hist': [list(o) for o in s.hist], 'seed': self.rep.seed},
                        '%s history %r: %s' % (stack, describe_hist(self.alpha, s.hist), msg))
            impl.append(box.get('obs', {}).get('state'))
        s.impl = tuple(impl)
        self.rep.trace()
        self.rep.outcome('history/%s/%s' % (op[0], want_res if ok else 'viol'))
        if ok and (len(s.model.plain) + len(s.model.raw) + len(s.model.jar)) >= 2:
            self.rep.nt(('A', s.model.key()))
        return ok

    def judge(self, stack, s, op, want_res, box, res):
        m = s.model
        out = []
        if 'results' not in box:
            return [('responder-not-run', '', 'request failed before the responder: %r %r' % (res.exc, res.status))]
        results = box['results']
        if results[-1] != want_res:
            out.append(('op-outcome', '%s->%s' % (want_res, results[-1].split(':')[0]),
                        'model outcome %s, implementation %s' % (want_res, results[-1])))
            return out
        obs = box['obs']
        if obs['headers'] != m.plain:
            out.append(('headers-property', '', 'model map %r, resp.headers %r' % (m.plain, obs['headers'])))
        for ln in OBSERVED:
            want = m.plain.get(ln)
            got = obs['gets'][ln]
            if any(g != want for g in got):
                out.append(('get_header', 'case' if len(set(got)) > 1 else 'value',
                            'get_header(%r in 3 casings): model %r, got %r' % (ln, want, got)))
                break
        if obs['dflt'] != 'dflt':
            out.append(('get_header', 'default', 'get_header of an absent header with default returned %r' % (obs['dflt'],)))
        for p, hn in PROP_HEADER.items():
            if obs['props'][p] != m.plain.get(hn):
                out.append(('typed-property', p, 'resp.%s: model %r, got %r' % (p, m.plain.get(hn), obs['props'][p])))
                break
        out.extend(judge_emitted(stack, res, m, utcnow()))
        return out


def describe_hist(alpha, hist):
    out = []
    for op in hist:
        k = op[0]
        if k in ('set', 'append'):
            out.append('%s_header(%r, %r)' % (k, op[1], alpha.vals[op[2]]))
        elif k == 'delete':
            out.append('delete_header(%r)' % op[1])
        elif k == 'bulk':
            form, pairs = alpha.bulk[op[1]]
            out.append('set_headers(%s%r)' % (form + ' ' if form == 'dict' else '', list(pairs)))
        elif k == 'prop':
            out.append('resp.%s = %r' % (op[1], alpha.props[op[1]][op[2]]))
        elif k == 'delprop':
            out.append('del resp.%s' % op[1])
        elif k == 'link':
            out.append('append_link%r' % (alpha.links[op[1]],))
        elif k == 'set_cookie':
            out.append('set_cookie(%r, %r, **%r)' % (alpha.cookies[op[1]], 'val%d' % op[2], COOKIE_PROFILES[op[2]]))
        elif k == 'unset_cookie':
            out.append('unset_cookie(%r)' % alpha.cookies[op[1]])
        elif k == 'append_raw':
            out.append('append_header(%r, %r)' % (op[1], 'r%d=1; Path=/' % op[2]))
        else:
            out.append('%s on %r' % (op[1], op[2]))
    return '; '.join(out)


def explore_top(alpha, rep, levels):
    """Breadth-first over the first `levels` operations in the parent process (same
    algorithm as seq.bfs, merged on canon); returns the distinct frontier histories."""
    h = HistoryHarness(alpha, rep)
    s0 = h.fresh()
    seen = {h.canon(s0)}
    rep.state()
    frontier = [()]
    for _ in range(levels):
        nxt = []
        for hist in frontier:
            base = HistoryHarness(alpha, rep, hist)
            for op in base.ops(base.fresh()):
                s = base.fresh()
                alive = base.step(s, op, hist)
                rep.trans()
                if alive is False:
                    continue
                k = base.canon(s)
                if k in seen:
                    continue
                seen.add(k)
                rep.state()
                nxt.append(hist + (op,))
        frontier = nxt
    return frontier


def run_history_shard(shard, rep):
    seed, prefixes, depth = shard
    alpha = Alphabet(seed)
    for prefix in prefixes:
        h = HistoryHarness(alpha, rep, prefix)
        before = rep.c['states']
        seq.bfs(h, rep, max_depth=depth, merge=True)
        rep.c['states'] -= 1          # the root of each sub-search was counted by the parent
        if rep.c['states'] > before:
            rep.sample({'history': describe_hist(alpha, prefix), 'distinct_successor_states': rep.c['states'] - before})


# ---------------------------------------------------------------------------
# Part B: cookies
# ---------------------------------------------------------------------------
TZ2 = datetime.timezone(datetime.timedelta(hours=2))
EXPIRES = (None, datetime.datetime(2031, 3, 9, 23, 4, 5), datetime.datetime(2031, 3, 10, 1, 4, 5, tzinfo=TZ2))
MAX_AGES = (None, 0, 5, 5.7, '9', '0')
DOMAINS = (None, 'example.com')
PATHS = (None, '/p')
SECURES = (None, True, False)
HTTP_ONLYS = (True, False)
SAME_SITES = (None, 'Lax', 'STRICT', 'none')
PARTITIONED = (False, True)


def cookie_specs():
    for exp, ma, dom, path, sec, ho, ss, part in itertools.product(
            range(len(EXPIRES)), MAX_AGES, DOMAINS, PATHS, SECURES, HTTP_ONLYS, SAME_SITES, PARTITIONED):
        yield {'expires': exp, 'max_age': ma, 'domain': dom, 'path': path, 'secure': sec, 'http_only': ho,
               'same_site': ss, 'partitioned': part}


def spec_kwargs(spec):
    kw = dict(spec)
    kw['expires'] = EXPIRES[spec['expires']]
    return kw


def max_age_class(ma):
    if ma is None:
        return 'none'
    return '%s:%s' % (type(ma).__name__, 'zero' if int(ma) == 0 else 'pos')


def check_cookie_spec(stack, sd, spec, rep, name='ck'):
    kw = spec_kwargs(spec)
    box = {}

    def fn(req, resp):
        try:
            resp.set_cookie(name, 'v', **kw)
            box['r'] = 'ok'
        except Exception as e:  # noqa
            box['r'] = 'EXC:' + type(e).__name__
    res = drive(stack, fn, secure_default=sd)
    rep.trans()
    rep.trace()
    viols = []
    lines = res.get_all('set-cookie')
    if box.get('r') != 'ok' or res.exc is not None or len(lines) != 1:
        viols.append(('cookie-write', box.get('r', 'no-run'), '', 'set_cookie outcome %r, lines %r, exc %r' % (box.get('r'), lines, res.exc)))
    else:
        p = M.parse_set_cookie(lines[0])
        want = M.expected_cookie_attrs(kw, sd)
        if p is None or p[0] != name or p[1] != 'v':
            viols.append(('cookie-line', 'pair', '', 'emitted %r' % (lines[0],)))
        else:
            d = M.attrs_diff(p[2], want)
            if d:
                cls = max_age_class(spec['max_age']) if d.endswith('max-age') else ''
                viols.append(('cookie-attrs', d, cls, 'requested %r (secure default %r) -> %r: attributes %r, wanted exactly %r'
                              % ({k: v for k, v in kw.items() if v is not None}, sd, lines[0], p[2], want)))
    for kind, detail, cls, msg in viols:
        rep.violation({'part': 'cookie', 'kind': kind, 'detail': detail, 'class': cls, 'stack': stack},
                      {'part': 'cookie', 'stack': stack, 'sd': sd, 'spec': spec},
                      '%s set_cookie(%r, "v", ...): %s' % (stack, name, msg))
    rep.outcome('cookie/%s' % ('viol' if viols else 'ok'))
    if not viols and len(M.expected_cookie_attrs(kw, sd)) >= 3:
        rep.nt(('B', stack, sd, tuple(sorted((k, repr(v)) for k, v in spec.items()))))
    return not viols


COOKIE_VALUE_ALPHABET = ('a', ' ', '"', ';', ',', '\\', '=')
GOOD_NAMES = ('n', 'A_b-1.z', "x!#$%&'*+^`|~")
BAD_NAMES = ('a b', 'a;b', 'a=b', 'a,b', '')


def value_class(v):
    if v == '':
        return 'empty'
    return 'quoted' if any(c in v for c in ' ";,\\') else 'token'


def check_roundtrip(stack, name, value, rep):
    box = {}

    def fn(req, resp):
        try:
            resp.set_cookie(name, value)
            box['r'] = 'ok'
        except Exception as e:  # noqa
            box['r'] = 'EXC:' + type(e).__name__
    res = drive(stack, fn)
    rep.trans()
    lines = res.get_all('set-cookie')
    sig = None
    if box.get('r') != 'ok' or len(lines) != 1:
        sig, msg = ('cookie-write', box.get('r', 'no-run')), 'set_cookie(%r, %r) -> %r, lines %r' % (name, value, box.get('r'), lines)
    else:
        pair = lines[0].split(';', 1)[0]
        try:
            pair.encode('ascii')
            ascii_ok = True
        except UnicodeError:
            ascii_ok = False
        got = {}

        def fn2(req, resp):
            got['cookies'] = dict(req.cookies)
            got['values'] = req.get_cookie_values(name)
        res2 = drive(stack, fn2, headers=[('Cookie', pair)])
        rep.trans()
        if not ascii_ok:
            sig, msg = ('cookie-pair-not-ascii', ''), 'pair %r' % (pair,)
        elif res2.exc is not None or 'cookies' not in got:
            sig, msg = ('cookie-read-failed', ''), 'Cookie: %s -> %r %r' % (pair, res2.exc, res2.status)
        elif got['cookies'] != {name: value} or got['values'] != [value]:
            sig, msg = (('cookie-roundtrip', value_class(value)),
                        'set_cookie(%r, %r) emits %r; echoed as "Cookie: %s" the request API reads cookies=%r '
                        'get_cookie_values=%r' % (name, value, lines[0], pair, got['cookies'], got['values']))
    rep.trace()
    rep.outcome('roundtrip/%s/%s' % (value_class(value), 'viol' if sig else 'ok'))
    if sig:
        rep.violation({'part': 'cookie', 'kind': sig[0], 'detail': sig[1], 'stack': stack},
                      {'part': 'roundtrip', 'stack': stack, 'name': name, 'value': value}, stack + ' ' + msg)
    elif value_class(value) == 'quoted':
        rep.nt(('R', stack, name, value))
    return sig is None


def check_refusals(stack, rep):
    cases = [('name', n, 'v', 'KeyError') for n in BAD_NAMES] + [('name', 'n\xe9', 'v', 'KeyError'),
                                                                 ('value', 'n', 'v\xe9', 'ValueError'),
                                                                 ('value', 'n', '\U0001F600', 'ValueError'),
                                                                 ('same_site', 'n', 'v', 'ValueError')]
    for what, name, value, want in cases:
        box = {}

        def fn(req, resp):
            try:
                if what == 'same_site':
                    resp.set_cookie(name, value, same_site='bogus')
                else:
                    resp.set_cookie(name, value)
                box['r'] = 'ok'
            except Exception as e:  # noqa
                box['r'] = type(e).__name__
        res = drive(stack, fn)
        rep.trans()
        rep.trace()
        lines = res.get_all('set-cookie')
        ok = box.get('r') == want and res.exc is None and (what == 'same_site' or not lines)
        rep.outcome('refusal/%s' % ('ok' if ok else 'viol'))
        if not ok:
            rep.violation({'part': 'cookie', 'kind': 'refusal', 'detail': what, 'class': 'empty' if name == '' else '', 'stack': stack},
                          {'part': 'refusal', 'stack': stack, 'what': what, 'name': name, 'value': value, 'want': want},
                          '%s set_cookie(%r, %r%s): documented %s, got %r; Set-Cookie lines %r'
                          % (stack, name, value, ", same_site='bogus'" if what == 'same_site' else '', want, box.get('r'), lines))


UNSET_SPECS = ({}, {'domain': 'd.example'}, {'path': '/x'}, {'domain': 'd.example', 'path': '/x', 'samesite': 'Strict'},
               {'samesite': 'None'})


def check_unsets(stack, rep):
    for spec in UNSET_SPECS:
        for pre in (False, True):
            def fn(req, resp):
                if pre:
                    resp.append_header('Set-Cookie', 'u=stale; Path=/')
                resp.unset_cookie('u', **spec)
            res = drive(stack, fn)
            rep.trans()
            rep.trace()
            m = M.HeaderModel()
            if pre:
                m.append('Set-Cookie', 'u=stale; Path=/')
            m.unset_cookie('u', spec)
            lines = res.get_all('set-cookie')
            viols = judge_cookie_lines(lines, m, True, utcnow())
            if pre and not viols and M.parse_set_cookie(lines[-1])[1] not in ('', '""'):
                viols.append(('unset-order', '', 'the expiring line must come after the raw one: %r' % (lines,)))
            rep.outcome('unset/%s' % ('viol' if viols else 'ok'))
            for kind, detail, msg in viols:
                rep.violation({'part': 'cookie', 'kind': kind, 'detail': detail, 'stack': stack},
                              {'part': 'unset', 'stack': stack, 'spec': spec, 'pre': pre},
                              '%s unset_cookie("u", **%r)%s: %s' % (stack, spec, ' after a raw Set-Cookie' if pre else '', msg))


def run_cookie_shard(shard, rep):
    kind = shard[0]
    if kind == 'specs':
        _, lo, hi = shard
        specs = list(cookie_specs())[lo:hi]
        for spec in specs:
            for sd in (True, False):
                for stack in STACKS:
                    rep.state()
                    check_cookie_spec(stack, sd, spec, rep)
    elif kind == 'values':
        _, names, maxlen = shard
        for stack in STACKS:
            for name in names:
                for L in range(0, maxlen + 1):
                    for tup in itertools.product(COOKIE_VALUE_ALPHABET, repeat=L):
                        rep.state()
                        check_roundtrip(stack, name, ''.join(tup), rep)
    else:
        for stack in STACKS:
            check_refusals(stack, rep)
            check_unsets(stack, rep)


# ---------------------------------------------------------------------------
# Part C: URI-bearing helpers
# ---------------------------------------------------------------------------
# TAB: a byte below 0x10 (two-digit escapes!); sharp s: a LETTER that no normalisation form reduces to ASCII
URI_ALPHABET = ('a', ' ', '\xe9', '\U0001F600', '/', '?', '#', '\t', '\xdf')
# alphanumerics outside ASCII without an ASCII decomposition (Latin, Cyrillic, Arabic-Indic digit, CJK)
LETTER_CASES = ('Stra\xdfe.pdf', '\xf8.txt', '\u0141\xf3d\u017a', '\u0416.txt', '\u0663', '\u4e2d.bin')
PERCENT_CASES = ('%20', 'a%2Fb', '%C3%A9', '%c3%a9x', '%', 'a%', '%2', '%zz', ' %20', '%20 ', '\xe9%41', '100%', '%%41')


def uri_strings(maxlen):
    for L in range(1, maxlen + 1):
        for tup in itertools.product(URI_ALPHABET, repeat=L):
            yield ''.join(tup)
    for s in PERCENT_CASES + LETTER_CASES:
        yield s


def input_class(s):
    c = []
    if not s.isascii():
        c.append('non-ascii')
    if '%' in s:
        c.append('percent')
    if ' ' in s:
        c.append('space')
    return '+'.join(c) or 'plain'


def check_uri_string(stack, s, rep):
    box = {}

    def fn(req, resp):
        out = {}
        for helper in ('location', 'content_location', 'downloadable_as', 'viewable_as'):
            try:
                setattr(resp, helper, s)
                out[helper] = 'ok'
                if helper == 'downloadable_as':
                    out['dl_value'] = resp.get_header('Content-Disposition')
            except Exception as e:  # noqa
                out[helper] = 'EXC:' + type(e).__name__
        try:
            resp.append_link(s, 'next', title_star=('en', s), anchor=s)
            out['link'] = 'ok'
        except Exception as e:  # noqa
            out['link'] = 'EXC:' + type(e).__name__
        # viewable_as and downloadable_as share a header: read the first back before the second overwrote it
        box['out'] = out
    res = drive(stack, fn)
    rep.trans()
    viols = []

    def bad(helper, why, msg):
        viols.append((helper, why, msg))
    out = box.get('out', {})
    if res.exc is not None or res.problems:
        bad('any', 'request', 'exc %r problems %r' % (res.exc, res.problems))
    for helper, hname in (('location', 'location'), ('content_location', 'content-location')):
        if out.get(helper) != 'ok':
            bad(helper, 'raised', 'resp.%s = %r -> %s' % (helper, s, out.get(helper)))
            continue
        v = res.get(hname)
        why = M.check_uri_value(s, v) if v is not None else 'missing'
        if why:
            bad(helper, why, 'resp.%s = %r emitted as %r' % (helper, s, v))
    # Content-Disposition: the last one set wins (viewable_as)
    if out.get('viewable_as') != 'ok' or out.get('downloadable_as') != 'ok':
        bad('filename', 'raised', 'downloadable_as/viewable_as = %r -> %r' % (s, out))
    else:
        v = res.get('content-disposition')
        why = check_disposition(s, v, 'inline')
        if why:
            bad('filename', why, 'resp.viewable_as = %r emitted as %r' % (s, v))
        why = check_disposition(s, out.get('dl_value'), 'attachment')
        if why:
            bad('filename', why, 'resp.downloadable_as = %r gives Content-Disposition %r' % (s, out.get('dl_value')))
    if out.get('link') != 'ok':
        bad('link', 'raised', 'append_link(%r, ...) -> %s' % (s, out.get('link')))
    else:
        v = res.get('link')
        why = check_link(s, v)
        if why:
            bad('link', why, 'append_link(%r, "next", title_star=("en", %r), anchor=%r) emitted as %r' % (s, s, s, v))
    rep.trace()
    rep.outcome('uri/%s/%s' % (input_class(s), 'viol' if viols else 'ok'))
    for helper, why, msg in viols:
        rep.violation({'part': 'uri', 'kind': helper, 'detail': why, 'class': input_class(s), 'stack': stack},
                      {'part': 'uri', 'stack': stack, 's': s}, stack + ' ' + msg)
    if not viols and input_class(s) != 'plain':
        rep.nt(('C', stack, s))


def check_disposition(s, v, dtype):
    if v is None:
        return 'missing'
    if not v.isascii():
        return 'not-ascii'
    p = M.parse_content_disposition(v)
    if p is None:
        return 'malformed'
    t, params = p
    if t != dtype:
        return 'type'
    if s.isascii():
        if params.get('filename') != s or 'filename*' in params:
            return 'filename-mismatch'
        return ''
    ext = params.get('filename*')
    if ext is None:
        return 'no-filename-star'
    e = M.parse_ext_value(ext)
    if e is None:
        return 'ext-value-malformed'
    if e[0].upper() != 'UTF-8' or e[2] != s:
        return 'decode-mismatch'
    if 'filename' in params and not params['filename']:
        return 'empty-fallback'
    return ''


def check_link(s, v):
    if v is None:
        return 'missing'
    if not v.isascii():
        return 'not-ascii'
    p = M.parse_link(v)
    if p is None:
        return 'malformed'
    target, params = p
    why = M.check_uri_value(s, target)
    if why:
        return 'target-' + why
    if params.get('rel') != 'next':
        return 'rel'
    why = M.check_uri_value(s, params.get('anchor'))
    if why:
        return 'anchor-' + why
    ext = params.get('title*')
    if ext is None:
        return 'no-title-star'
    parts = ext.split("'", 2)
    if len(parts) != 3 or parts[0].upper() != 'UTF-8' or parts[1] != 'en':
        return 'title-star-form'
    why = M.check_uri_value(s, parts[2], value_mode=True)
    if why:
        return 'title-star-' + why
    return ''


def run_uri_shard(shard, rep):
    _, strings = shard
    for s in strings:
        for stack in STACKS:
            rep.state()
            check_uri_string(stack, s, rep)


# ---------------------------------------------------------------------------
# entry points
# ---------------------------------------------------------------------------
def run_shard(shard, rep):
    if shard[0] == 'history':
        run_history_shard(shard[1:], rep)
    elif shard[0] == 'uri':
        run_uri_shard(shard, rep)
    else:
        run_cookie_shard(shard[1:], rep)


def check(rep):
    quick = rep.tier == 'quick'
    depth = 3 if quick else 4
    alpha = Alphabet(rep.seed)
    for stack in STACKS:
        for sd in (True, False):
            get_app(stack, sd)
    rep.bounds = {'history_depth': depth, 'operations': len(alpha.ops), 'stacks': list(STACKS),
                  'cookie_specs_per_stack': len(list(cookie_specs())) * 2,
                  'cookie_value_alphabet': list(COOKIE_VALUE_ALPHABET), 'cookie_value_maxlen': 3,
                  'uri_alphabet': list(URI_ALPHABET), 'uri_maxlen': 3 if quick else 4,
                  'percent_cases': list(PERCENT_CASES)}
    rep.rule = ('A: breadth-first over operation histories, merged on (complete Response header/cookie state of both '
                'stacks, model state); every transition replays the history inside one real request per stack and '
                'compares the last operation, all read-backs and the emitted header list with the model; '
                'non-trivial = distinct model states holding >=2 entries. B: every attribute combination / value / '
                'name once per stack (non-trivial: >=3 attributes, values needing quoting). C: every string once per '
                'stack (non-trivial: non-ASCII, space or percent inputs)')
    rep.assumptions = ['pure-Python falcon from the working tree', '`del resp.<prop>` on an absent header is unspecified',
                       'order of headers and of Set-Cookie lines is not compared (except unset after a raw line)',
                       'the default Content-Type and the forced Content-Length are C05\'s subject and masked here',
                       'well-formed percent-escaped input to the URI helpers is passed through (documented)']
    # Part A: top two levels here, the rest sharded by distinct depth-2 state
    top = 2
    frontier = explore_top(alpha, rep, top)
    rep.parts['history'] = {'distinct_states_depth<=2': int(rep.c['states']), 'frontier': len(frontier)}
    shards = []
    bs = max(1, len(frontier) // 192 + 1)
    for i in range(0, len(frontier), bs):
        shards.append(('history', rep.seed, frontier[i:i + bs], depth - top))
    # Part B
    nspec = len(list(cookie_specs()))
    step = 432
    for lo in range(0, nspec, step):
        shards.append(('cookie', 'specs', lo, min(lo + step, nspec)))
    shards.append(('cookie', 'values', GOOD_NAMES[:1], 3))
    shards.append(('cookie', 'values', GOOD_NAMES[1:], 2 if quick else 3))
    shards.append(('cookie', 'misc'))
    # Part C
    strings = list(uri_strings(3 if quick else 4))
    for i in range(0, len(strings), 200):
        shards.append(('uri', strings[i:i + 200]))
    rep.parts['cookie'] = {'attribute_specs': nspec * 4}
    rep.parts['uri'] = {'strings': len(strings) * 2}
    par.run_shards(run_shard, shards, rep)


def replay(rec):
    from mc.core.report import Report
    rep = Report('C15')
    part = rec['part']
    if part == 'history':
        rep.seed = rec.get('seed', 0)
        alpha = Alphabet(rep.seed)
        hist = [tuple(o) for o in rec['hist']]
        h = HistoryHarness(alpha, rep, tuple(hist[:-1]))
        s = h.fresh()
        h.step(s, hist[-1], tuple(hist[:-1]))
        desc = describe_hist(alpha, hist)
    elif part == 'cookie':
        check_cookie_spec(rec['stack'], rec['sd'], rec['spec'], rep)
        desc = repr(rec['spec'])
    elif part == 'roundtrip':
        check_roundtrip(rec['stack'], rec['name'], rec['value'], rep)
        desc = repr((rec['name'], rec['value']))
    elif part == 'refusal':
        check_refusals(rec['stack'], rep)
        desc = 'refusals'
    elif part == 'unset':
        check_unsets(rec['stack'], rep)
        desc = 'unsets'
    else:
        check_uri_string(rec['stack'], rec['s'], rep)
        desc = repr(rec['s'])
    v = list(rep.viol.values())
    return {'violation': bool(v), 'case': desc, 'details': [x['explain'] for x in v]}
