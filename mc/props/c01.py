"""C01 -- the compiled router resolves every path exactly as the URI-template tree dictates.

SEQ over router histories (depth-bounded, no merging: the router only grows) x ENUM over
request paths built from segment representatives derived from the state's own templates.

Implementation: falcon.routing.CompiledRouter (add_route / find).
Reference model (independent, written here): RefRouter
  * add(): transactional; implements the documented acceptance rules itself
    (whitespace, identifier/keyword/duplicate field names, unknown or un-instantiable
    converter, two differently named simple fields at one level, two multi-field segments of
    the same shape at one level, a path-consuming field that is not last or not alone);
  * find(): plain depth-first walk of the template tree -- literal children first, then
    multi-field children, then the single-field child, siblings of a class in insertion
    order, backtracking on failure; a multi-field segment is matched by a hand-written
    greedy backtracking matcher (not `re`); converters re-implemented (int, uuid, path, float, dt).
Compared after EVERY add: accept/reject; and for every representative path: None vs
(resource identity, uri_template, exact params dict with typed values).  Any exception
from find() is a violation.  The tree shapes are compared as well (residue detection).
"""
import itertools
import keyword
import re
import uuid as _uuid

from falcon.routing import CompiledRouter
from falcon.routing.compiled import UnacceptableRouteError

from mc.core import par
from mc.core.report import digest


# ---------------------------------------------------------------------------
# reference model
# ---------------------------------------------------------------------------
class Reject(Exception):
    pass


_IDENT = 'abcdefghijklmnopqrstuvwxyzABCDEFGHIJKLMNOPQRSTUVWXYZ_'


def parse_segment(seg):
    """-> list of pieces: ('lit', text) | ('fld', name, conv, argstr).  Own parser of the
    {name[:converter[(args)]]} syntax."""
    pieces = []
    i = 0
    lit = ''
    while i < len(seg):
        c = seg[i]
        if c == '{':
            j = seg.find('}', i)
            if j < 0:
                lit += c
                i += 1
                continue
            inner = seg[i + 1:j]
            if lit:
                pieces.append(('lit', lit))
                lit = ''
            name, sep, rest = inner.partition(':')
            conv, args = None, None
            if sep:
                if '(' in rest and rest.endswith(')'):
                    conv, _, a = rest.partition('(')
                    args = a[:-1]
                else:
                    conv = rest
            pieces.append(('fld', name, conv if sep else None, args, bool(sep)))
            i = j + 1
        else:
            lit += c
            i += 1
    if lit:
        pieces.append(('lit', lit))
    return pieces


class IntConv:
    def __init__(self, num_digits=None, min=None, max=None):
        if num_digits is not None and num_digits < 1:
            raise ValueError
        self.nd, self.mn, self.mx = num_digits, min, max

    def convert(self, v):
        if self.nd is not None and len(v) != self.nd:
            return None
        if v != v.strip():
            return None
        try:
            n = int(v)
        except ValueError:
            return None
        if self.mn is not None and n < self.mn:
            return None
        if self.mx is not None and n > self.mx:
            return None
        return n


class UuidConv:
    def convert(self, v):
        try:
            return _uuid.UUID(v)
        except ValueError:
            return None


class PathConv:
    multi = True

    def convert(self, segs):
        return '/'.join(segs)


class FloatConv:
    """float: no surrounding whitespace, Python float syntax; finite=True (default) vetoes nan/inf/-inf; a value below
    min or above max is vetoed (nan is neither, so with finite=False it passes any bounds)."""
    def __init__(self, min=None, max=None, finite=True):
        self.mn, self.mx, self.finite = min, max, True if finite is None else finite

    def convert(self, v):
        if v != v.strip():
            return None
        try:
            x = float(v)
        except ValueError:
            return None
        if self.finite and (x != x or x in (float('inf'), float('-inf'))):
            return None
        if self.mn is not None and x < self.mn:
            return None
        if self.mx is not None and x > self.mx:
            return None
        return x


class DtConv:
    def __init__(self, format_string='%Y-%m-%dT%H:%M:%S%z'):
        self.fmt = format_string

    def convert(self, v):
        import datetime
        try:
            return datetime.datetime.strptime(v, self.fmt)
        except ValueError:
            return None


class RepConv:
    """custom converter whose constructor REQUIRES an argument: '{x:rep}' cannot be instantiated, '{x:rep(2)}' can."""
    def __init__(self, times):
        self.times = times

    def convert(self, v):
        return v * self.times


class SafeConv:
    """custom path-consuming converter that may veto: refuses '..' and empty segments."""
    multi = True

    def convert(self, segs):
        if '..' in segs or '' in segs:
            return None
        return '|'.join(segs)


CONVS = {'int': IntConv, 'uuid': UuidConv, 'path': PathConv, 'float': FloatConv, 'dt': DtConv, 'rep': RepConv, 'safe': SafeConv}


# the same two custom converters as the application would register them with the real router
class RealRep:
    def __init__(self, times):
        self._times = times

    def convert(self, value):
        return value * self._times


class RealSafe:
    CONSUME_MULTIPLE_SEGMENTS = True

    def convert(self, value):
        if '..' in value or '' in value:
            return None
        return '|'.join(value)


def make_conv(name, args):
    cls = CONVS[name]
    if args is None:
        return cls()
    return eval('f(%s)' % args, {'f': cls})


class Node:
    def __init__(self, raw):
        self.raw = raw
        self.pieces = parse_segment(raw)
        self.fields = [p for p in self.pieces if p[0] == 'fld']
        self.is_var = bool(self.fields)
        self.is_complex = self.is_var and not (len(self.pieces) == 1)
        self.children = []
        self.resource = None
        self.template = None
        self.convs = {}
        for f in self.fields:
            if f[2]:
                self.convs[f[1]] = make_conv(f[2], f[3])
        self.multi = any(getattr(c, 'multi', False) for c in self.convs.values())

    def rank(self):
        return 0 if not self.is_var else (1 if self.is_complex else 2)

    def shape(self):
        return ''.join('v' if p[0] == 'fld' else p[1] for p in self.pieces)

    def clone(self):
        n = Node.__new__(Node)
        n.__dict__.update(self.__dict__)
        n.children = [c.clone() for c in self.children]
        return n

    def dump(self):
        return (self.raw, self.resource is not None, self.template, tuple(c.dump() for c in self.children))


class RefRouter:
    def __init__(self):
        self.roots = []

    def validate(self, template):
        stripped = template
        # whitespace outside field expressions
        outside = re.sub(r'\{[^}]*\}', 'F', template)
        if any(c.isspace() for c in outside):
            raise Reject('whitespace')
        segs = template.lstrip('/').split('/')
        used = set()
        for seg in segs:
            for p in parse_segment(seg):
                if p[0] != 'fld':
                    continue
                name, conv, args, has_sep = p[1], p[2], p[3], p[4]
                if not name or name[0] not in _IDENT or any(ch not in _IDENT + '0123456789' for ch in name) \
                        or name in keyword.kwlist:
                    raise Reject('identifier')
                if name in used:
                    raise Reject('duplicate')
                used.add(name)
                if has_sep and not conv:
                    raise Reject('missing converter')
                if conv:
                    if conv not in CONVS:
                        raise Reject('unknown converter')
                    try:
                        make_conv(conv, args)
                    except Exception:
                        raise Reject('cannot instantiate')
        return segs

    def add(self, template, resource):
        segs = self.validate(template)
        roots = [n.clone() for n in self.roots]     # transactional: work on a copy
        nodes = roots
        for i, seg in enumerate(segs):
            last = i == len(segs) - 1
            found = None
            new = Node(seg)
            for n in nodes:
                if n.raw == seg:
                    found = n
                    break
                if n.is_var and not n.is_complex and new.is_var and not new.is_complex:
                    raise Reject('conflicting simple fields')
                if n.is_complex and new.is_complex and n.shape() == new.shape():
                    raise Reject('conflicting multi-field segments')
            if found is None:
                if new.is_complex and new.multi:
                    raise Reject('path converter inside a multi-field segment')
                if not last and new.multi:
                    raise Reject('path converter must be last')
                nodes.append(new)
                found = new
            else:
                if not last and found.multi:
                    raise Reject('path converter must be last')
            if last:
                found.resource = resource
                found.template = template
            nodes = found.children
        self.roots = roots

    # -- lookup: plain DFS ---------------------------------------------------
    def find(self, uri):
        path = uri.lstrip('/').split('/')
        return self._walk(self.roots, path, 0, {})

    def _walk(self, nodes, path, i, params):
        if i >= len(path):
            return None
        seg = path[i]
        order = sorted(nodes, key=Node.rank)   # stable
        for n in order:
            got = self._match(n, path, i)
            if got is None:
                continue
            p2 = dict(params)
            p2.update(got)
            if n.multi:
                if n.resource is not None:
                    return (n.resource, n.template, p2)
                continue
            if i == len(path) - 1:
                if n.resource is not None:
                    return (n.resource, n.template, p2)
            r = self._walk(n.children, path, i + 1, p2)
            if r is not None:
                return r
        return None

    def _match(self, n, path, i):
        seg = path[i]
        if not n.is_var:
            return {} if seg == n.raw else None
        if not n.is_complex:
            f = n.fields[0]
            name = f[1]
            if name in n.convs:
                c = n.convs[name]
                v = c.convert(path[i:]) if n.multi else c.convert(seg)
                if v is None:
                    return None
                return {name: v}
            return {name: seg}
        groups = greedy_match(n.pieces, seg)
        if groups is None:
            return None
        out = {}
        for f in n.fields:
            name = f[1]
            if name in n.convs:
                v = n.convs[name].convert(groups[name])
                if v is None:
                    return None
                out[name] = v
        for name, v in groups.items():
            out.setdefault(name, v)
        return out


def greedy_match(pieces, s):
    """First match of ^piece*$ with every field = one or more non-newline characters,
    greedy with backtracking (the order a backtracking regex engine explores)."""
    def rec(k, pos):
        if k == len(pieces):
            return {} if pos == len(s) else None
        p = pieces[k]
        if p[0] == 'lit':
            if s.startswith(p[1], pos):
                return rec(k + 1, pos + len(p[1]))
            return None
        for end in range(len(s), pos, -1):
            if '\n' in s[pos:end]:
                continue
            r = rec(k + 1, end)
            if r is not None:
                r[p[1]] = s[pos:end]
                return r
        return None
    return rec(0, 0)


# ---------------------------------------------------------------------------
# alphabets
# ---------------------------------------------------------------------------
UUID_OK = '0f0e0d0c-0b0a-0908-0706-050403020100'

SEG_KINDS = ['a', 'b', 'v.1', '{p}', '{q}', '{p:int}', '{p:int(2)}', '{p:int(min=5)}', '{p:uuid}',
             '{p}-{q}', 'x{p}', '{p}.{q:int}', '{r:path}']
CORE_KINDS = ['a', 'b', '{p}', '{q}', '{p:int}', '{p}-{q}', 'x{p}', '{r:path}']
# two multi-field segments with converters on ONE route (distinct field names), converter bounds of zero
EXTRA = ['{s:int}_{t}', '{p}.{q:int}/{s:int}_{t}', '{p}.{q:int}/{s:int}_{t}/a', '{p}.{q:int}/{s}', 'x{p}/{s:int}_{t}',
         '{p:int(min=0)}', '{p:int(max=0)}', 'a/{p:int(min=0)}', '{p:int(min=0)}-{q}', '{p:int(min=0, max=0)}',
         # a single converter field next to (below / above) a multi-field segment with two converters
         '{s:int}_{u:int}', '{s:int}_{u:int}/{p:int}', '{p:int}/{s:int}_{u:int}', 'a/{s:int}_{u:int}']
# depth-3 shapes (looked up with paths of up to 3 segments): literal, converter field, multi-field with converters
EXTRA3 = ['a/{p:int}/{s:int}_{u:int}', 'a/{p:int}/{s:int}_{t}', 'a/{p:int}/{s:int}_{t}/b', 'a/{p}/{s:int}_{t}', 'a/{p:int}/{q}']
REJECTED = ['{p}/{p}', '{1x}', '{class}', '{p:nope}', '{p:int(x=1)}', 'a b', '{p:}', 'new/{r:path}/c', 'n2/{s}{r:path}',
            '{z}/{r:path}/c', 'a/{p}{r:path}', '{p}/n3/{r:path}/{q}']


def reps_for_segment(seg):
    n = Node.__new__(Node)
    pieces = parse_segment(seg)
    flds = [p for p in pieces if p[0] == 'fld']
    if not flds:
        return [seg, seg + 'x']
    if len(pieces) == 1:
        conv = flds[0][2]
        if conv == 'int':
            return ['7', '07', '12', '-7', '+7', ' 7', '1_0', 'x', '0', '-1', '\u00b2']   # SUPERSCRIPT TWO: isdigit(), not int()
        if conv == 'uuid':
            return [UUID_OK, UUID_OK[:-1] + 'g']
        if conv == 'float':
            return ['1.5', '7', '-7.5', '1e1', 'inf', '-inf', 'Infinity', 'nan', '1e999', ' 1', '1_0', 'x', '.5', '\u0663']
        if conv == 'dt':
            # ISO 8601 spellings that the documented strptime() format does not admit: fraction, no seconds, no offset
            return ['2020-01-02T03:04:05Z', '2020-01-02T03:04:05+0100', '2020-01-02', '2020-13-01', 'x',
                    '2020-01-02T03:04:05.250Z', '2020-01-02T03:04+01:00', '2020-01-02T03:04:05.250000', '2020-01-02T03:04:05+01:00',
                    '2020-01-02 03:04:05+01:00', '20200102T030405Z']
        if conv == 'path':
            return ['zz', '']
        if conv == 'safe':
            return ['zz', '..', '']
        return ['zz', '']
    # multi-field: natural instance, empty field, repeated/extra separator
    lits = [p[1] for p in pieces if p[0] == 'lit']
    sep = lits[0] if lits else '-'
    inst = ''.join(p[1] if p[0] == 'lit' else ('7' if p[2] in ('int', 'float') else 'k') for p in pieces)
    out = [inst, inst.replace('k', '', 1), inst + sep + 'k', sep + inst, inst.replace('7', 'x')]
    if any(p[0] == 'fld' and p[2] == 'float' for p in pieces):
        out += [inst.replace('7', 'inf'), inst.replace('7', '-inf'), inst.replace('7', 'nan'), inst.replace('7', '-7.5')]
    return out


def paths_for(templates, maxdepth):
    reps = []
    for t in templates:
        for seg in t.lstrip('/').split('/'):
            for r in reps_for_segment(seg):
                if r not in reps:
                    reps.append(r)
    for r in ('zz', ''):
        if r not in reps:
            reps.append(r)
    out = []
    for d in range(1, maxdepth + 1):
        for tup in itertools.product(reps, repeat=d):
            out.append('/' + '/'.join(tup))
    tails = ['', 'zz']
    for tup in itertools.product(reps, repeat=maxdepth):
        for t in tails:
            out.append('/' + '/'.join(tup + (t,)))
    return out


class Res:
    def __init__(self, name):
        self.name = name

    def on_get(self, req, resp, **kw):
        pass

    def __repr__(self):
        return 'Res(%s)' % self.name


def real_tree(router):
    def dump(n):
        return (n.raw_segment, n.resource is not None, n.uri_template, tuple(dump(c) for c in n.children))
    try:
        return tuple(dump(n) for n in router._roots)
    except AttributeError:
        return None


def run_history(hist, mode, rep, maxdepth, sig_extra=None):
    """hist: tuple of templates; mode: 'lazy' (lookups after every add, compile on demand) or
    'eager' (compile=True on every add, lookups only at the end)."""
    router = CompiledRouter()
    router.options.converters.update({'rep': RealRep, 'safe': RealSafe})
    model = RefRouter()
    accepted = []
    for idx, t in enumerate(hist):
        res = Res('%d:%s' % (idx, t))
        tmpl = '/' + t
        try:
            model.add(tmpl, res)
            exp_ok, why = True, ''
        except Reject as e:
            exp_ok, why = False, str(e)
        try:
            if mode == 'eager':
                router.add_route(tmpl, res, compile=True)
            else:
                router.add_route(tmpl, res)
            got_ok = True
        except UnacceptableRouteError:
            got_ok = False
        except Exception as e:
            rep.violation({'kind': 'add-internal-error', 'exc': type(e).__name__},
                          {'hist': list(hist), 'mode': mode, 'maxdepth': maxdepth},
                          'history=%r mode=%s: add_route(%r) raised %s: %s' % (list(hist), mode, tmpl, type(e).__name__, e))
            return
        rep.trans()
        if got_ok != exp_ok:
            prior_reject = any(not a for a in accepted)
            rep.violation({'kind': 'accept-reject-disagreement', 'after_rejected_add': prior_reject,
                           'model': 'accept' if exp_ok else 'reject'},
                          {'hist': list(hist), 'mode': mode, 'maxdepth': maxdepth},
                          'history=%r mode=%s: add_route(%r): model %s (%s), router %s'
                          % (list(hist), mode, tmpl, 'accepts' if exp_ok else 'rejects', why, 'accepted' if got_ok else 'rejected'))
            return
        accepted.append(got_ok)
        rt = real_tree(router)
        if rt is not None and rt != tuple(n.dump() for n in model.roots):
            rep.violation({'kind': 'tree-differs-after-add', 'add_was': 'accepted' if got_ok else 'rejected'},
                          {'hist': list(hist), 'mode': mode, 'maxdepth': maxdepth},
                          'history=%r mode=%s: after add_route(%r) (%s) the route tree is %r, model tree %r'
                          % (list(hist), mode, tmpl, 'accepted' if got_ok else 'rejected', rt, tuple(n.dump() for n in model.roots)))
            return
        if mode == 'lazy' or idx == len(hist) - 1:
            if not lookups(router, model, hist[:idx + 1], mode, rep, maxdepth):
                return
    rep.trace()
    rep.outcome('adds:' + ''.join('A' if a else 'R' for a in accepted))


def lookups(router, model, hist, mode, rep, maxdepth):
    live = [t for t in hist]
    for path in paths_for(live, maxdepth):
        exp = model.find(path)
        try:
            got = router.find(path)
        except Exception as e:
            rep.violation({'kind': 'find-internal-error', 'exc': type(e).__name__},
                          {'hist': list(hist), 'mode': mode, 'path': path, 'maxdepth': maxdepth},
                          'history=%r mode=%s: find(%r) raised %s: %s' % (list(hist), mode, path, type(e).__name__, str(e)[:100]))
            return False
        rep.c['lookups'] += 1
        if got is None:
            g = None
        else:
            g = (got[0], got[3], got[2])
        if exp is None and g is None:
            continue
        if exp is None or g is None or exp[0] is not g[0] or exp[1] != g[1] or not same_params(exp[2], g[2]):
            kind = 'wrong-route' if (exp is None or g is None or exp[0] is not g[0]) else 'wrong-params'
            rep.violation({'kind': kind, 'model': 'none' if exp is None else 'match', 'router': 'none' if g is None else 'match'},
                          {'hist': list(hist), 'mode': mode, 'path': path, 'maxdepth': maxdepth},
                          'history=%r mode=%s: find(%r): model %r, router %r' % (list(hist), mode, path, exp, g))
            return False
        if exp is not None and exp[2]:
            rep.nt(digest((hist, path)))
    return True


def same_params(a, b):
    if set(a) != set(b):
        return False
    for k in a:
        x, y = a[k], b[k]
        if type(x) is not type(y):
            return False
        if isinstance(x, float):
            if repr(x) != repr(y):        # nan == nan here; -0.0 != 0.0
                return False
        elif x != y:
            return False
    return True


# float / dt converters: every option combination, alone and next to the nodes a veto must fall back to
CONV_KINDS = ['{p:float}', '{p:float(min=0)}', '{p:float(max=2.5)}', '{p:float(min=1, max=2)}', '{p:float(finite=False)}',
              '{p:float(min=-5, finite=False)}', '{p:float(max=5, finite=False)}', '{p:float(min=1, max=2, finite=False)}',
              '{p:float(finite=None)}', '{p:dt}', '{p:dt("%Y-%m-%d")}',
              '{s:float(min=-5, finite=False)}_{t}', '{s:float}_{t}', '{s:float(max=5, finite=False)}_{u:int}',
              # custom converters: un-instantiable without arguments (must be rejected, nothing changes); a consuming one that vetoes
              '{p:rep}', '{p:rep(2)}', '{r:safe}', 'a/{r:safe}', 'a/{p:rep}']
CONV_NEXT = ['{q}', '{q}/{w}', 'a', '{q:int}', '{s}_{t}', '{r:path}']


def templates(kinds, depth):
    out = []
    for d in range(1, depth + 1):
        for tup in itertools.product(kinds, repeat=d):
            out.append('/'.join(tup))
    return out


def gen_histories(tier, seed):
    full = templates(SEG_KINDS, 2) + EXTRA + REJECTED
    core = templates(CORE_KINDS, 2)[:0] + CORE_KINDS + ['a/{p}', 'a/b', '{p}/a', '{p}/{q}', 'a/{q}', '{p}/{q:int}', 'a/{r:path}',
                                                       '{p}/{r:path}', 'x{p}/a', '{p}-{q}/a', 'b/{p:int}', 'a/{p:int}',
                                                       'new/{r:path}/c', '{z}/{r:path}/c', 'a/{p}{r:path}', '{p}/{p}', 'a b']
    jobs = []
    for t in full:
        jobs.append(((t,), 2))
    for a in full:
        jobs.append((('@pair', a), 2))      # expanded in the worker: (a, b) for every b in full
    for a in core:
        for b in core:
            jobs.append((('@triple', a, b), 2))   # (a, b, c) for every c in core
    for a in CONV_KINDS:
        jobs.append(((a,), 2))
        jobs.append((('a/' + a, 'a/{q}'), 2))
        jobs.append(((a + '/x',), 2))
        for b in CONV_NEXT:
            # '{s}_{t}' has the shape of the multi-field converter segments: rejected there (also exercised)
            jobs.append(((a, b), 2))
            jobs.append(((b, a), 2))
            jobs.append(((a + '/x', b), 2))
    for a in EXTRA3:
        jobs.append(((a,), 3))
        for b in EXTRA3 + ['a/{p:int}', '{p}/{q}/{s}']:
            if a != b:
                jobs.append(((a, b), 3))
    if tier == 'thorough':
        deep = templates(['a', '{p}', '{q:int}', 'x{p}', '{r:path}'], 3)
        for a in deep:
            jobs.append((('@pairdeep', a), 3))
        small = ['a', '{p}', '{q}', 'a/{p}', '{p}/a', 'a/{r:path}', 'new/{r:path}/c', '{p:int}', 'x{p}', '{p}-{q}', 'a/b', '{p}/{q}']
        for a in small:
            for b in small:
                for c in small:
                    jobs.append((('@quad', a, b, c), 2))
        for t in ["it's", 'a\\b', "{p}'s", 'a"b']:
            jobs.append(((t,), 2))
            jobs.append((('a', t), 2))
    return jobs, full, core


_FULL = _CORE = None


def run_job(job, rep):
    spec, maxdepth = job
    if spec[0] == '@pair':
        hists = [(spec[1], b) for b in _FULL]
    elif spec[0] == '@triple':
        hists = [(spec[1], spec[2], c) for c in _CORE]
    elif spec[0] == '@pairdeep':
        hists = [(spec[1], b) for b in _DEEP] + [(b, spec[1]) for b in CORE_KINDS]
    elif spec[0] == '@quad':
        hists = [(spec[1], spec[2], spec[3], d) for d in _SMALL]
    else:
        hists = [spec]
    for h in hists:
        for mode in ('lazy', 'eager'):
            run_history(h, mode, rep, maxdepth)
            rep.state()
    if hists:
        rep.sample({'history': list(hists[-1]), 'modes': ['lazy', 'eager']})


_DEEP = templates(['a', '{p}', '{q:int}', 'x{p}', '{r:path}'], 3)
_SMALL = ['a', '{p}', '{q}', 'a/{p}', '{p}/a', 'a/{r:path}', 'new/{r:path}/c', '{p:int}', 'x{p}', '{p}-{q}', 'a/b', '{p}/{q}']


def check(rep):
    global _FULL, _CORE
    jobs, _FULL, _CORE = gen_histories(rep.tier, rep.seed)
    rep.bounds = {'templates_full': len(_FULL), 'templates_core': len(_CORE),
                  'histories': '<=2 adds over the full set, <=3 over the core' + (
                      '; depth-3 templates in pairs, <=4 adds over a 12-template set, literals with quotes/backslashes'
                      if rep.tier == 'thorough' else ''),
                  'modes': 'lazy (lookups after every add, compile on first find) and eager (compile=True on every add)',
                  'paths': 'all sequences (len 1..maxdepth, +1 with tail in {"", zz}) of representatives derived from the '
                           'templates of the history (rejected ones included)'}
    rep.rule = ('every history in the bound is executed on a fresh router and the reference router in lockstep; state = one '
                '(history, mode); transition = one add_route; every lookup compared; non-trivial = distinct (history, path) '
                'lookups that matched a route and bound at least one field')
    rep.assumptions = ['segment alphabet is ASCII without newline', 'built-in converters int, uuid, path, float, dt are generated; custom converters are not']
    if rep.seed % 2:
        jobs = jobs[::-1]
    par.run_shards(run_job, jobs, rep)


def replay(rec):
    from mc.core.report import Report
    rep = Report('C01')
    run_history(tuple(rec['hist']), rec['mode'], rep, rec.get('maxdepth', 2))
    v = list(rep.viol.values())
    return {'violation': bool(v), 'details': [x['explain'] for x in v]}
