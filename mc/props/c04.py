"""C04 -- every raised exception becomes the response its most specific handler defines.

Engines: SEQ (mc.core.seq.bfs over add_error_handler histories, canonical state = the real
registry + the model registry) inside ENUM over exception DAGs; ENUM for raise sites and for
default rendering.  Three parts, each bounded-exhaustive:

A1 'select'  exception DAGs: k generated classes, each with 1 or 2 bases taken (ordered) from
             {Exception, HTTPError, HTTPNotFound, HTTPStatus} and the earlier generated classes
             (redundant base pairs -- one an ancestor of the other -- and DAGs Python rejects are
             dropped), plus three named 4-class DAGs (chain, diamond, app-error+HTTPError mix).
             Registration histories over {generated classes, Exception, HTTPError, HTTPNotFound,
             HTTPStatus} x {h1, h2}, the handler=None form (static method `handle`), and tuple
             registrations; BFS with merging on the complete registry.  After every registration
             an instance of EVERY class of the universe (+ KeyError) is raised from the responder,
             WSGI and ASGI.
             quick: k<=2 depth<=2, named DAGs depth<=2.  thorough: k<=2 depth<=3, k=3 depth<=2,
             named diamond/mix depth<=3, other named depth<=2.
A2 'sites'   fixed hierarchy A(Exception), B(A), M(A, HTTPError), S(HTTPStatus); 9 registries (incl.
             handlers that raise HTTPError / HTTPStatus); 8 raised classes; raise sites process_request,
             process_resource, before hook, responder, after hook, process_response, media serialization,
             unserialisable media, overridden render_body; response text/data/media preset to junk
             before the raise; WSGI and ASGI.  Full product.
B  'render'  default rendering: (title x description x code x href/href_text) x 4 Accept classes, and
             (status form x headers form x Accept alphabet x xml_error_serialization x custom media type)
             with fixed strings; HTTPStatus (status x headers x text) and redirects; non-HTTP errors -> 500.

Oracle: Registry model (last registration per class, first hit along type(ex).__mro__); the chosen
handler is called exactly once with (req, resp, the raised instance, params) and sees
text/data/media == None; the final status/headers/body equal what that handler defines; default
bodies are decoded with json / xml.etree and compared with a document built from the constructor
arguments; Vary contains Accept; nothing escapes the app callable.
"""
import http
import itertools
import json

from mc.core import par, seq, vloop
from mc.drivers import asgi as adrv
from mc.drivers import wsgi as wdrv
from mc.props import c04_model as M

import falcon
import falcon.asgi
import falcon.media

ROOTS = {'Exception': Exception, 'HTTPError': falcon.HTTPError, 'HTTPNotFound': falcon.HTTPNotFound,
         'HTTPStatus': falcon.HTTPStatus}
ROOT_NAMES = ('Exception', 'HTTPError', 'HTTPNotFound', 'HTTPStatus')
DEFAULTS = {Exception: 'default-py', falcon.HTTPError: 'default-http', falcon.HTTPStatus: 'default-status'}

HID_STATUS = {'h1': 251, 'h2': 252, 'h3': 253, 'hM': 254}


_PNAMES = ('x', 'item_id', 'k9')
# braces: the request target ends up in the error log line of the default 500 handler (a str.format template)
_PVALS = ('{v}', '4{2', 'a-b}')
_QUERY = 'f={0}&g={k}&h=}{'


class _Cur:
    seed = 0
    exc = None        # instance the generated code must raise
    site = None       # where
    junk = None       # which response attribute is preset before raising
    calls = None      # handler call log
    fired = 0


_cur = _Cur()


# ---------------------------------------------------------------------------
# generated handlers
# ---------------------------------------------------------------------------
def hid_status(hid):
    if hid in HID_STATUS:
        return HID_STATUS[hid]
    if hid.startswith('handle-G'):
        return 260 + int(hid[8:])
    raise KeyError(hid)


def _handler_body(hid, req, resp, ex, params):
    _cur.calls.append((hid, ex, dict(params), (resp.text, resp.data, resp.media)))
    if hid in ('hE', 'hS', 'hS0'):
        # a handler may have started composing a response before it gives up by raising:
        # what it raises is rendered "in turn", its own draft must not reach the client
        resp.text = 'handler draft -- must not reach the client'
        resp.data = b'handler draft data -- must not reach the client'
        resp.set_header('X-Draft', '1')
    if hid == 'hE':
        raise falcon.HTTPError(418, title='from-hE', description='raised by a handler', headers={'X-From': 'hE'})
    if hid == 'hS':
        raise falcon.HTTPStatus(208, {'X-From': 'hS'}, 'status-from-hS')
    if hid == 'hS0':
        raise falcon.HTTPStatus(202, {'X-From': 'hS0'})
    if hid == 'hM':
        # answers through resp.media and leaves the content type alone: if THAT type's handler is what failed, the
        # handler's own representation cannot be rendered either (second failure, of whatever exception class)
        resp.status = hid_status(hid)
        resp.media = {'by': hid}
        return
    resp.status = hid_status(hid)
    # media has the lowest precedence of text/data/media: anything that was not discarded shows
    resp.content_type = 'application/json'
    resp.media = {'by': hid}


def make_handler(hid, stack):
    if stack == 'wsgi':
        def handler(req, resp, ex, params):
            _handler_body(hid, req, resp, ex, params)
    else:
        async def handler(req, resp, ex, params):
            _handler_body(hid, req, resp, ex, params)
    handler._hid = hid
    return handler


def handler_label(fn):
    hid = getattr(fn, '_hid', None)
    if hid is not None:
        return hid
    name = getattr(fn, '__name__', None) or type(fn).__name__      # never repr(): it contains addresses
    return {'_python_error_handler': 'default-py', '_http_error_handler': 'default-http',
            '_http_status_handler': 'default-status'}.get(name, name)


# ---------------------------------------------------------------------------
# exception universes
# ---------------------------------------------------------------------------
def build_classes(dag, stack):
    """dag: tuple of bases tuples; a base is a root name or an int (earlier generated class).
    Returns the list of generated classes or None if Python rejects the DAG or a base pair is redundant."""
    gen = []
    for i, bases in enumerate(dag):
        bs = tuple(ROOTS[b] if isinstance(b, str) else gen[b] for b in bases)
        if len(bs) == 2 and (issubclass(bs[0], bs[1]) or issubclass(bs[1], bs[0])):
            return None
        hid = 'handle-G%d' % i
        try:
            cls = type('G%d' % i, bs, {'handle': staticmethod(make_handler(hid, stack))})
        except TypeError:
            return None
        gen.append(cls)
    return gen


def enum_dags(k):
    """All DAGs with exactly k generated classes (valid ones only)."""
    def rec(prefix):
        i = len(prefix)
        if i == k:
            yield tuple(prefix)
            return
        cands = list(ROOT_NAMES) + list(range(i))
        options = [(c,) for c in cands] + [p for p in itertools.permutations(cands, 2)]
        for o in options:
            d = prefix + [o]
            if build_classes(tuple(d), 'wsgi') is not None:
                yield from rec(d)
    return list(rec([]))


NAMED_DAGS = {
    'chain4': (('Exception',), (0,), (1,), (2,)),
    'diamond': (('Exception',), (0,), (0,), (1, 2)),
    'diamond-swapped': (('Exception',), (0,), (0,), (2, 1)),
    'mix': (('Exception',), (0, 'HTTPError'), ('HTTPNotFound', 0), ('HTTPStatus',)),
    'mix2': (('Exception',), ('HTTPError', 0), (1, 'HTTPNotFound'), ('HTTPStatus', 0)),
}


def make_instance(cls, tag):
    """-> (instance, description for the model)."""
    if issubclass(cls, falcon.HTTPNotFound):
        return cls(title='T-' + tag, description='D'), ('http', 404, {'title': 'T-' + tag, 'description': 'D'})
    if issubclass(cls, falcon.HTTPError):
        return cls(409, title='T-' + tag), ('http', 409, {'title': 'T-' + tag})
    if issubclass(cls, falcon.HTTPStatus):
        return cls(209, None, 'text-' + tag), ('status', 209, 'text-' + tag)
    return cls('x-' + tag), ('other', None, None)


# ---------------------------------------------------------------------------
# apps
# ---------------------------------------------------------------------------
def _fire(site, resp):
    if _cur.site == site:
        j = _cur.junk
        if j == 'text':
            resp.text = 'JUNK-TEXT'
        elif j == 'data':
            resp.data = b'JUNK-DATA'
        elif j == 'media':
            resp.media = {'junk': 1}
        elif j == 'all':
            # a draft composed through several attributes at once (media plus a pre-rendered text, a data fallback)
            resp.media = {'junk': 1}
            resp.data = b'JUNK-DATA'
            resp.text = 'JUNK-TEXT'
        _cur.fired += 1
        raise _cur.exc


class BoomHandler(falcon.media.BaseHandler):
    """Media handler for application/x-boom: serialization raises the current exception."""

    def serialize(self, media, content_type):
        if _cur.site == 'serialize':
            _cur.fired += 1
            raise _cur.exc
        return b'BOOM-OK'

    def deserialize(self, stream, content_type, content_length):
        return None


class CustomHandler(falcon.media.BaseHandler):
    """Media handler for application/x-custom: 'CUSTOM' + JSON."""

    def serialize(self, media, content_type):
        return b'CUSTOM' + json.dumps(media, ensure_ascii=False, sort_keys=True).encode('utf-8')

    def deserialize(self, stream, content_type, content_length):
        return None


class BoomResponse(falcon.Response):
    def render_body(self):
        if _cur.site == 'render_body' and not getattr(self.context, 'boomed', False):
            self.context.boomed = True
            _cur.fired += 1
            raise _cur.exc
        return super().render_body()


class BoomResponseAsync(falcon.asgi.Response):
    async def render_body(self):
        if _cur.site == 'render_body' and not getattr(self.context, 'boomed', False):
            self.context.boomed = True
            _cur.fired += 1
            raise _cur.exc
        return await super().render_body()


def _responder_body(resp):
    s = _cur.site
    if s == 'serialize':
        resp.content_type = 'application/x-boom'
        resp.media = {'k': 1}
    elif s == 'unserialisable':
        resp.media = {'k': object()}
    elif s == 'render_body':
        j = _cur.junk
        if j == 'text':
            resp.text = 'JUNK-TEXT'
        elif j == 'data':
            resp.data = b'JUNK-DATA'
        elif j == 'media':
            resp.media = {'junk': 1}
        elif j == 'all':
            # a draft composed through several attributes at once (media plus a pre-rendered text, a data fallback)
            resp.media = {'junk': 1}
            resp.data = b'JUNK-DATA'
            resp.text = 'JUNK-TEXT'
    _fire('responder', resp)


def build_app(stack, custom_response=False, mw=True, boom=True):
    if stack == 'wsgi':
        class MW:
            def process_request(self, req, resp):
                _fire('req', resp)

            def process_resource(self, req, resp, resource, params):
                _fire('rsrc', resp)

            def process_response(self, req, resp, resource, req_succeeded):
                _fire('resp', resp)

        def before_hook(req, resp, resource, params):
            _fire('before', resp)

        def after_hook(req, resp, resource):
            _fire('after', resp)

        class Res:
            @falcon.before(before_hook)
            @falcon.after(after_hook)
            def on_get(self, req, resp, **params):
                _responder_body(resp)
        app = falcon.App(middleware=[MW()] if mw else None,
                         response_type=BoomResponse if custom_response else None)
    else:
        class MW:
            async def process_request(self, req, resp):
                _fire('req', resp)

            async def process_resource(self, req, resp, resource, params):
                _fire('rsrc', resp)

            async def process_response(self, req, resp, resource, req_succeeded):
                _fire('resp', resp)

        async def before_hook(req, resp, resource, params):
            _fire('before', resp)

        async def after_hook(req, resp, resource):
            _fire('after', resp)

        class Res:
            @falcon.before(before_hook)
            @falcon.after(after_hook)
            async def on_get(self, req, resp, **params):
                _responder_body(resp)
        app = falcon.asgi.App(middleware=[MW()] if mw else None,
                              response_type=BoomResponseAsync if custom_response else None)
    if boom:
        app.resp_options.media_handlers['application/x-boom'] = BoomHandler()
    app.add_route('/p/{%s}' % _PNAMES[_cur.seed % 3], Res())
    return app


_LOOP = [None]


def the_loop():
    if _LOOP[0] is None:
        _LOOP[0] = vloop.VLoop()
    return _LOOP[0]


def request(app, stack, exc, site='responder', junk=None, accept=None):
    _cur.exc = exc
    _cur.site = site
    _cur.junk = junk
    _cur.calls = []
    _cur.fired = 0
    headers = [('Accept', accept)] if accept is not None else []
    if stack == 'wsgi':
        res = wdrv.call(app, method='GET', raw_path='/p/' + _PVALS[_cur.seed % 3], query=_QUERY, headers=headers)
    else:
        res = adrv.call(app, method='GET', raw_path='/p/' + _PVALS[_cur.seed % 3], query=_QUERY, headers=headers, loop=the_loop())
    return res, _cur.calls, _cur.fired


# ---------------------------------------------------------------------------
# expected responses
# ---------------------------------------------------------------------------
def expected_for(hid, desc):
    """-> dict(code=, json= | text= | any_body=True, headers=[(n, v)])"""
    if hid == 'default-http':
        assert desc[0] == 'http'
        return {'code': desc[1], 'json': desc[2], 'vary': True}
    if hid == 'default-status':
        assert desc[0] == 'status'
        return {'code': desc[1], 'text': desc[2]}
    if hid == 'default-py':
        return {'code': 500, 'json': {'title': '500 Internal Server Error'}, 'vary': True}
    if hid == 'hE':
        return {'code': 418, 'json': {'title': 'from-hE', 'description': 'raised by a handler'}, 'vary': True,
                'headers': [('x-from', 'hE')]}
    if hid == 'hS':
        return {'code': 208, 'text': 'status-from-hS', 'headers': [('x-from', 'hS')]}
    if hid == 'hS0':
        return {'code': 202, 'text': '', 'headers': [('x-from', 'hS0')]}
    return {'code': hid_status(hid), 'json': {'by': hid}}


def judge(rep, res, calls, fired, exc, hid, desc, sig, rec, where, check_params=None, render_site=False):
    """Compare one response with the model; returns True when it agrees."""
    ok = True

    def bad(kind, msg, **extra):
        nonlocal ok
        ok = False
        if kind == 'body-after-render-error':
            # one defect, whatever the handler and the rendering step that failed
            s = {'part': sig['part'], 'stack': sig['stack'], 'kind': kind}
        else:
            s = dict(sig, kind=kind)
            s.update(extra)
        rep.violation(s, rec, '%s: %s' % (where, msg))

    if res.exc is not None:
        bad('exception-escaped', '%s escaped the app callable: %r' % (type(res.exc).__name__, res.exc),
            exc=type(res.exc).__name__)
        return False
    second_failure = hid == 'hM' and sig.get('site') == 'serialize'     # the handler's own media hits the failing handler again
    if fired != (2 if second_failure else 1):
        bad('harness-site-not-reached', 'raise site fired %d times' % fired)
        return False
    custom = not hid.startswith('default-')
    # -- which handler was invoked, how ---------------------------------------
    got_hids = [c[0] for c in calls]
    if custom:
        if got_hids != [hid]:
            bad('handler-selection', 'model: handler %s called once; generated handlers called: %r' % (hid, got_hids),
                expected=hid.rstrip('0123456789'), got=(got_hids[0].rstrip('0123456789') if got_hids else 'none'))
            return False
        h, ex_seen, params, seen = calls[0]
        if ex_seen is not exc:
            bad('handler-arguments', 'handler received %r, not the raised instance %r' % (ex_seen, exc), arg='ex')
        if seen != (None, None, None):
            bad('body-not-discarded', 'handler saw (text, data, media) = %r; they must have been discarded' % (seen,))
        if check_params is not None and params != check_params:
            bad('handler-arguments', 'handler received params %r, expected %r' % (params, check_params), arg='params')
    elif got_hids:
        bad('handler-selection', 'model: %s; but generated handlers were called: %r' % (hid, got_hids),
            expected=hid, got=got_hids[0].rstrip('0123456789'))
        return False
    # -- the response -------------------------------------------------------------
    exp = expected_for(hid, desc)
    if hid == 'hM' and sig.get('site') == 'serialize':
        exp = {'code': hid_status(hid), 'any_body': True}     # status and headers are the handler's; no body can be rendered
    if res.code != exp['code']:
        bad('status', 'model: status %s (handler %s), response status %r body %r' % (exp['code'], hid, res.status, res.body),
            expected=str(exp['code'])[0] + 'xx', got=str(res.code)[:1] + 'xx')
        return False
    for n, v in exp.get('headers', []):
        if v not in res.get_all(n):
            bad('headers', 'model: header %s: %s; response headers %r' % (n, v, res.header_multi()), header=n)
    if exp.get('vary'):
        vary = [t.strip().lower() for v in res.get_all('vary') for t in v.split(',')]
        if 'accept' not in vary:
            bad('vary', 'model: Vary contains Accept; response headers %r' % (res.header_multi(),))
    body_kind = 'body-after-render-error' if render_site else 'body'
    if render_site and hid == 'default-py':
        # the statement promises a 500 that does not escape for non-HTTP errors, not a particular body
        return ok
    if exp.get('any_body'):
        return ok
    if 'json' in exp:
        try:
            doc = M.decode_json(res.body)
        except Exception as e:  # noqa
            doc = 'undecodable: %s' % type(e).__name__
        if doc != exp['json']:
            bad(body_kind, 'model: JSON body %r (handler %s); response body %r' % (exp['json'], hid, res.body),
                handler=hid.rstrip('0123456789') if custom else hid)
        elif (res.get('content-type') or '').split(';')[0].strip() != 'application/json':
            bad('content-type', 'JSON body with content-type %r' % (res.get('content-type'),))
    else:
        want = (exp['text'] or '').encode('utf-8')
        if res.body != want:
            bad(body_kind, 'model: body %r (handler %s); response body %r' % (want, hid, res.body), handler=hid)
    return ok


# ---------------------------------------------------------------------------
# part A1: handler selection over DAGs x registration histories (SEQ)
# ---------------------------------------------------------------------------
class SelState:
    __slots__ = ('app', 'model', 'handlers')


class SelectHarness:
    def __init__(self, dag, dag_name, stack, rep, interleave=False):
        self.interleave = interleave
        self.dag = dag
        self.dag_name = dag_name
        self.stack = stack
        self.rep = rep
        self.gen = build_classes(dag, stack)
        self.targets = list(self.gen) + [ROOTS[n] for n in ROOT_NAMES]
        self.tnames = [c.__name__ for c in self.targets]
        k = len(self.gen)
        ops = []
        for ti in range(len(self.targets)):
            for hid in ('h1', 'h2'):
                ops.append(('reg', ti, hid))
        for gi in range(k):
            ops.append(('handle', gi))
        pairs = [(i, j) for i in range(k) for j in range(i + 1, k)]
        if k:
            pairs.append((0, k + 1))       # (G0, HTTPError)
            pairs.append((k + 2, k - 1))   # (HTTPNotFound, last generated)
        for p in pairs:
            ops.append(('tuple', p, 'h3'))
        self._ops = ops
        self.raise_classes = list(self.targets) + [KeyError]

    def fresh(self):
        s = SelState()
        s.app = build_app(self.stack, mw=False)
        s.model = M.Registry(DEFAULTS)
        return s

    def ops(self, s):
        return self._ops

    def canon(self, s):
        real = tuple(sorted((c.__name__, handler_label(h)) for c, h in s.app._error_handlers.items()))
        return (real, s.model.key())

    def _apply(self, s, op):
        if op[0] == 'reg':
            cls = self.targets[op[1]]
            s.app.add_error_handler(cls, make_handler(op[2], self.stack))
            s.model.register([cls], op[2])
        elif op[0] == 'handle':
            cls = self.gen[op[1]]
            s.app.add_error_handler(cls)
            s.model.register([cls], 'handle-G%d' % op[1])
        else:
            classes = [self.targets[i] for i in op[1]]
            s.app.add_error_handler(tuple(classes), make_handler(op[2], self.stack))
            s.model.register(classes, op[2])

    def replay(self, s, op):
        self._apply(s, op)
        if self.interleave:
            # lookups interleaved with registrations on the SAME app object: every class is raised
            # after every registration of the history (a stale per-type cache shows only this way)
            for cls in self.raise_classes:
                exc, _ = make_instance(cls, cls.__name__)
                request(s.app, self.stack, exc)

    def step(self, s, op, hist):
        self._apply(s, op)
        return self.probe_all(s, tuple(hist) + (op,))

    def probe_all(self, s, hist):
        rep = self.rep
        alive = True
        for ci, cls in enumerate(self.raise_classes):
            exc, desc = make_instance(cls, cls.__name__)
            hid = s.model.resolve(cls)
            res, calls, fired = request(s.app, self.stack, exc)
            rep.trans()
            rep.trace()
            sig = {'part': 'select', 'stack': self.stack}
            rec = {'part': 'select', 'dag': self.dag, 'dag_name': self.dag_name, 'stack': self.stack,
                   'hist': [list(o) for o in hist], 'raise': ci, 'interleave': self.interleave}
            where = ('select stack=%s dag=%r history=%r raise %s (mro %s)'
                     % (self.stack, self.dag, self.describe(hist), cls.__name__,
                        '>'.join(c.__name__ for c in cls.__mro__[:-2])))
            ok = judge(rep, res, calls, fired, exc, hid, desc, sig, rec, where, check_params={_PNAMES[_cur.seed % 3]: _PVALS[_cur.seed % 3]})
            if not hid.startswith('default-') and (len(hist) > 1 or cls.__mro__.index(self._owner(s, cls)) > 0):
                rep.nt(('select', self.dag, self.stack, s.model.key(), ci))
            rep.outcome('select:%s:%s' % (hid.rstrip('0123456789'), 'ok' if ok else 'DISAGREE'))
            alive = alive and ok
        return alive

    def _owner(self, s, cls):
        for c in cls.__mro__:
            if c in s.model.map:
                return c
        return cls

    def describe(self, hist):
        out = []
        for o in hist:
            if o[0] == 'reg':
                out.append('add(%s, %s)' % (self.tnames[o[1]], o[2]))
            elif o[0] == 'handle':
                out.append('add(G%d)  # handle' % o[1])
            else:
                out.append('add((%s), %s)' % (', '.join(self.tnames[i] for i in o[1]), o[2]))
        return out


def run_select(item, rep):
    dag, name, stack, depth = item
    h = SelectHarness(dag, name, stack, rep)
    h.probe_all(h.fresh(), ())
    seq.bfs(h, rep, max_depth=depth, merge=True)
    # the same search with lookups interleaved between the registrations (one live app per history)
    h2 = SelectHarness(dag, name, stack, rep, interleave=True)
    seq.bfs(h2, rep, max_depth=depth, merge=True)
    rep.c['select_configs'] += 1
    if len(dag) == 2 and len(rep.samples) < 2:
        rep.sample({'part': 'select', 'dag': dag, 'stack': stack, 'depth': depth})


# ---------------------------------------------------------------------------
# part A2: raise sites
# ---------------------------------------------------------------------------
SITES = ('req', 'rsrc', 'before', 'responder', 'after', 'resp', 'serialize', 'unserialisable', 'render_body')
RENDER_SITES = ('serialize', 'unserialisable', 'render_body')
JUNK = (None, 'text', 'data', 'media', 'all')
SITE_DAG = (('Exception',), (0,), (0, 'HTTPError'), ('HTTPStatus',))     # A, B(A), M(A, HTTPError), S(HTTPStatus)
# registry variants: list of (target, hid); targets: 0..3 generated, or root name
SITE_REGS = (
    (),
    ((0, 'h1'),),
    ((0, 'h1'), (1, 'h2')),
    ((0, 'hE'),),
    ((0, 'hS'),),
    ((0, 'hS0'),),
    ((0, 'hM'),),
    (('Exception', 'hM'),),
    (('HTTPError', 'h1'),),
    (('Exception', 'h1'),),
    ((0, 'hE'), ('HTTPError', 'h1'), ('HTTPStatus', 'h2')),
    (('HTTPStatus', 'hE'), ('HTTPNotFound', 'hS')),
)


def run_sites(item, rep):
    stack, ri = item
    regs = SITE_REGS[ri]
    gen = build_classes(SITE_DAG, stack)
    raise_classes = gen + [falcon.HTTPNotFound, falcon.HTTPStatus, KeyError, Exception]
    apps = {}
    model = M.Registry(DEFAULTS)
    for custom in (False, True):
        app = build_app(stack, custom_response=custom)
        for t, hid in regs:
            cls = ROOTS[t] if isinstance(t, str) else gen[t]
            app.add_error_handler(cls, make_handler(hid, stack))
        apps[custom] = app
    for t, hid in regs:
        model.register([ROOTS[t] if isinstance(t, str) else gen[t]], hid)
    for site in SITES:
        for ci, cls in enumerate(raise_classes):
            if site == 'unserialisable' and ci:
                continue        # the exception is json's own TypeError
            for junk in JUNK:
                if site in ('serialize', 'unserialisable') and junk is not None:
                    continue
                exc, desc = make_instance(cls, cls.__name__)
                if site == 'unserialisable':
                    exc, desc, cls_eff = None, ('other', None, None), TypeError
                else:
                    cls_eff = cls
                hid = model.resolve(cls_eff)
                app = apps[site == 'render_body']
                res, calls, fired = request(app, stack, exc, site=site, junk=junk)
                if site == 'unserialisable':
                    fired = 1
                    exc = calls[0][1] if calls else None
                rep.state()
                rep.trans()
                rep.trace()
                sig = {'part': 'sites', 'stack': stack, 'site': site}
                rec = {'part': 'sites', 'stack': stack, 'reg': ri, 'site': site, 'raise': ci, 'junk': junk}
                where = ('sites stack=%s registry=%r site=%s junk=%s raise %s'
                         % (stack, regs, site, junk, cls_eff.__name__))
                ok = judge(rep, res, calls, fired, exc, hid, desc, sig, rec, where, render_site=site in RENDER_SITES)
                rep.nt(('sites', stack, ri, site, ci, junk))
                rep.outcome('sites:%s:%s:%s' % (site, hid.rstrip('0123456789'), 'ok' if ok else 'DISAGREE'))
    rep.c['site_configs'] += 1


# ---------------------------------------------------------------------------
# part B: default rendering
# ---------------------------------------------------------------------------
TITLES = (None, 'plain title', '<&>"\'', 'é', '\U0001F600', 'a\t\nb', ']]>')
DESCRIPTIONS = (None, 'plain', '<b>&amp;</b>"\'', 'é\U0001F600', '\t\n]]><![CDATA[', '')
CODES = (None, 0, 77)
HREFS = ((None, None), ('http://example.com/a?b=1&c=2#f', None), ('http://ex.com/é \U0001F600/"<>', 'Tëxt <&>'))
STATUS_FORMS = (400, '499 Custom Reason', http.HTTPStatus.CONFLICT, '404')
HEADER_FORMS = (None, {'X-Err': 'v1'}, [('X-Err', 'v2'), ('Vary', 'Cookie')], {'Content-Type': 'text/plain', 'X-Err': 'v3'},
                # a Vary token that merely CONTAINS the word accept: 'Accept' itself must still be listed
                {'Vary': 'Accept-Encoding'})
ACCEPTS = (None, 'application/json', 'application/xml', 'text/xml', '*/*', 'text/*', 'application/*',
           'multipart/form-data',
           'application/xml;q=0.5, application/json;q=0.4', 'application/json;q=0.5, application/xml;q=0.9',
           'application/json;q=0.8, text/xml;q=0.8', 'text/xml, application/json', 'application/json;q=0, */*;q=0.1',
           'text/html', 'application/vnd.x+json', 'application/vnd.x+xml', 'application/x-custom',
           'application/x-custom;q=0.2, application/json;q=0.1', 'nonsense', 'application/json;q=high',
           '')        # the header is there, its value is empty: no preference expressed
STRING_ACCEPTS = (None, 'application/xml', 'text/xml;q=1, application/json;q=0.1', 'application/x-custom')


def _err_kwargs(title, description, code, href, href_text, headers):
    kw = {}
    if title is not None:
        kw['title'] = title
    if description is not None:
        kw['description'] = description
    if code is not None:
        kw['code'] = code
    if href is not None:
        kw['href'] = href
    if href_text is not None:
        kw['href_text'] = href_text
    if headers is not None:
        kw['headers'] = dict(headers) if isinstance(headers, dict) else list(headers)
    return kw


def accept_class(accept):
    if accept is None:
        return 'absent'
    if 'multipart' in accept:
        return 'multipart'
    if M.parse_accept(accept) is None:
        return 'malformed'
    if 'q=' in accept:
        return 'weighted'
    if '+' in accept:
        return 'vendor'
    if '*' in accept:
        return 'wildcard'
    return 'plain'


def judge_render(rep, res, status, fields, headers, accept, xml_enabled, custom, sig, rec, where):
    ok = True

    def bad(kind, msg, **extra):
        nonlocal ok
        ok = False
        s = dict(sig, kind=kind)
        s.update(extra)
        rep.violation(s, rec, '%s: %s' % (where, msg))

    if res.exc is not None:
        bad('exception-escaped', '%s escaped the app callable: %r' % (type(res.exc).__name__, res.exc),
            exc=type(res.exc).__name__)
        return False
    code = M.status_code_of(status)
    ctype = (res.get('content-type') or '').split(';')[0].strip()
    if res.code != code:
        if res.code == 500 and ctype.startswith('multipart/'):
            ok = False
            rep.violation({'part': sig['part'], 'stack': sig['stack'], 'kind': 'error-negotiated-as-multipart'}, rec,
                          '%s: model: status %d; the serializer chose %s, whose handler cannot serialize: response %r body %r'
                          % (where, code, ctype, res.status, res.body))
            return False
        bad('status', 'model: status %d, response %r (body %r)' % (code, res.status, res.body))
        return False
    if isinstance(status, str) and ' ' in status and isinstance(res.status, str) and res.status != status:
        bad('status-line', 'model: status line %r, response %r' % (status, res.status))
    hs = headers.items() if isinstance(headers, dict) else (headers or [])
    for n, v in hs:
        if n.lower() == 'content-type':
            continue
        vals = res.get_all(n)
        if n.lower() == 'vary':
            toks = [t.strip() for x in vals for t in x.split(',')]
            if v not in toks:
                bad('headers', "model: the error's own Vary: %s is kept; response headers %r" % (v, res.header_multi()),
                    header='vary')
        elif vals != [v]:
            bad('headers', 'model: header %s: %s; response headers %r' % (n, v, res.header_multi()), header=n.lower())
    vary = [t.strip().lower() for v in res.get_all('vary') for t in v.split(',')]
    if 'accept' not in vary:
        bad('vary', 'model: Vary contains Accept; response headers %r' % (res.header_multi(),))
    if accept is not None and 'multipart' in accept:
        return ok       # no representation is defined for this type: only status/headers are judged
    extra = [M.FORM] + (['application/x-custom'] if custom else [])
    mt = M.error_media_type(accept, xml_enabled, extra)
    if ctype.startswith('multipart/') and res.body == b'':
        rep.violation({'part': sig['part'], 'stack': sig['stack'], 'kind': 'error-negotiated-as-multipart'}, rec,
                      '%s: the serializer chose %s, whose handler cannot serialize: response %r body %r'
                      % (where, ctype, res.status, res.body))
        return False
    if mt is None:
        if res.body != b'':
            bad('body', 'model: no acceptable representation, empty body; response body %r' % (res.body,), media='none')
        return ok
    try:
        if mt == M.JSON:
            doc = M.decode_json(res.body)
        elif mt in (M.XML, M.TEXT_XML):
            doc = M.decode_xml(res.body)
            fields = dict(fields)
            fields = {k: ({kk: vv for kk, vv in v.items()} if isinstance(v, dict) else v) for k, v in fields.items()}
        elif mt == M.FORM:
            doc = M.decode_form(res.body)
            fields = {k: str(v) for k, v in fields.items()}
        else:
            if not res.body.startswith(b'CUSTOM'):
                raise ValueError('not produced by the configured handler')
            doc = json.loads(res.body[6:].decode('utf-8'))
    except Exception as e:  # noqa
        doc = 'undecodable (%s: %s)' % (type(e).__name__, e)
    if doc != fields:
        bad('body', 'model: %s document %r; response content-type %r body %r decoded %r'
            % (mt, fields, res.get('content-type'), res.body, doc), media=mt)
    elif ctype != mt:
        bad('content-type', 'model: content-type %s; response %r' % (mt, res.get('content-type')), media=mt)
    return ok


def build_render_app(stack, xml_enabled, custom):
    app = build_app(stack, mw=False, boom=False)
    app.resp_options.xml_error_serialization = xml_enabled
    if custom:
        app.resp_options.media_handlers['application/x-custom'] = CustomHandler()
    return app


def render_cases(tier):
    """-> list of ('err', status, title, description, code, href, href_text, headers_index, accept, xml, custom)
    | ('status', ...) | ('other', ...)"""
    cases = []
    # B1: strings x representation
    for t, d, c, (h, ht) in itertools.product(TITLES, DESCRIPTIONS, CODES, HREFS):
        for acc in STRING_ACCEPTS:
            cases.append(('err', 400, t, d, c, h, ht, 0, acc, True, True))
    # B2: negotiation x forms
    for st, hi, acc, xml, custom in itertools.product(range(len(STATUS_FORMS)), range(len(HEADER_FORMS)),
                                                     ACCEPTS, (True, False), (False, True)):
        cases.append(('err', st, 'T', 'D', None, None, None, hi, acc, xml, custom, 'form'))
    # B3: HTTPStatus
    for st, hi, text in itertools.product((200, '299 Custom', http.HTTPStatus.CREATED, 404),
                                          range(3), (None, '', 'plain', 'é\U0001F600<&>')):
        for acc in (None, 'application/xml', 'text/html'):
            cases.append(('status', st, hi, text, acc))
    for name in ('HTTPMovedPermanently', 'HTTPFound', 'HTTPSeeOther', 'HTTPTemporaryRedirect', 'HTTPPermanentRedirect'):
        cases.append(('redirect', name))
    # B4: non-HTTP errors
    for acc in ACCEPTS:
        for xml in (True, False):
            cases.append(('other', acc, xml))
    # B5: stock subclasses keep their status and mandatory headers
    for name in SUBCLASSES:
        for acc in (None, 'application/xml'):
            cases.append(('subclass', name, acc))
    return cases


SUBCLASSES = {
    'HTTPBadRequest': ((), {}, 400, []),
    'HTTPUnauthorized': ((), {'challenges': ['Basic realm="x"', 'Bearer']}, 401, [('WWW-Authenticate', 'Basic realm="x", Bearer')]),
    'HTTPForbidden': ((), {}, 403, []),
    'HTTPNotFound': ((), {}, 404, []),
    'HTTPRouteNotFound': ((), {}, 404, []),
    'HTTPMethodNotAllowed': ((['GET', 'PUT'],), {}, 405, [('Allow', 'GET, PUT')]),
    'HTTPConflict': ((), {}, 409, []),
    'HTTPTooManyRequests': ((), {'retry_after': 30}, 429, [('Retry-After', '30')]),
    'HTTPInternalServerError': ((), {}, 500, []),
    'HTTPServiceUnavailable': ((), {'retry_after': 7}, 503, [('Retry-After', '7')]),
    'HTTPGone': ((), {}, 410, []),
    'HTTPUnprocessableEntity': ((), {}, 422, []),
}


def run_render(item, rep):
    stack, cases = item
    apps = {}

    def app_for(xml, custom):
        k = (xml, custom)
        if k not in apps:
            apps[k] = build_render_app(stack, xml, custom)
        return apps[k]

    for case in cases:
        kind = case[0]
        rec = {'part': 'render', 'stack': stack, 'case': list(case)}
        if kind == 'err':
            form = len(case) > 11
            _, st, t, d, c, h, ht, hi, acc, xml, custom = case[:11]
            status = STATUS_FORMS[st] if form else st
            headers = HEADER_FORMS[hi]
            exc = falcon.HTTPError(status, **_err_kwargs(t, d, c, h, ht, headers))
            fields = M.error_fields(t if t is not None else M.default_title(status), d, c, h, ht)
            res, calls, fired = request(app_for(xml, custom), stack, exc, accept=acc)
            sig = {'part': 'render', 'stack': stack, 'what': 'forms' if form else 'strings', 'accept': accept_class(acc)}
            where = ('render stack=%s HTTPError(%r, title=%r, description=%r, code=%r, href=%r, href_text=%r, headers=%r) '
                     'Accept=%r xml_error_serialization=%s custom_handler=%s'
                     % (stack, status, t, d, c, h, ht, headers, acc, xml, custom))
            ok = judge_render(rep, res, status, fields, headers, acc, xml, custom, sig, rec, where)
            mt = M.error_media_type(acc, xml, [M.FORM] + (['application/x-custom'] if custom else []))
            rep.outcome('render:err:%s:%s' % (mt, 'ok' if ok else 'DISAGREE'))
            if (t, d) != ('T', 'D') or acc is not None:
                rep.nt(('render', stack) + tuple(map(repr, case)))
        elif kind == 'status':
            _, st, hi, text, acc = case
            headers = HEADER_FORMS[hi]
            exc = falcon.HTTPStatus(st, dict(headers) if isinstance(headers, dict) else headers, text)
            res, calls, fired = request(app_for(True, False), stack, exc, accept=acc)
            sig = {'part': 'render', 'stack': stack, 'what': 'http-status'}
            where = 'render stack=%s HTTPStatus(%r, %r, %r) Accept=%r' % (stack, st, headers, text, acc)
            ok = judge_status(rep, res, st, headers, text, sig, rec, where)
            rep.outcome('render:status:%s' % ('ok' if ok else 'DISAGREE'))
            rep.nt(('render', stack) + tuple(map(repr, case)))
        elif kind == 'redirect':
            cls = getattr(falcon, case[1])
            code = {'HTTPMovedPermanently': 301, 'HTTPFound': 302, 'HTTPSeeOther': 303, 'HTTPTemporaryRedirect': 307,
                    'HTTPPermanentRedirect': 308}[case[1]]
            exc = cls('/new/place', headers={'X-R': '1'})
            res, calls, fired = request(app_for(True, False), stack, exc)
            sig = {'part': 'render', 'stack': stack, 'what': 'redirect'}
            where = 'render stack=%s %s("/new/place", headers={"X-R": "1"})' % (stack, case[1])
            ok = judge_status(rep, res, code, [('Location', '/new/place'), ('X-R', '1')], None, sig, rec, where)
            # the same class raised again and again in one process, without explicit headers and with
            # different targets: each response carries ITS OWN Location (no state shared between instances)
            for loc in ('/first', '/second', '/first'):
                res, calls, fired = request(app_for(True, False), stack, cls(loc))
                where2 = 'render stack=%s %s(%r) raised after earlier %s instances' % (stack, case[1], loc, case[1])
                ok = judge_status(rep, res, code, [('Location', loc)], None, dict(sig, what='redirect-repeated'), rec, where2) and ok
                rep.trans()
            rep.outcome('render:redirect:%s' % ('ok' if ok else 'DISAGREE'))
            rep.nt(('render', stack) + tuple(case))
        elif kind == 'other':
            _, acc, xml = case
            exc = KeyError('boom')
            res, calls, fired = request(app_for(xml, False), stack, exc, accept=acc)
            sig = {'part': 'render', 'stack': stack, 'what': 'non-http', 'accept': accept_class(acc)}
            where = 'render stack=%s raise KeyError Accept=%r xml_error_serialization=%s' % (stack, acc, xml)
            ok = judge_render(rep, res, 500, {'title': '500 Internal Server Error'}, None, acc, xml, False, sig, rec, where)
            rep.outcome('render:other:%s' % ('ok' if ok else 'DISAGREE'))
            rep.nt(('render', stack) + tuple(map(repr, case)))
        else:
            _, name, acc = case
            args, kw, code, hdrs = SUBCLASSES[name]
            exc = getattr(falcon, name)(*args, title='T', description='D', **kw)
            res, calls, fired = request(app_for(True, False), stack, exc, accept=acc)
            sig = {'part': 'render', 'stack': stack, 'what': 'subclass', 'cls': name}
            where = 'render stack=%s %s(%r, title="T", description="D", %r) Accept=%r' % (stack, name, args, kw, acc)
            fields = {'title': 'T', 'description': 'D'}
            ok = judge_render(rep, res, code, fields, hdrs, acc, True, False, sig, rec, where)
            rep.outcome('render:subclass:%s' % ('ok' if ok else 'DISAGREE'))
            rep.nt(('render', stack) + tuple(map(repr, case)))
        rep.state()
        rep.trans()
        rep.trace()
    rep.c['render_cases'] += len(cases)


def judge_status(rep, res, status, headers, text, sig, rec, where):
    ok = True

    def bad(kind, msg, **extra):
        nonlocal ok
        ok = False
        s = dict(sig, kind=kind)
        s.update(extra)
        rep.violation(s, rec, '%s: %s' % (where, msg))

    if res.exc is not None:
        bad('exception-escaped', '%s escaped: %r' % (type(res.exc).__name__, res.exc), exc=type(res.exc).__name__)
        return False
    code = M.status_code_of(status)
    if res.code != code:
        bad('status', 'model: status %d, response %r' % (code, res.status))
        return False
    if isinstance(status, str) and ' ' in status and isinstance(res.status, str) and res.status != status:
        bad('status-line', 'model: status line %r, response %r' % (status, res.status))
    hs = headers.items() if isinstance(headers, dict) else (headers or [])
    for n, v in hs:
        if res.get_all(n) != [v]:
            bad('headers', 'model: header %s: %s; response headers %r' % (n, v, res.header_multi()), header=n.lower())
    want = (text or '').encode('utf-8')
    if res.body != want:
        bad('body', 'model: body %r; response body %r' % (want, res.body))
    return ok


# ---------------------------------------------------------------------------
# check / replay
# ---------------------------------------------------------------------------
def run_batch(batch, rep):
    kind, items = batch
    for item in items:
        if kind == 'select':
            run_select(item, rep)
        elif kind == 'sites':
            run_sites(item, rep)
        else:
            run_render(item, rep)


def select_items(tier):
    items = []
    thorough = tier == 'thorough'
    plan = [(0, 3 if thorough else 2), (1, 3 if thorough else 2), (2, 3 if thorough else 2)]
    if thorough:
        plan.append((3, 2))
    n_dags = {}
    for k, depth in plan:
        dags = enum_dags(k)
        n_dags[k] = len(dags)
        for dag in dags:
            for stack in ('wsgi', 'asgi'):
                items.append((dag, 'k%d' % k, stack, depth))
    for name, dag in NAMED_DAGS.items():
        for stack in ('wsgi', 'asgi'):
            items.append((dag, name, stack, 3 if thorough and name in ('diamond', 'mix') else 2))
    return items, n_dags


def check(rep):
    _cur.seed = rep.seed
    sel, n_dags = select_items(rep.tier)
    cases = render_cases(rep.tier)
    rep.bounds = {
        'select': {'dags_by_generated_classes': n_dags, 'named_4_class_dags': sorted(NAMED_DAGS),
                   'registration_depth': {'k<=2': 3 if rep.tier == 'thorough' else 2, 'k=3': 2 if rep.tier == 'thorough' else 'not run',
                                          'named': '3 for diamond and mix, 2 for the others' if rep.tier == 'thorough' else 2},
                   'registration_ops': 'every class of the universe x {h1,h2}; handler=None (static handle) per generated class; tuple registrations',
                   'probe': 'after every registration one instance of every class of the universe + KeyError, raised by the responder'},
        'sites': {'sites': SITES, 'registries': len(SITE_REGS), 'raised_classes': 8, 'junk': ['none', 'text', 'data', 'media', 'all three']},
        'render': {'cases_per_stack': len(cases), 'titles': len(TITLES), 'descriptions': len(DESCRIPTIONS), 'codes': len(CODES),
                   'hrefs': len(HREFS), 'status_forms': [repr(s) for s in STATUS_FORMS], 'header_forms': len(HEADER_FORMS),
                   'accepts': [a for a in ACCEPTS]},
        'stacks': ['wsgi', 'asgi'],
    }
    rep.rule = ('one evaluation = one request whose generated code raises one exception instance, compared with the '
                'registry/MRO model and the rendering model; non-trivial = select: the chosen custom handler was found '
                'above the raised class in the MRO or after >=2 registrations; sites/render: every distinct case')
    rep.assumptions = ['BaseException-only classes are out of scope',
                       'an HTTPError/HTTPStatus raised by a handler is rendered with the default rendering',
                       'XML bodies are restricted to XML-1.0 characters without CR',
                       'Accept: multipart/form-data: only status and headers are judged (no representation is defined)',
                       'title=None is only used with statuses whose reason phrase is unambiguous']
    batches = []
    bs = 6
    batches += [('sites', [(stack, ri)]) for stack in ('wsgi', 'asgi') for ri in range(len(SITE_REGS))]
    step = 600
    for stack in ('wsgi', 'asgi'):
        batches += [('render', [(stack, cases[i:i + step])]) for i in range(0, len(cases), step)]
    batches += [('select', sel[i:i + bs]) for i in range(0, len(sel), bs)]
    if rep.seed:
        r = rep.seed % 7
        batches = batches[r:] + batches[:r]
    par.run_shards(run_batch, batches, rep)


def _tup(x):
    if isinstance(x, list):
        return tuple(_tup(v) for v in x)
    return x


def replay(rec):
    from mc.core.report import Report
    rep = Report('C04')
    part = rec['part']
    if part == 'select':
        dag = _tup(rec['dag'])
        h = SelectHarness(dag, rec.get('dag_name', ''), rec['stack'], rep, interleave=rec.get('interleave', False))
        s = h.fresh()
        hist = tuple(_tup(o) for o in rec['hist'])
        for o in hist:
            h.replay(s, o)
        h.raise_classes = [h.raise_classes[rec['raise']]]
        h.probe_all(s, hist)
    elif part == 'sites':
        keep = (rec['site'], rec['raise'], rec['junk'])
        global SITES, JUNK
        old = (SITES, JUNK)
        try:
            SITES, JUNK = (rec['site'],), (rec['junk'],)
            run_sites((rec['stack'], rec['reg']), rep)
        finally:
            SITES, JUNK = old
        rep.viol = {k: v for k, v in rep.viol.items() if v['replay'].get('raise') == keep[1]}
    else:
        case = _tup(rec['case'])
        run_render((rec['stack'], [case]), rep)
    v = list(rep.viol.values())
    return {'violation': bool(v), 'details': [x['explain'] for x in v]}
