"""C15 reference model: a case-insensitive header map, a raw Set-Cookie list and an
ordered cookie jar; an RFC 6265 Set-Cookie reader; an RFC 3986 percent-decoder;
Link / Content-Disposition readers.  Imports nothing from falcon.
"""
import datetime

DEFAULT_CT = 'application/json'

_DAYS = ('Mon', 'Tue', 'Wed', 'Thu', 'Fri', 'Sat', 'Sun')
_MONTHS = ('Jan', 'Feb', 'Mar', 'Apr', 'May', 'Jun', 'Jul', 'Aug', 'Sep', 'Oct', 'Nov', 'Dec')


class NotSupported(Exception):
    """The model's answer to a plain-header call on Set-Cookie."""


# ---------------------------------------------------------------------------
# dates
# ---------------------------------------------------------------------------
def http_date(dt):
    """IMF-fixdate of a datetime (aware: converted to UTC; naive: taken as UTC)."""
    if dt.tzinfo is not None:
        dt = dt.astimezone(datetime.timezone.utc).replace(tzinfo=None)
    return '%s, %02d %s %04d %02d:%02d:%02d GMT' % (_DAYS[dt.weekday()], dt.day, _MONTHS[dt.month - 1], dt.year,
                                                    dt.hour, dt.minute, dt.second)


def parse_http_date(s):
    try:
        wd, rest = s.split(', ', 1)
        d, mon, y, hms, gmt = rest.split(' ')
        hh, mm, ss = hms.split(':')
        if gmt != 'GMT' or wd not in _DAYS or mon not in _MONTHS:
            return None
        dt = datetime.datetime(int(y), _MONTHS.index(mon) + 1, int(d), int(hh), int(mm), int(ss))
        if _DAYS[dt.weekday()] != wd:
            return None
        return dt
    except (ValueError, IndexError):
        return None


# ---------------------------------------------------------------------------
# RFC 6265 section 5.2 -- what a user agent reads out of one Set-Cookie line
# ---------------------------------------------------------------------------
FLAG_ATTRS = ('secure', 'httponly', 'partitioned')


def parse_set_cookie(line):
    """-> (name, raw_value, attrs) ; attrs: lower-case name -> value ('' for flags);
    a repeated attribute is returned under 'DUP:<name>' so that it can never match."""
    parts = line.split(';')
    nv = parts[0]
    if '=' not in nv:
        return None
    name, value = nv.split('=', 1)
    name, value = name.strip(), value.strip()
    if not name:
        return None
    attrs = {}
    for p in parts[1:]:
        an, _, av = p.partition('=')
        an, av = an.strip().lower(), av.strip()
        if an in attrs:
            an = 'DUP:' + an
        attrs[an] = av
    return name, value, attrs


def cookie_value_matches(raw, value):
    """cookie-value = *cookie-octet / ( DQUOTE *cookie-octet DQUOTE ) -- for the plain
    token values used in histories."""
    return raw == value or raw == '"' + value + '"'


def expected_cookie_attrs(spec, secure_default):
    """The attributes a cookie written with `spec` (kwargs of set_cookie) must carry --
    exactly these, nothing else."""
    want = {}
    if spec.get('expires') is not None:
        want['expires'] = http_date(spec['expires'])
    if spec.get('max_age') is not None:
        want['max-age'] = str(int(spec['max_age']))
    if spec.get('domain'):
        want['domain'] = spec['domain']
    if spec.get('path'):
        want['path'] = spec['path']
    sec = spec.get('secure')
    if sec is None:
        sec = secure_default
    if sec:
        want['secure'] = ''
    if spec.get('http_only', True):
        want['httponly'] = ''
    if spec.get('same_site'):
        want['samesite'] = spec['same_site'].lower().capitalize()
    if spec.get('partitioned'):
        want['partitioned'] = ''
    return want


def attrs_diff(got, want):
    """'' if equal, else a short class: which attribute differs and how."""
    for k in sorted(set(got) | set(want)):
        if k not in want:
            return 'extra:' + k
        if k not in got:
            return 'missing:' + k
        if k == 'samesite' and got[k].lower() == want[k].lower():
            continue                    # attribute values are matched case-insensitively by user agents
        if got[k] != want[k]:
            return 'value:' + k
    return ''


# ---------------------------------------------------------------------------
# the response-header model
# ---------------------------------------------------------------------------
class HeaderModel:
    __slots__ = ('plain', 'raw', 'jar')

    def __init__(self):
        self.plain = {}     # lower-case name -> value
        self.raw = []       # raw Set-Cookie values, in order
        self.jar = {}       # cookie name -> ('set', value, spec) | ('unset', spec)

    def key(self):
        return (tuple(sorted(self.plain.items())), tuple(self.raw),
                tuple((k, repr(v)) for k, v in self.jar.items()))

    @staticmethod
    def _guard(name):
        if name.lower() == 'set-cookie':
            raise NotSupported(name)

    def get(self, name):
        self._guard(name)
        return self.plain.get(name.lower())

    def set(self, name, value):
        self._guard(name)
        self.plain[name.lower()] = str(value)

    def delete(self, name):
        self._guard(name)
        self.plain.pop(name.lower(), None)

    def append(self, name, value):
        n = name.lower()
        if n == 'set-cookie':
            self.raw.append(str(value))
        elif n in self.plain:
            self.plain[n] = self.plain[n] + ', ' + str(value)
        else:
            self.plain[n] = str(value)

    def set_many(self, pairs):
        """Bulk set: every pair up to the first offending one takes effect?  The
        statement only says Set-Cookie can not be written; the model refuses the call
        and leaves earlier pairs applied (what any sequential implementation does) --
        the harness only uses Set-Cookie as the FIRST pair, so both readings agree."""
        for n, v in pairs:
            self._guard(n)
            self.plain[n.lower()] = str(v)

    def set_cookie(self, name, value, spec):
        self.jar[name] = ('set', value, dict(spec))

    def unset_cookie(self, name, spec):
        self.jar[name] = ('unset', '', dict(spec))


# ---------------------------------------------------------------------------
# RFC 3986 percent-decoding and character classes
# ---------------------------------------------------------------------------
UNRESERVED = frozenset('ABCDEFGHIJKLMNOPQRSTUVWXYZabcdefghijklmnopqrstuvwxyz0123456789-._~')
RESERVED = frozenset(":/?#[]@!$&'()*+,;=")
HEX = frozenset('0123456789abcdefABCDEF')


def pct_decode(s):
    """-> str, or None when `s` is not ASCII / holds a malformed escape / is not UTF-8."""
    out = bytearray()
    i, n = 0, len(s)
    while i < n:
        c = s[i]
        if ord(c) > 127:
            return None
        if c == '%':
            if i + 3 <= n and s[i + 1] in HEX and s[i + 2] in HEX:
                out.append(int(s[i + 1:i + 3], 16))
                i += 3
                continue
            return None
        out.append(ord(c))
        i += 1
    try:
        return out.decode('utf-8')
    except UnicodeDecodeError:
        return None


def looks_escaped(s, allowed):
    """An input the helpers are documented to leave alone: only allowed characters and
    well-formed %XX escapes, at least one of them."""
    if '%' not in s:
        return False
    i, n = 0, len(s)
    while i < n:
        c = s[i]
        if c == '%':
            if i + 3 <= n and s[i + 1] in HEX and s[i + 2] in HEX:
                i += 3
                continue
            return False
        if c not in allowed:
            return False
        i += 1
    return True


def uri_chars_ok(s, allowed):
    i, n = 0, len(s)
    while i < n:
        c = s[i]
        if c == '%':
            if not (i + 3 <= n and s[i + 1] in HEX and s[i + 2] in HEX):
                return False
            i += 3
            continue
        if c not in allowed:
            return False
        i += 1
    return True


def check_uri_value(original, emitted, value_mode=False):
    """'' if `emitted` is a faithful ASCII rendering of `original`, else a reason class."""
    allowed = UNRESERVED if value_mode else (UNRESERVED | RESERVED)
    if not isinstance(emitted, str) or not emitted.isascii():
        return 'not-ascii'
    if looks_escaped(original, allowed):
        return '' if emitted == original else 'escaped-input-changed'
    if not uri_chars_ok(emitted, allowed):
        return 'illegal-uri-char'
    if pct_decode(emitted) != original:
        return 'decode-mismatch'
    return ''


# ---------------------------------------------------------------------------
# Link and Content-Disposition readers
# ---------------------------------------------------------------------------
def parse_link(value):
    """One link-value '<target>; p=v; ...' -> (target, {param: value}) or None."""
    if not value.startswith('<'):
        return None
    end = value.find('>')
    if end < 0:
        return None
    target = value[1:end]
    params = {}
    rest = value[end + 1:]
    for p in rest.split(';'):
        p = p.strip()
        if not p:
            continue
        k, _, v = p.partition('=')
        v = v.strip()
        if len(v) >= 2 and v[0] == '"' and v[-1] == '"':
            v = v[1:-1]
        params.setdefault(k.strip().lower(), v)
    return target, params


def parse_ext_value(v):
    """RFC 8187 ext-value: charset'lang'pct -> (charset, lang, text) or None."""
    parts = v.split("'", 2)
    if len(parts) != 3:
        return None
    text = pct_decode(parts[2])
    if text is None or not uri_chars_ok(parts[2], UNRESERVED | frozenset("!#$&+^`|")):
        return None
    return parts[0], parts[1], text


def parse_content_disposition(value):
    """-> (type, params) with quoted-string values unquoted (RFC 6266 / RFC 9110 5.6.4);
    None if the parameter list is not well-formed."""
    dtype, sep, rest = value.partition(';')
    params = {}
    i, n = 0, len(rest)
    if not sep:
        return dtype.strip(), params
    while i < n:
        while i < n and rest[i] in ' ;':
            i += 1
        if i >= n:
            break
        j = rest.find('=', i)
        if j < 0:
            return None
        name = rest[i:j].strip().lower()
        i = j + 1
        if i < n and rest[i] == '"':
            i += 1
            buf = []
            while True:
                if i >= n:
                    return None            # unterminated quoted-string
                c = rest[i]
                if c == '\\' and i + 1 < n:
                    buf.append(rest[i + 1])
                    i += 2
                    continue
                if c == '"':
                    i += 1
                    break
                buf.append(c)
                i += 1
            val = ''.join(buf)
            # after a quoted-string only OWS and ';' may follow
            k = i
            while k < n and rest[k] == ' ':
                k += 1
            if k < n and rest[k] != ';':
                return None
        else:
            j = rest.find(';', i)
            if j < 0:
                j = n
            val = rest[i:j].strip()
            i = j
        if name in params:
            return None
        params[name] = val
    return dtype.strip(), params


def ref_encode(s, value_mode=False):
    """RFC 3986 percent-encoding of a str: UTF-8 octets of every character outside the
    allowed set become %XX (upper-case hex)."""
    allowed = UNRESERVED if value_mode else (UNRESERVED | RESERVED)
    if looks_escaped(s, allowed):
        return s
    out = []
    for ch in s:
        if ch in allowed:
            out.append(ch)
        else:
            out.extend('%%%02X' % b for b in ch.encode('utf-8'))
    return ''.join(out)
