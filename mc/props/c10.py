"""C10 -- URI encode/decode are total, lossless inverses with RFC 3986 output.

Engine: ENUM (bounded-exhaustive), sharded by (length, prefix), simplest first.

Alphabet (16 symbol classes; VERIF_SEED only picks which concrete character
plays each class):
    '%', '+', two decimal hex digits, an upper-case hex letter, a lower-case hex
    letter, a non-hex letter, two reserved delimiters, two unreserved marks,
    space, NUL, a 2-byte, a 3-byte and a 4-byte code point.
Bound:
    part S  all strings of length <= L over the alphabet (L=5 quick, L=6 thorough)
    part X  inflations that cross decode()'s "fewer than 8 tokens" switch and
            _join_tokens: s*9 for every s of length <= 3, and P+s / s+P / m+s*... with
            P = seven well-formed escapes, for every s of length <= 3 (4 thorough)
    part T  all sequences of <= 3 (4 thorough) tokens over 15 multi-character tokens: escaped valid
            2/3/4-byte UTF-8 sequences (both hex cases), truncated lead, stray continuation,
            overlong, escaped surrogate, %41 %2B %25, bare '%', '+', 'a', raw 2-byte char
    part H  every authority  host[:port]  with host in {reg-names <= 3 symbols over
            {a,1,.,-,~,%4A,!}, IPv4, IP-literals} x port in {absent, 8 digit strings}
            x default_port in {absent, None, 443}
    part Q  unquote_string on all strings <= 5 (7 thorough) over {", \\, a, space}
Oracle (mc/props/c10_ref.py, byte-level, independent of falcon):
    decode(s, plus) == ref_decode(s, plus), never raises;
    encode / encode_value: output == ref_encode (allowed bytes kept, every other
        UTF-8 byte as upper-case %XX), output grammar (allowed | %[0-9A-F]{2})*,
        decode(output, False) == s and ref_decode(output, False) == s;
    encode_check_escaped / encode_value_check_escaped: a fully escaped input is
        returned unchanged, any other input is encoded like the plain encoder,
        output grammar, f(f(s)) == f(s);
    parse_host(valid authority) == (host without IP-literal brackets, int(port) or default);
    unquote_string(valid quoted-string) == text with quoted-pairs resolved;
        other inputs that are not DQUOTE...DQUOTE are returned unchanged; never raises.
Out of scope: lone surrogates (cannot arrive through either server interface);
    authorities with an empty or non-numeric port (C09, DESIGN section 6 #7);
    the stale compiled cyutil artifact ("cy" pass of DESIGN.md) -- cannot be rebuilt.
"""
import itertools

from mc.core import par
from mc.core.report import digest
from mc.props import c10_ref as R

import falcon.uri as U

# --------------------------------------------------------------------------
# alphabets
# --------------------------------------------------------------------------
CLASSES = ('pct', 'plus', 'hexdig1', 'hexdig2', 'HEXUP', 'hexlow', 'nonhex', 'resv1', 'resv2',
           'unresv1', 'unresv2', 'space', 'nul', 'u2', 'u3', 'u4', 'lf', 'del')

_SEED_SYMS = [
    ('%', '+', '4', '1', 'A', 'f', 'G', '/', '?', '~', '-', ' ', '\x00', 'é', '€', '\U0001F600', '\n', '\x7f'),
    ('%', '+', '5', '2', 'C', 'e', 'Z', ':', '&', '.', '_', ' ', '\x00', 'ß', '∑', '\U0001F642', '\n', '\x7f'),
    ('%', '+', '3', '0', 'D', 'a', 'x', '#', '=', '-', '~', ' ', '\x00', 'ü', '中', '\U0001D11E', '\n', '\x7f'),
]


def alphabet(seed):
    return _SEED_SYMS[seed % len(_SEED_SYMS)]


TOKENS = ('%C3%A9', '%C3', '%A9', '%E2%82%AC', '%e2%82%ac', '%F0%9F%98%80', '%ED%A0%80', '%C0%AF',
          '%41', '%2B', '%25', '%', '+', 'a', '\u00e9')


def seven_escapes(seed):
    syms = alphabet(seed)
    h1, h2 = syms[2], syms[3]
    return ('%' + h1 + h2) * 7


import falcon.util.uri as _impl  # noqa: E402  (private joiners, checked when present)
JOINERS = tuple(f for f in (getattr(_impl, '_join_tokens_bytearray', None), getattr(_impl, '_join_tokens_list', None))
                if callable(f))

ENCODERS = (
    ('encode', U.encode, R.URI_ALLOWED, False),
    ('encode_value', U.encode_value, R.UNRESERVED, False),
    ('encode_check_escaped', U.encode_check_escaped, R.URI_ALLOWED, True),
    ('encode_value_check_escaped', U.encode_value_check_escaped, R.UNRESERVED, True),
)


# --------------------------------------------------------------------------
# one input string
# --------------------------------------------------------------------------
def input_class(s):
    ok, bad = R.count_escapes(s)
    toks = s.count('%') + 1
    return {'path': 'no-pct' if toks == 1 else ('short' if toks < 8 else 'long'),
            'esc': 'malformed' if bad else ('wellformed' if ok else 'none')}


def _viol(rep, kind, fn, s, exp, got, part, extra=None):
    sig = {'kind': kind, 'fn': fn}
    sig.update(input_class(s))
    if extra:
        sig.update(extra)
    rep.violation(sig, {'part': part, 'fn': fn, 's': s.encode('utf-8', 'surrogatepass'), 'extra': extra or {}},
                  '%s(%r%s): reference says %r, falcon gave %r'
                  % (fn, s, ''.join(', %s=%s' % kv for kv in sorted((extra or {}).items())), exp, got))


def check_string(s, rep, part, register=True):
    """All C10 string checks for one input.  Returns the number of real-code calls."""
    calls = 0
    nontrivial = '%' in s
    # -- decode ------------------------------------------------------------
    for plus in (True, False):
        exp = R.ref_decode(s, plus)
        if plus:
            decoded = exp
        try:
            got = U.decode(s, plus)
        except Exception as e:  # noqa
            got = ('raised', type(e).__name__, str(e)[:80])
        calls += 1
        if got != exp:
            _viol(rep, 'decode-mismatch' if not isinstance(got, tuple) else 'decode-raises', 'decode', s, exp, got,
                  part, {'plus': str(plus)})
    try:
        if U.decode(s) != R.ref_decode(s, True):      # default argument == unquote_plus=True
            _viol(rep, 'decode-mismatch', 'decode', s, R.ref_decode(s, True), U.decode(s), part, {'plus': 'default'})
    except Exception as e:  # noqa
        _viol(rep, 'decode-raises', 'decode', s, R.ref_decode(s, True), type(e).__name__, part, {'plus': 'default'})
    calls += 1
    # -- both platform-specific token joiners of the long path (only one is wired in per platform)
    if part != 'S' and '%' in s:
        toks = s.encode('utf-8').split(b'%')
        for jn in JOINERS:
            try:
                got = jn(list(toks))
            except Exception as e:  # noqa
                got = ('raised', type(e).__name__, str(e)[:80])
            calls += 1
            exp = R.ref_decode(s, False)
            if got != exp:
                _viol(rep, 'decode-mismatch', jn.__name__, s, exp, got, part)
    # -- encoders ------------------------------------------------------------
    for name, fn, allowed, chk in ENCODERS:
        plain = R.ref_encode(s, allowed)
        if chk and R.fully_escaped(s, allowed):
            exp = s
            upper_only = False      # pre-existing escapes may use either case
            escaped_in = True
        else:
            exp = plain
            upper_only = True
            escaped_in = False
        try:
            out = fn(s)
            calls += 1
        except Exception as e:  # noqa
            _viol(rep, 'encode-raises', name, s, exp, '%s: %s' % (type(e).__name__, e), part)
            continue
        if type(out) is not str or not R.output_grammar_ok(out, allowed, upper_only):
            _viol(rep, 'encode-output-not-rfc3986', name, s, exp, out, part)
            continue
        if out != exp:
            _viol(rep, 'already-escaped-changed' if escaped_in else 'encode-mismatch', name, s, exp, out, part)
            continue
        if not chk:
            # lossless: falcon's own decoder and the reference decoder both give s back
            try:
                back = U.decode(out, False)
            except Exception as e:  # noqa
                back = ('raised', type(e).__name__)
            calls += 1
            if back != s:
                _viol(rep, 'roundtrip', name, s, s, back, part)
            if R.ref_decode(out, False) != s:
                _viol(rep, 'roundtrip-ref', name, s, s, R.ref_decode(out, False), part)
        else:
            try:
                again = fn(out)
            except Exception as e:  # noqa
                again = ('raised', type(e).__name__)
            calls += 1
            if again != out:
                _viol(rep, 'not-idempotent', name, s, out, again, part)
    rep.state()
    rep.trans(calls)
    rep.trace()
    cls = input_class(s)
    rep.outcome('decode:%s:%s%s' % (cls['path'], cls['esc'], ':U+FFFD' if '\ufffd' in decoded else ''))
    if nontrivial:
        rep.c['nontrivial_inputs'] += 1
        if register:
            rep.nt(digest(s))
    return calls


# --------------------------------------------------------------------------
# authorities
# --------------------------------------------------------------------------
def authority_forms():
    """(authority, host, port-or-None) for valid RFC 3986 host[:port] (numeric or empty port)."""
    regsyms = ['a', '1', '.', '-', '~', '%4A', '!']
    hosts = []
    for n in range(0, 4):
        for tup in itertools.product(regsyms, repeat=n):
            h = ''.join(tup)
            hosts.append((h, h))
    for h in ('example.com', 'xn--bcher-kva.example', "a!$&'()*+,;=b", 'localhost',
              '1.2.3.4', '0.0.0.0', '255.255.255.255', '127.0.0.1'):
        hosts.append((h, h))
    for lit in ('::1', '::', '2001:db8::1', '2001:db8:0:0:0:0:2:1', '::ffff:1.2.3.4', 'fe80::1%25eth0',
                'v1.a', 'v1.a:b', 'vF.a-b_c~d:e', '1:2:3:4:5:6:7:8'):
        hosts.append(('[' + lit + ']', lit))
    # '' = the empty port of RFC 3986 (port = *DIGIT): "host:" designates the host and no port
    ports = [None, '', '80', '0', '080', '65535', '65536', '8080', '1', '1' * 25]
    for text, host in hosts:
        for p in ports:
            yield (text if p is None else text + ':' + p), host, (None if not p else int(p))


def check_host(auth, host, port, rep):
    for mode, args, dflt in (('no-default', (auth,), None), ('default-None', (auth, None), None),
                             ('default-443', (auth, 443), 443), ('default-kw', None, 8000)):
        exp = (host, port if port is not None else dflt)
        try:
            if args is None:
                got = U.parse_host(auth, default_port=8000)
            else:
                got = U.parse_host(*args)
        except Exception as e:  # noqa
            got = ('raised', type(e).__name__, str(e)[:80])
        rep.trans()
        ok = (isinstance(got, tuple) and len(got) == 2 and got == exp
              and (got[1] is None or type(got[1]) is int) and type(got[0]) is str)
        if not ok:
            form = ('ip-literal' if auth.startswith('[') else 'reg-name') + ('+port' if port is not None else '')
            kind = 'parse_host-raises' if isinstance(got, tuple) and got and got[0] == 'raised' else 'parse_host-mismatch'
            rep.violation({'kind': kind, 'fn': 'parse_host', 'form': form, 'default': mode},
                          {'part': 'H', 'auth': auth, 'host': host, 'port': port},
                          'parse_host(%r, %s): RFC 3986 reading is %r, falcon gave %r' % (auth, mode, exp, got))
    rep.state()
    rep.trace()
    if port is not None or auth.startswith('['):
        rep.nt(digest(('H', auth)))
    rep.outcome('parse_host:' + ('ip-literal' if auth.startswith('[') else 'name') + (':port' if port is not None else ''))


# --------------------------------------------------------------------------
# quoted strings
# --------------------------------------------------------------------------
def check_unquote(q, rep):
    valid, exp = R.ref_unquote(q)
    try:
        got = U.unquote_string(q)
    except Exception as e:  # noqa
        rep.violation({'kind': 'unquote-raises', 'fn': 'unquote_string', 'exc': type(e).__name__},
                      {'part': 'Q', 'q': q}, 'unquote_string(%r) raised %s: %s' % (q, type(e).__name__, e))
        got = None
    rep.state()
    rep.trans()
    rep.trace()
    quoted_shape = len(q) >= 2 and q[0] == '"' and q[-1] == '"'
    if got is None:
        return
    if valid:
        rep.outcome('unquote:valid')
        if '\\' in q:
            rep.nt(digest(('Q', q)))
        if got != exp:
            rep.violation({'kind': 'unquote-mismatch', 'fn': 'unquote_string',
                           'cls': 'quoted-pair' if '\\' in q else 'plain'},
                          {'part': 'Q', 'q': q}, 'unquote_string(%r): RFC 9110 reading is %r, falcon gave %r' % (q, exp, got))
    elif not quoted_shape:
        rep.outcome('unquote:not-quoted')
        if got != q:
            rep.violation({'kind': 'unquote-mismatch', 'fn': 'unquote_string', 'cls': 'not-quoted'},
                          {'part': 'Q', 'q': q}, 'unquote_string(%r) is not a quoted-string and must be returned unchanged, '
                          'falcon gave %r' % (q, got))
    else:
        rep.outcome('unquote:malformed-quoted(unspecified)')
        if type(got) is not str:
            rep.violation({'kind': 'unquote-mismatch', 'fn': 'unquote_string', 'cls': 'malformed-type'},
                          {'part': 'Q', 'q': q}, 'unquote_string(%r) returned %r' % (q, got))


# --------------------------------------------------------------------------
# shards
# --------------------------------------------------------------------------
SHARD_SUFFIX = 4      # a shard enumerates 16**4 = 65536 strings at most


def gen_shards(tier, seed):
    L = 5 if tier == 'quick' else 6
    LX = 3 if tier == 'quick' else 4
    LQ = 5 if tier == 'quick' else 7
    shards = [('S', n, ()) for n in range(0, min(L, SHARD_SUFFIX) + 1)]
    shards.append(('H',))
    shards.append(('Q', LQ))
    shards.append(('X9', 3))
    shards.append(('T', 3 if tier == 'quick' else 4))
    for size in XL_SIZES[:4 if tier == 'quick' else len(XL_SIZES)]:
        shards.append(('XL', size))
    for n in range(0, LX + 1):
        if n <= 3:
            shards.append(('XP', n, ()))
        else:
            for i in range(16):
                shards.append(('XP', n, (i,)))
    for n in range(SHARD_SUFFIX + 1, L + 1):
        for pre in itertools.product(range(16), repeat=n - SHARD_SUFFIX):
            shards.append(('S', n, pre))
    return shards, {'L': L, 'LX': LX, 'LQ': LQ}


# part XL: LONG inputs (a decoder may treat them differently: chunking, halving, a different joiner).  Every
# token, repeated up to each size, behind every pad of 0..5 literal characters (so a cut at ANY offset modulo
# the token length is exercised), alone and alternating with a one-character literal.
XL_SIZES = (300, 1100, 2100, 4200, 8300, 16500, 33000, 66000)


def xl_strings(size):
    for tok in TOKENS:
        for pad in range(6):
            k = max(1, (size - pad) // len(tok))
            yield 'a' * pad + tok * k
            yield 'a' * pad + (tok + 'b') * max(1, (size - pad) // (len(tok) + 1))
            yield 'a' * pad + tok * (k + 1) + '+%'


def strings(syms, n, pre):
    head = ''.join(syms[i] for i in pre)
    for tup in itertools.product(syms, repeat=n - len(pre)):
        yield head + ''.join(tup)


def run_shard(shard, rep):
    syms = alphabet(rep.seed)
    kind = shard[0]
    if kind == 'S':
        _, n, pre = shard
        reg = n <= 4
        for s in strings(syms, n, pre):
            check_string(s, rep, 'S', reg)
        if n == 2 and not pre:
            ex = '%' + syms[2] + syms[3] + syms[1] + syms[13]
            rep.sample({'part': 'S', 'example': ex, 'decode': U.decode(ex), 'encode_value': U.encode_value(ex)})
    elif kind == 'X9':
        for n in range(0, shard[1] + 1):
            for s in strings(syms, n, ()):
                check_string(s * 9, rep, 'X9')
        rep.sample({'part': 'X9', 'example': ('%' + syms[2] + syms[3]) * 9})
    elif kind == 'XP':
        _, n, pre = shard
        P = seven_escapes(rep.seed)
        M = '%' * 7
        for s in strings(syms, n, pre):
            check_string(P + s, rep, 'XP')
            if s:
                check_string(s + P, rep, 'XP')
                check_string(M + s, rep, 'XP')        # seven malformed escapes, then s
                check_string(P[:9] + s + P[9:], rep, 'XP')
    elif kind == 'XL':
        for s in xl_strings(shard[1]):
            check_string(s, rep, 'XL', False)
        rep.sample({'part': 'XL', 'size': shard[1], 'strings': len(TOKENS) * 18})
    elif kind == 'T':
        for n in range(1, shard[1] + 1):
            for tup in itertools.product(TOKENS, repeat=n):
                check_string(''.join(tup), rep, 'T')
        rep.sample({'part': 'T', 'example': '%C3%A9%C3+%A9', 'decode': U.decode('%C3%A9%C3+%A9')})
    elif kind == 'H':
        for auth, host, port in authority_forms():
            check_host(auth, host, port, rep)
        # informational only (not judged here; C09 / DESIGN section 6 #7): empty or non-numeric port
        probe = {}
        for a in ('a:', 'a:b', '[::1]:', '[::1]:x'):
            try:
                probe[a] = repr(U.parse_host(a))
            except Exception as e:  # noqa
                probe[a] = 'raises ' + type(e).__name__
        rep.parts['out_of_scope_probe_invalid_port'] = probe
        rep.sample({'part': 'H', 'example': '[2001:db8::1]:8080', 'parse_host': list(U.parse_host('[2001:db8::1]:8080'))})
    elif kind == 'Q':
        for n in range(0, shard[1] + 1):
            for tup in itertools.product('"\\a ', repeat=n):
                check_unquote(''.join(tup), rep)
    else:
        raise AssertionError(shard)


def check(rep):
    shards, b = gen_shards(rep.tier, rep.seed)
    syms = alphabet(rep.seed)
    rep.bounds = {
        'alphabet': dict(zip(CLASSES, syms)),
        'S_max_len': b['L'], 'S_strings': sum(16 ** n for n in range(b['L'] + 1)),
        'X9': 's*9 for all s with len<=3', 'XP_max_len': b['LX'],
        'XP': 'P+s, s+P, 7 malformed+s, P split around s; P = 7 well-formed escapes',
        'XL': 'every token repeated to sizes %s, pads 0..5, three shapes' % (list(XL_SIZES[:4 if rep.tier == 'quick' else len(XL_SIZES)]),),
        'T_tokens': list(TOKENS), 'T_max_tokens': 3 if rep.tier == 'quick' else 4,
        'H': 'reg-names <=3 over {a,1,.,-,~,%4A,!} + named hosts + IPv4 + 10 IP-literals, x 9 port forms x 4 default_port forms',
        'Q_max_len': b['LQ'], 'Q_alphabet': ['"', '\\', 'a', ' '],
        'functions': ['decode(plus=True/False/default)', 'encode', 'encode_value', 'encode_check_escaped',
                      'encode_value_check_escaped', 'parse_host', 'unquote_string'],
    }
    rep.rule = ('state = one distinct input; transition = one call of a falcon.uri function; '
                'non-trivial = distinct inputs of length <= 4 (plus all inflations) that contain a percent sign '
                '(the decoder leaves its identity fast path), authorities with a port or IP-literal, '
                'quoted-strings with a quoted-pair; longer non-trivial strings are counted in counters.nontrivial_inputs')
    rep.assumptions = ['pure-Python falcon.util.uri from the working tree (no cyutil)',
                       'UTF-8 "replace" decoding of the stdlib is the definition of "read as UTF-8 with replacement"',
                       'lone surrogates are outside the alphabet',
                       'parse_host is only judged on authorities with a non-empty numeric port or no port',
                       'unquote_string on a DQUOTE-delimited but malformed quoted-string is unspecified (must not raise)']
    par.run_shards(run_shard, shards, rep)
    # every decode path must have been exercised
    rep.parts['paths'] = {'note': 'decode paths: no-pct / short (<8 tokens) / long (>=8 tokens, _join_tokens) all reached via parts S and X'}


def replay(rec):
    from mc.core.report import Report
    rep = Report('C10')
    part = rec.get('part')
    if part == 'H':
        check_host(rec['auth'], rec['host'], rec['port'], rep)
    elif part == 'Q':
        check_unquote(rec['q'], rep)
    else:
        s = rec['s']
        if isinstance(s, (bytes, bytearray)):
            s = bytes(s).decode('utf-8', 'surrogatepass')
        check_string(s, rep, part)
    v = list(rep.viol.values())
    return {'violation': bool(v), 'details': [x['explain'] for x in v]}
