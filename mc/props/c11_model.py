"""Reference model for C11 (and for the Accept family of C09).

Own reading of RFC 9110 section 12.5.1 plus the order documented for
``falcon.mediatypes.quality``:

    type exact > type wildcard ; subtype exact > subtype wildcard ;
    all parameter names equal > not ; number of common parameters ; q

A range does not match when type or subtype differ (neither a wildcard) or when a
parameter present on both sides has different values.  Quality = q of the most
specific matching range (highest q among equally specific ones), 0.0 when nothing
matches.  best match = the FIRST candidate with the highest quality, '' when that
quality is 0.

Imports nothing from falcon.
"""
import re

MALFORMED = 'MALFORMED'

_TOKEN = r"[!#$%&'*+.^_`|~0-9A-Za-z-]+"
_QDECIMAL = re.compile(r'^(?:[0-9]+(?:\.[0-9]*)?|\.[0-9]+)$')
# RFC 9110 12.4.2: qvalue = ( "0" [ "." 0*3DIGIT ] ) / ( "1" [ "." 0*3("0") ] )
_QSTRICT = re.compile(r'^(?:0(?:\.[0-9]{0,3})?|1(?:\.0{0,3})?)$')
_STRICT_RANGE = re.compile(
    r'^(?:\*/\*|{t}/\*|{t}/{t})(?:[ \t]*;[ \t]*{t}=(?:{t}|"(?:[^"\\\x00-\x08\x0a-\x1f\x7f]|\\[\t -~])*"))*$'.format(t=_TOKEN))


def split_outside_quotes(s, sep):
    """Split on `sep` except inside a quoted-string (backslash escapes the next char)."""
    out, cur, inq, i = [], [], False, 0
    while i < len(s):
        c = s[i]
        if inq:
            cur.append(c)
            if c == '\\' and i + 1 < len(s):
                cur.append(s[i + 1])
                i += 1
            elif c == '"':
                inq = False
        elif c == '"':
            inq = True
            cur.append(c)
        elif c == sep:
            out.append(''.join(cur))
            cur = []
        else:
            cur.append(c)
        i += 1
    out.append(''.join(cur))
    return out


def _unquote(v):
    if len(v) >= 2 and v[0] == '"' and v[-1] == '"':
        body, out, i = v[1:-1], [], 0
        while i < len(body):
            if body[i] == '\\' and i + 1 < len(body):
                out.append(body[i + 1])
                i += 2
            else:
                out.append(body[i])
                i += 1
        return ''.join(out)
    return v


def parse_member(member, is_range=True):
    """-> (type, subtype, params:dict, q) or MALFORMED.

    Lenient where falcon documents leniency: optional whitespace anywhere around the
    separators, a lone '*' means '*/*', q may carry more than three decimals."""
    parts = split_outside_quotes(member, ';')
    full = parts[0].strip(' \t')
    if full == '*':
        full = '*/*'
    if '/' not in full:
        return MALFORMED
    t, _, st = full.partition('/')
    t, st = t.strip(' \t'), st.strip(' \t')
    params = {}
    for p in parts[1:]:
        if '=' not in p:
            continue
        name, _, val = p.partition('=')
        params[name.strip(' \t').lower()] = _unquote(val.strip(' \t'))
    q = 1.0
    if is_range and 'q' in params:
        qs = params.pop('q')
        if not _QDECIMAL.match(qs):
            return MALFORMED
        q = float(qs)
        if not 0.0 <= q <= 1.0:
            return MALFORMED
    return (t, st, params, q)


def parse_header(header):
    """-> list of parsed ranges, or MALFORMED when any member is."""
    out = []
    for m in split_outside_quotes(header, ','):
        r = parse_member(m)
        if r is MALFORMED:
            return MALFORMED
        out.append(r)
    return out


def score(rng, mt):
    rt, rs, rp, q = rng
    mtt, ms, mp, _ = mt
    if rt == '*' or mtt == '*':
        a = 0
    elif rt != mtt:
        return None
    else:
        a = 1
    if rs == '*' or ms == '*':
        b = 0
    elif rs != ms:
        return None
    else:
        b = 1
    common = [n for n in rp if n in mp]
    for n in common:
        if rp[n] != mp[n]:
            return None
    exact = 1 if sorted(rp) == sorted(mp) else 0
    return (a, b, exact, len(common), q)


def quality_parsed(mt, ranges):
    best = None
    for r in ranges:
        s = score(r, mt)
        if s is not None and (best is None or s > best):
            best = s
    return 0.0 if best is None else best[4]


def quality(media_type, header):
    """-> float, or MALFORMED (header or media type not parseable)."""
    mt = parse_member(media_type, is_range=False)
    if mt is MALFORMED:
        return MALFORMED
    ranges = parse_header(header)
    if ranges is MALFORMED:
        return MALFORMED
    return quality_parsed(mt, ranges)


def best_match(candidates, header):
    """-> chosen candidate, '' for none, or MALFORMED."""
    candidates = list(candidates)
    if not candidates:
        return ''
    best, bestq = '', 0.0
    for c in candidates:
        q = quality(c, header)
        if q is MALFORMED:
            return MALFORMED
        if q > bestq:
            best, bestq = c, q
    return best


def strictly_valid(header):
    """RFC 9110 Accept grammar, strictly (used by C09: VALID => exact value)."""
    for m in split_outside_quotes(header, ','):
        m = m.strip(' \t')
        if not m:
            return False    # a sender must not generate empty list elements (RFC 9110 5.6.1.1)
        if not _STRICT_RANGE.match(m):
            return False
        r = parse_member(m)
        if r is MALFORMED:
            return False
        seen = set()
        for p in split_outside_quotes(m, ';')[1:]:
            name, _, val = p.partition('=')
            name = name.strip(' \t').lower()
            if name in seen:
                return False        # a repeated parameter name has no defined reading
            seen.add(name)
            if name == 'q' and not _QSTRICT.match(val.strip(' \t')):
                return False
    return True


def resolve(mapping, media_type, default):
    """Handler-map resolution: -> key designated by `mapping` (an ordered dict) or None (=> 415).
    Exact key first, else the negotiation rule with the content type as the header and the
    keys as candidates; a missing or '*/*' type means `default`."""
    if media_type == '*/*' or not media_type:
        media_type = default
    if media_type in mapping:
        return media_type
    m = best_match(list(mapping.keys()), media_type)
    if m is MALFORMED or not m:
        return None
    return m
