"""C17 -- WebSocket sessions follow the ASGI state machine and report misuse and errors.

ENUM over responder scripts (all sequences of <= k operations) x client scripts x ASGI spec
version x receive-queue size x routing / middleware / error-handler variants; CHOICE-style
fault placement (the server's send() raises at call j) enumerated exhaustively for one fault.
Every session runs a real falcon.asgi.App on a VLoop (deterministic default schedule: the fake
server hands over the next client event as soon as it is asked; every client script ends with a
disconnect -- the horizon -- so every session terminates).

Oracles
 (a) independent server-side monitor of the event stream: connect -> at most one accept ->
     data only while accepted -> at most one close; nothing after close; nothing after the
     framework was handed the client's disconnect; accept headers only for spec >= 2.1, close
     reason only for >= 2.3; when the responder ends without closing and the client is still
     there, a close (denial before accept) IS sent; receive() never awaited again after the
     disconnect was handed over; nothing escapes the app; the session terminates.
 (b) a (state x operation) table: the outcome of every scripted operation -- value, or the
     documented exception class (OperationNotAllowed, WebSocketDisconnected, PayloadTypeError,
     TypeError, ValueError) -- computed from the model state and from what the environment
     has handed over so far.
 (c) close codes: unrouted 3404, no on_websocket 3405, HTTPError/HTTPStatus 3000+status,
     unexpected exception -> configured error_close_code (3011 when that one is invalid).
 (d) payloads: what the client sent arrives unchanged, in order; what the responder sent
     reaches the server unchanged, in order.
"""
import itertools
import json
import logging

import falcon
import falcon.asgi
from falcon.errors import OperationNotAllowed, PayloadTypeError, WebSocketDisconnected

from mc.core import par
from mc.core.vloop import VLoop, Deadlock
from mc.core.report import digest

logging.getLogger('falcon').setLevel(100)

OPS = ['accept', 'accept_sub', 'accept_hdr', 'accept_proto', 'close', 'close3001', 'close999', 'close1005', 'send_text', 'send_data', 'send_data_buf',
       'send_media', 'send_media_bin', 'send_text_bytes', 'send_text_int', 'recv_text', 'recv_data', 'recv_media', 'raise403', 'raise_status', 'raise_value']
CORE_OPS = ['accept', 'close', 'close999', 'send_text', 'send_media', 'recv_text', 'recv_data', 'raise403', 'raise_value']
TERMINAL = {'raise403', 'raise_status', 'raise_value'}
DOCUMENTED = {'OperationNotAllowed', 'WebSocketDisconnected', 'PayloadTypeError', 'TypeError', 'ValueError', 'OSError',
              'RuntimeError'}

CLIENTS = {
    'none': [],
    't': [('text', '"m1"')],
    'b': [('bytes', b'\x01m2')],
    'tb': [('text', '"m1"'), ('bytes', b'\x02')],
    'tt': [('text', '"m1"'), ('text', '"m2"')],
    'empty': [('none', None)],
    'b2': [('bytes2', b'\x01m2')],
    't2b2': [('text2', '"m1"'), ('bytes2', b'\x02')],
}


class Env:
    def __init__(self, client, disc_code, fail_at=None, fail_kind=None):
        self.events_in = [{'type': 'websocket.connect'}]
        for kind, payload in client:
            ev = {'type': 'websocket.receive'}
            if kind == 'text':
                ev['text'] = payload
            elif kind == 'bytes':
                ev['bytes'] = payload
            elif kind == 'text2':
                # the other legal shape of the same event: both keys present, the unused one None
                ev['text'] = payload
                ev['bytes'] = None
            elif kind == 'bytes2':
                ev['bytes'] = payload
                ev['text'] = None
            else:
                ev['text'] = None
                ev['bytes'] = None
            self.events_in.append(ev)
        d = {'type': 'websocket.disconnect'}
        if disc_code is not None:
            d['code'] = disc_code
        self.events_in.append(d)
        self.i = 0
        self.disc_handed = False
        self.sent = []
        self.problems = []
        self.n_send = 0
        self.fail_at = fail_at
        self.fail_kind = fail_kind
        self.failed = False
        self.lost = False

    async def receive(self):
        if self.disc_handed:
            self.problems.append('receive() awaited again after the disconnect event was handed over')
            raise RuntimeError('no more events')
        ev = dict(self.events_in[self.i])
        self.i += 1
        if ev['type'] == 'websocket.disconnect':
            self.disc_handed = True
        return ev

    async def send(self, ev):
        k = self.n_send
        self.n_send += 1
        if self.lost:
            self.problems.append('LOST: event %r handed to the server after its send() had reported the connection lost'
                                 % (ev.get('type') if isinstance(ev, dict) else ev,))
        if self.fail_at is not None and k == self.fail_at:
            self.failed = True
            # an OSError (and the "code = 1000 (OK)" text) is the server saying: the connection is gone
            self.lost = self.fail_kind in ('oserror', 'oserror1001', 'ok1000')
            if self.fail_kind == 'oserror':
                raise OSError('connection lost (injected)')
            if self.fail_kind == 'oserror1001':
                try:
                    raise RuntimeError('received 1001 (going away); then sent 1001 (going away)')
                except RuntimeError as c:
                    raise OSError('connection closed') from c
            if self.fail_kind == 'ok1000':
                raise RuntimeError('code = 1000 (OK), no reason')
            raise RuntimeError('injected failure')
        self.sent.append((dict(ev), self.disc_handed))


def monitor(env, spec):
    """Independent legality check of the server-bound event stream."""
    out = []
    state = 'connecting'
    for ev, after_disc in env.sent:
        t = ev.get('type')
        if after_disc:
            out.append(('event-after-disconnect', 'event %r sent after the framework had been handed the disconnect' % t))
            break
        if state == 'closed':
            out.append(('event-after-close', 'event %r sent after websocket.close' % t))
            break
        if t == 'websocket.accept':
            if state != 'connecting':
                out.append(('second-accept', 'second websocket.accept'))
                break
            if 'headers' in ev and spec == '2.0':
                out.append(('accept-headers-on-2.0', 'accept carries headers but the server speaks spec 2.0'))
            for item in ev.get('headers', []):
                if not (isinstance(item, (tuple, list)) and len(item) == 2 and type(item[0]) is bytes and type(item[1]) is bytes
                        and item[0] == item[0].lower()):
                    out.append(('bad-accept-header', 'accept header %r is not (lower-case bytes, bytes)' % (item,)))
                elif item[0] == b'sec-websocket-protocol':
                    out.append(('forbidden-accept-header', 'accept headers carry sec-websocket-protocol (ASGI: use "subprotocol")'))
            state = 'open'
        elif t == 'websocket.send':
            if state != 'open':
                out.append(('send-outside-open', 'websocket.send in state %s' % state))
                break
            has_t = ev.get('text') is not None
            has_b = ev.get('bytes') is not None
            if has_t == has_b:
                out.append(('bad-send-payload', 'websocket.send needs exactly one of text/bytes: %r' % (ev,)))
            if has_t and type(ev['text']) is not str or has_b and type(ev['bytes']) is not bytes:
                out.append(('bad-send-payload', 'wrong payload type in %r' % (ev,)))
        elif t == 'websocket.close':
            code = ev.get('code', 1000)
            if type(code) is not int or code < 1000 or 1004 <= code <= 1006 or 1015 <= code <= 1999:
                out.append(('bad-close-code', 'close code %r' % (code,)))
            if 'reason' in ev and spec in ('2.0', '2.1', '2.2'):
                out.append(('close-reason-on-old-spec', 'close carries a reason but the server speaks spec %s' % spec))
            state = 'closed'
        else:
            out.append(('unknown-event', 'unexpected event type %r' % (t,)))
    return out, state


# ---------------------------------------------------------------------------
# model of the documented behaviour
# ---------------------------------------------------------------------------
class Model:
    def __init__(self, client, disc_code, spec, pre_accepted=False):
        self.st = 'acc' if pre_accepted else 'hs'              # hs | acc | closed
        self.queue = [(k.rstrip('2'), p) for k, p in client]    # 'text2'/'bytes2': same message, other event shape
        self.disc_code = disc_code if disc_code is not None else 1005
        self.client_seen_gone = False    # application has been told (a receive raised)
        self.spec = spec
        self.events = [{'type': 'websocket.accept'}] if pre_accepted else []   # expected outgoing events

    def op(self, name, gone):
        """gone: the environment has already handed the disconnect to the framework.
        Returns the set of acceptable outcomes: ('ok', value) / ('exc', class name)."""
        st = self.st
        dead = st == 'closed' or gone or self.client_seen_gone
        if name in ('accept', 'accept_sub', 'accept_hdr', 'accept_proto'):
            if st != 'hs' or dead:
                return {('exc', 'OperationNotAllowed')}
            if name in ('accept_hdr', 'accept_proto') and self.spec == '2.0':
                return {('exc', 'OperationNotAllowed')}
            if name == 'accept_proto':
                # the subprotocol may only be chosen through the subprotocol argument: documented ValueError, nothing sent
                return {('exc', 'ValueError')}
            ev = {'type': 'websocket.accept'}
            if name == 'accept_sub':
                ev['subprotocol'] = 'p1'
            if name == 'accept_hdr':
                ev['headers'] = [(b'x-a', b'1')]
            self.events.append(ev)
            self.st = 'acc'
            return {('ok', None)}
        if name in ('close999', 'close1005'):
            return {('exc', 'ValueError')}
        if name in ('close', 'close3001'):
            if not dead:
                self.events.append({'type': 'websocket.close', 'code': 1000 if name == 'close' else 3001})
            self.st = 'closed'
            return {('ok', None)}
        if name.startswith('send'):
            if st == 'hs':
                return {('exc', 'OperationNotAllowed')}
            if name in ('send_text_bytes', 'send_text_int'):
                if st == 'closed' or self.client_seen_gone:
                    return {('exc', 'WebSocketDisconnected')}
                if gone:
                    return {('exc', 'TypeError'), ('exc', 'WebSocketDisconnected')}
                return {('exc', 'TypeError')}
            if dead:
                if not (st == 'closed' or self.client_seen_gone):
                    self.st_after_failed_send = True
                return {('exc', 'WebSocketDisconnected')}
            ev = {'type': 'websocket.send'}
            if name == 'send_text':
                ev['text'] = 'hello'
            elif name in ('send_data', 'send_data_buf'):
                ev['bytes'] = b'\x00\xff'
            elif name == 'send_media_bin':
                ev['bytes'] = b'BIN'
            else:
                ev['text'] = MEDIA_JSON
            self.events.append(ev)
            return {('ok', None)}
        if name.startswith('recv'):
            if st == 'hs':
                return {('exc', 'OperationNotAllowed')}
            if st == 'closed' or self.client_seen_gone:
                return {('exc', 'WebSocketDisconnected')}
            if not self.queue:
                self.client_seen_gone = True
                return {('exc', 'WebSocketDisconnected:%d' % self.disc_code)}
            kind, payload = self.queue.pop(0)
            if name == 'recv_text':
                return {('ok', payload)} if kind == 'text' else {('exc', 'PayloadTypeError')}
            if name == 'recv_data':
                return {('ok', payload)} if kind == 'bytes' else {('exc', 'PayloadTypeError')}
            if kind == 'text':
                return {('ok', json.loads(payload))}
            if kind == 'none':
                return {('exc', 'PayloadTypeError')}
            return {('ok', ('bin', payload))}      # the registered binary media handler (msgpack is not installed here)
        raise AssertionError(name)

    def finish(self, how, gone, cfg):
        """The responder ended: 'return' or a raise op.  Appends the close the framework owes."""
        dead = self.st == 'closed' or gone or self.client_seen_gone
        if dead:
            return
        if how == 'return':
            code = 1000
        elif how == 'raise403':
            code = 3403
        elif how == 'raise_status':
            code = 3404
        else:
            code = cfg['error_close_code'] if valid_close_code(cfg['error_close_code']) else 3011
            if cfg['handler'] == 'custom_close':
                code = 3999
        self.events.append({'type': 'websocket.close', 'code': code})
        self.st = 'closed'


MEDIA_OBJ = {'a': [1, 'x']}
MEDIA_JSON = None


class AppError(Exception):
    pass


class BinMedia(falcon.media.base.BinaryBaseHandlerWS):
    def serialize(self, media):
        return b'BIN'

    def deserialize(self, payload):
        return ('bin', bytes(payload))


def build(cfg, holder):
    app = falcon.asgi.App(middleware=[WsMiddleware(cfg['mw'], holder)] if cfg['mw'] != 'none' else None)
    app.ws_options.max_receive_queue = cfg['queue']
    app.ws_options.error_close_code = cfg['error_close_code']
    app.ws_options.media_handlers[falcon.WebSocketPayloadType.BINARY] = BinMedia()

    class Res:
        async def on_websocket(self, req, ws):
            await run_script(ws, holder)

    class NoWs:
        async def on_get(self, req, resp):
            pass
    app.add_route('/ws', Res())
    app.add_route('/http', NoWs())
    if cfg['handler'] == 'custom_close':
        async def h(req, resp, ex, params, ws=None):
            holder['log'].append(('handler', type(ex).__name__))
            await ws.close(3999)
        app.add_error_handler(ValueError, h)
    elif cfg['handler'] == 'custom_noclose':
        async def h2(req, resp, ex, params, ws=None):
            holder['log'].append(('handler', type(ex).__name__))
        app.add_error_handler(ValueError, h2)
    return app


class WsMiddleware:
    def __init__(self, kind, holder):
        self.kind = kind
        self.holder = holder

    async def process_request_ws(self, req, ws):
        if self.kind == 'accepts':
            await ws.accept()
            self.holder['mw_accepted'] = True
        elif self.kind == 'raises':
            raise falcon.HTTPForbidden()


async def run_script(ws, holder):
    env = holder['env']
    model = holder['model']
    for name in holder['script']:
        gone = env.disc_handed
        if name in TERMINAL:
            holder['how'] = name
            holder['gone_at_end'] = gone
            if name == 'raise403':
                raise falcon.HTTPError(403)
            if name == 'raise_status':
                raise falcon.HTTPStatus(404)
            raise ValueError('unexpected')
        want = model.op(name, gone)
        try:
            if name == 'accept':
                r = await ws.accept()
            elif name == 'accept_sub':
                r = await ws.accept(subprotocol='p1')
            elif name == 'accept_hdr':
                r = await ws.accept(headers=[('X-A', '1')])
            elif name == 'accept_proto':
                r = await ws.accept(headers={'X-A': '1', 'Sec-WebSocket-Protocol': 'chat'})
            elif name == 'close':
                r = await ws.close()
            elif name == 'close3001':
                r = await ws.close(3001)
            elif name == 'close999':
                r = await ws.close(999)
            elif name == 'close1005':
                r = await ws.close(1005)
            elif name == 'send_text':
                r = await ws.send_text('hello')
            elif name == 'send_data':
                r = await ws.send_data(b'\x00\xff')
            elif name == 'send_data_buf':
                # a mutable buffer that the application re-uses right after the call returned
                buf = bytearray(b'\x00\xff')
                r = await ws.send_data(buf)
                buf[0] = 0x41
                buf[1] = 0x42
            elif name == 'send_media':
                r = await ws.send_media(MEDIA_OBJ)
            elif name == 'send_media_bin':
                r = await ws.send_media(MEDIA_OBJ, falcon.WebSocketPayloadType.BINARY)
            elif name == 'send_text_bytes':
                r = await ws.send_text(b'x')
            elif name == 'send_text_int':
                r = await ws.send_text(42)          # neither str nor bytes-like: the documented TypeError all the same
            elif name == 'recv_text':
                r = await ws.receive_text()
            elif name == 'recv_data':
                r = await ws.receive_data()
            elif name == 'recv_media':
                r = await ws.receive_media()
            got = ('ok', r)
        except Exception as e:
            cls = type(e).__name__
            got = ('exc', cls)
            if isinstance(e, WebSocketDisconnected) and ('exc', 'WebSocketDisconnected:%s' % e.code) in want:
                got = ('exc', 'WebSocketDisconnected:%s' % e.code)
        holder['log'].append(('op', name, got))
        if ('any', None) in want:
            continue
        if env.failed:
            if got[0] == 'exc' and got[1].split(':')[0] not in DOCUMENTED:
                holder['mismatch'] = (name, sorted(DOCUMENTED), got, gone)
                return
            continue
        if got not in want:
            holder['mismatch'] = (name, sorted(want, key=repr), got, gone)
            return
    holder['how'] = 'return'
    holder['gone_at_end'] = env.disc_handed


def run_session(app, holder, cfg, script, client_name, disc_code, fail_at=None, fail_kind=None, path='/ws'):
    """-> list of (kind, explanation) findings"""
    global MEDIA_JSON
    if MEDIA_JSON is None:
        MEDIA_JSON = json.dumps(MEDIA_OBJ)
    client = CLIENTS[client_name]
    env = Env(client, disc_code, fail_at, fail_kind)
    model = Model(client, disc_code, cfg['spec'], pre_accepted=(cfg['mw'] == 'accepts' and path == '/ws'))
    holder.clear()
    holder.update(env=env, model=model, script=script, log=[], how=None)
    scope = {'type': 'websocket', 'asgi': {'version': '3.0', 'spec_version': cfg['spec']}, 'http_version': '1.1',
             'scheme': 'ws', 'path': path, 'raw_path': path.encode(), 'query_string': b'', 'root_path': '',
             'headers': [(b'host', b'x')], 'server': ('x', 80), 'client': ('1.1.1.1', 1), 'subprotocols': ['p1']}
    loop = VLoop()
    finds = []
    exc = None
    try:
        loop.run_until_complete(app(scope, env.receive, env.send))
    except Deadlock:
        finds.append(('hang', 'the session never terminated (loop idle, app task unfinished)'))
    except Exception as e:
        exc = e
    finally:
        try:
            loop.run_until_idle(max_steps=2000)
        except Exception:
            pass
        import asyncio
        left = [t for t in asyncio.all_tasks(loop) if not t.done()]
        for t in left:
            t.cancel()
        if left:
            finds.append(('task-left-running', 'unfinished tasks after the app returned: %r' % [t.get_coro().__qualname__ for t in left]))
            try:
                loop.run_until_idle(max_steps=2000)
            except Exception:
                pass
        errs = list(loop.errors)
        loop.close()
    fault = fail_at is not None
    if exc is not None and not (fault and env.failed):
        finds.append(('exception-escaped', 'exception escaped the ASGI app: %s: %s' % (type(exc).__name__, exc)))
    if errs and not fault:
        finds.append(('loop-error', 'loop exception handler: %r' % (errs[0].get('message'),)))
    for p in env.problems:
        finds.append(('event-after-connection-lost' if p.startswith('LOST') else 'receive-after-disconnect', p))
    mon, mstate = monitor(env, cfg['spec'])
    finds += mon
    if holder.get('mismatch'):
        name, want, got, gone = holder['mismatch']
        finds.append(('wrong-outcome:%s' % name, 'operation %s (disconnect already handed over: %s): documented outcome %r, got %r'
                      % (name, gone, want, got)))
        return finds, env, holder
    if fault and env.failed:
        # with an injected server failure only legality, termination and error classes are judged
        if mstate != 'closed' and not env.disc_handed and exc is None and not holder.get('fault_seen'):
            pass
        return finds, env, holder
    # expected event stream
    if path == '/ws' and cfg['mw'] == 'none' or path == '/ws' and cfg['mw'] == 'accepts':
        if holder['how'] is not None:
            if holder['how'] in TERMINAL and cfg['mw'] == 'none' or holder['how'] in TERMINAL:
                pass
            model.finish(holder['how'], holder.get('gone_at_end', env.disc_handed), cfg)
        exp = model.events
    else:
        exp = None
    if exp is not None:
        got = []
        for ev, _ in env.sent:
            e = {k: v for k, v in ev.items() if k != 'reason'}
            got.append(e)
        if exp is not None and got != exp:
            finds.append(('event-stream', 'events sent to the server %r, documented behaviour gives %r (script %r, log %r)'
                          % (got, exp, script, holder['log'])))
    # a close is owed when the client is still there
    if mstate != 'closed' and not env.disc_handed:
        finds.append(('no-final-close', 'the app returned with the client still connected and no websocket.close was sent'))
    return finds, env, holder


def special_sessions(cfg, rep):
    """unrouted / no on_websocket / middleware raising: close codes 3404 / 3405 / 3403."""
    holder = {}
    app = build(cfg, holder)
    for path, code in (('/nope', 3404), ('/http', 3405)):
        if cfg['mw'] == 'raises':
            code = 3403     # the middleware refuses before routing takes place
        finds, env, _ = run_session(app, holder, cfg, (), 'none', 1001, path=path)
        got = [{k: v for k, v in ev.items() if k != 'reason'} for ev, _ in env.sent]
        rep.trace()
        rep.trans(len(env.sent))
        want = [{'type': 'websocket.close', 'code': code}]
        if cfg['mw'] == 'accepts':
            want = [{'type': 'websocket.accept'}] + want
        if got != want:
            finds.append(('close-code', 'path %s: expected %r, got %r' % (path, want, got)))
        for kind, why in finds:
            rep.violation({'kind': kind, 'where': 'routing'}, {'cfg': cfg, 'path': path, 'special': True}, 'cfg=%r path=%s: %s' % (cfg, path, why))
    if cfg['mw'] == 'raises':
        finds, env, _ = run_session(app, holder, cfg, ('accept',), 'none', 1001)
        got = [{k: v for k, v in ev.items() if k != 'reason'} for ev, _ in env.sent]
        rep.trace()
        if got != [{'type': 'websocket.close', 'code': 3403}]:
            finds.append(('close-code', 'middleware raised HTTPForbidden: expected close 3403, got %r' % (got,)))
        for kind, why in finds:
            rep.violation({'kind': kind, 'where': 'middleware'}, {'cfg': cfg, 'special': 'mw'}, 'cfg=%r: %s' % (cfg, why))


CLOSE_CODES = [999, 1000, 1001, 1003, 1004, 1005, 1006, 1007, 1011, 1014, 1015, 1016, 1998, 1999, 2000, 2999, 3000, 3999, 4000, 4999]


def valid_close_code(c):
    # RFC 6455 7.4 + the ASGI servers' reading: >= 1000, 1004-1006 and 1015-1999 are reserved
    return c >= 1000 and not (1004 <= c <= 1006) and not (1015 <= c <= 1999)


def close_code_sessions(cfg, rep):
    """[accept, close(code)] for every boundary code, and an unexpected exception with error_close_code=code."""
    for code in CLOSE_CODES:
        holder = {}
        app = build(cfg, holder)
        box = {}

        class Res:
            async def on_websocket(self, req, ws):
                await ws.accept()
                try:
                    await ws.close(code)
                    box['out'] = 'ok'
                except ValueError:
                    box['out'] = 'ValueError'
                except Exception as e:     # noqa
                    box['out'] = type(e).__name__
        app.add_route('/cc', Res())
        finds, env, _ = run_session(app, holder, cfg, (), 't', 1001, path='/cc')
        got = [{k: v for k, v in ev.items() if k != 'reason'} for ev, _ in env.sent]
        rep.trace()
        rep.trans(len(env.sent))
        if valid_close_code(code):
            want_out, want = 'ok', [{'type': 'websocket.accept'}, {'type': 'websocket.close', 'code': code}]
        else:
            # the documented ValueError; the framework's own final close then ends the session normally
            want_out, want = 'ValueError', [{'type': 'websocket.accept'}, {'type': 'websocket.close', 'code': 1000}]
        if box.get('out') != want_out or got != want:
            finds.append(('close-code-validation', 'close(%d): expected %s and events %r; got %s and %r' % (code, want_out, want, box.get('out'), got)))
        for kind, why in finds:
            if kind in ('event-stream', 'no-final-close'):
                continue
            rep.violation({'kind': kind, 'where': 'close-code', 'valid': valid_close_code(code)},
                          {'cfg': cfg, 'close_code': code, 'special': 'cc'}, 'cfg=%r close(%d): %s' % (cfg, code, why))
        # unexpected exception -> configured error_close_code, 3011 when that one is not usable
        cfg2 = dict(cfg, error_close_code=code)
        holder2 = {}
        app2 = build(cfg2, holder2)
        finds, env, _ = run_session(app2, holder2, cfg2, ('accept', 'raise_value'), 't', 1001)
        got = [{k: v for k, v in ev.items() if k != 'reason'} for ev, _ in env.sent]
        rep.trace()
        want = [{'type': 'websocket.accept'}, {'type': 'websocket.close', 'code': code if valid_close_code(code) else 3011}]
        if got != want and not any(k == 'event-stream' for k, _ in finds):
            finds.append(('error-close-code', 'error_close_code=%d: expected %r, got %r' % (code, want, got)))
        for kind, why in finds:
            rep.violation({'kind': kind if kind != 'event-stream' else 'error-close-code', 'where': 'error-close-code', 'valid': valid_close_code(code)},
                          {'cfg': cfg2, 'close_code': code, 'special': 'ecc'}, 'cfg=%r error_close_code=%d: %s' % (cfg, code, why))


def run_batch(job, rep):
    cfg, scripts, clients, faults = job
    holder = {}
    app = build(cfg, holder)
    for script in scripts:
        for cname, dcode in clients:
            for fault in faults:
                fail_at, fail_kind = fault if fault else (None, None)
                finds, env, h = run_session(app, holder, cfg, script, cname, dcode, fail_at, fail_kind)
                rep.trace()
                rep.trans(len(h['log']) + len(env.sent))
                rep.state()
                if fault and not env.failed:
                    rep.c['fault_not_reached'] += 1
                for kind, why in finds:
                    rep.violation({'kind': kind, 'spec': 'old' if cfg['spec'] in ('2.0', '2.1') else 'new',
                                   'queue': 'q%d' % min(cfg['queue'], 1), 'fault': fail_kind or 'none'},
                                  {'cfg': cfg, 'script': list(script), 'client': cname, 'disc_code': dcode, 'fault': list(fault) if fault else None},
                                  'cfg=%r script=%r client=%s/%r fault=%r: %s' % (cfg, list(script), cname, dcode, fault, why))
                outcome = tuple(x[2][1] if x[2][0] == 'exc' else 'ok' for x in h['log'] if x[0] == 'op')
                rep.outcome('|'.join(outcome[:3]) or 'empty')
                if any(o != 'ok' for o in outcome) or len(env.sent) > 1:
                    rep.nt(digest((repr(cfg), script, cname, dcode, fault)))
    rep.sample({'cfg': cfg, 'script': list(scripts[-1]) if scripts else [], 'clients': [c[0] for c in clients]})
    rep.c['configs'] += 1


def scripts_upto(ops, k):
    out = [()]
    for n in range(1, k + 1):
        for tup in itertools.product(ops, repeat=n):
            # nothing after a raise op
            if any(o in TERMINAL for o in tup[:-1]):
                continue
            out.append(tup)
    return out


def plan(tier, seed):
    base = {'spec': '2.3', 'queue': 2, 'mw': 'none', 'handler': 'default', 'error_close_code': 1011}
    jobs = []
    specials = []
    if tier == 'quick':
        full = scripts_upto(OPS, 3)
        cfgs = [dict(base, spec=s, queue=q) for s in ('2.0', '2.3') for q in (0, 2)]
        clients = [('none', 1001), ('t', 1001), ('tb', None), ('t2b2', 1001)]
        for cfg in cfgs:
            for i in range(0, len(full), 400):
                jobs.append((cfg, full[i:i + 400], clients, [None]))
        core = scripts_upto(CORE_OPS, 3)
        for cfg in [dict(base, spec='2.1'), dict(base, spec='2.4', queue=0), dict(base, handler='custom_close'),
                    dict(base, handler='custom_noclose'), dict(base, error_close_code=3011), dict(base, error_close_code=999),
                    dict(base, mw='accepts')]:
            for i in range(0, len(core), 300):
                jobs.append((cfg, core[i:i + 300], [('t', 1001), ('empty', 1001)], [None]))
        # one injected send failure at every position
        faults = [(j, kind) for j in range(0, 3) for kind in ('oserror', 'oserror1001', 'ok1000', 'runtime')]
        fcore = scripts_upto(['accept', 'close', 'send_text', 'recv_text', 'raise_value'], 3)
        for cfg in [dict(base, queue=q) for q in (0, 2)]:
            jobs.append((cfg, fcore, [('t', 1001)], faults))
        specials = [dict(base, spec=s, queue=q, mw=m) for s in ('2.0', '2.3') for q in (0, 2) for m in ('none', 'raises')]
    else:
        full4 = scripts_upto(CORE_OPS + ['accept_hdr', 'send_text_bytes', 'recv_media'], 4)
        full3 = scripts_upto(OPS, 3)
        clients = [('none', 1001), ('t', 1001), ('b', 1001), ('tb', None), ('tt', 3000), ('empty', 1001), ('b2', 1001), ('t2b2', 1001)]
        for cfg in [dict(base, spec=s, queue=q) for s in ('2.0', '2.1', '2.3', '2.4') for q in (0, 1, 2)]:
            for i in range(0, len(full3), 300):
                jobs.append((cfg, full3[i:i + 300], clients, [None]))
        for cfg in [dict(base, spec=s, queue=q) for s in ('2.0', '2.3') for q in (0, 2)]:
            for i in range(0, len(full4), 1500):
                jobs.append((cfg, full4[i:i + 1500], [('t', 1001), ('tb', 1001)], [None]))
        # every script of <= 4 operations over ALL operations, one client, newest spec, both queue modes
        all4 = [t for t in scripts_upto(OPS, 4) if len(t) == 4]
        for cfg in [dict(base, queue=q) for q in (0, 2)]:
            for i in range(0, len(all4), 2000):
                jobs.append((cfg, all4[i:i + 2000], [('tb', 1001)], [None]))
        core = scripts_upto(CORE_OPS, 3)
        for cfg in [dict(base, handler=h, error_close_code=e, mw=m, queue=q) for h in ('default', 'custom_close', 'custom_noclose')
                    for e in (1011, 3011, 999) for m in ('none', 'accepts') for q in (0, 2)]:
            for i in range(0, len(core), 300):
                jobs.append((cfg, core[i:i + 300], [('t', 1001), ('empty', 1001)], [None]))
        faults = [(j, kind) for j in range(0, 4) for kind in ('oserror', 'oserror1001', 'ok1000', 'runtime')]
        fcore = scripts_upto(['accept', 'close', 'send_text', 'send_media', 'recv_text', 'raise_value', 'raise403'], 4)
        for cfg in [dict(base, queue=q, spec=s) for q in (0, 2) for s in ('2.0', '2.3')]:
            for i in range(0, len(fcore), 400):
                jobs.append((cfg, fcore[i:i + 400], [('t', 1001), ('tt', 1001)], faults))
        specials = [dict(base, spec=s, queue=q, mw=m, error_close_code=e) for s in ('2.0', '2.1', '2.3', '2.4') for q in (0, 2)
                    for m in ('none', 'raises', 'accepts') for e in (1011, 999)]
    if seed % 2:
        jobs = jobs[::-1]
    return jobs, specials


def work(job, rep):
    if job[0] == 'special':
        special_sessions(job[1], rep)
    elif job[0] == 'codes':
        close_code_sessions(job[1], rep)
    else:
        run_batch(job, rep)


def check(rep):
    jobs, specials = plan(rep.tier, rep.seed)
    rep.bounds = {'responder_ops': OPS, 'script_length<=': 3 if rep.tier == 'quick' else '4 over all 17 operations (one client script), 4 over a 12-op core with more clients',
                  'clients': sorted(CLIENTS), 'spec_versions': ['2.0', '2.3'] if rep.tier == 'quick' else ['2.0', '2.1', '2.3', '2.4'],
                  'queue_sizes': [0, 2] if rep.tier == 'quick' else [0, 1, 2], 'send_faults': 'one failing send() at every call index, 4 error kinds', 'close_codes': CLOSE_CODES,
                  'batches': len(jobs), 'special_sessions': len(specials)}
    rep.rule = ('every responder script x client script x configuration in the bound is one session on a real falcon.asgi.App; state = one session; '
                'transition = one scripted operation or outgoing event; non-trivial = sessions in which an operation raised or more than one event was sent')
    rep.assumptions = ['default deterministic schedule (exhaustive scheduling of the receive pump is C18)',
                       'binary media payloads are not judged (msgpack is not installed in this image)',
                       'under an injected send() failure only legality, termination and error classes are judged']
    base = {'spec': '2.3', 'queue': 2, 'mw': 'none', 'handler': 'default', 'error_close_code': 1011}
    codes = [('codes', dict(base, spec=sp, queue=q)) for sp in ('2.0', '2.3') for q in (0, 2)]
    par.run_shards(work, [('special', c) for c in specials] + codes + jobs, rep)


def replay(rec):
    from mc.core.report import Report
    rep = Report('C17')
    cfg = rec['cfg']
    if rec.get('special') in ('cc', 'ecc'):
        close_code_sessions({k: v for k, v in cfg.items()} if rec['special'] == 'cc' else dict(cfg, error_close_code=1011), rep)
    elif rec.get('special'):
        special_sessions(cfg, rep)
    else:
        fault = tuple(rec['fault']) if rec.get('fault') else None
        run_batch((cfg, [tuple(rec['script'])], [(rec['client'], rec['disc_code'])], [fault]), rep)
    v = list(rep.viol.values())
    return {'violation': bool(v), 'details': [x['explain'] for x in v]}
