"""C18 -- WebSocket receive buffering is FIFO, bounded and lossless under every schedule.

AIO engine, exhaustive: a real `falcon.asgi.App` serving one WebSocket on a
hand-stepped VLoop.  After a deterministic prelude (connect + accept) EVERY
interleaving of

    L  run the next ready loop handle (asyncio's FIFO order is kept)
    R  the server resolves the framework's pending receive() with the next delivery
       (messages m1..mk, then a disconnect if the client script has one)
    G* the application takes its next step (each application step waits on a gate; shape E: one
       gate, then back-to-back receives with no suspension in between while messages are buffered;
       only the environment opens: otherwise an eager consumer never lets the queue fill)
    S  the server completes a suspended send()
    X  (shape C) an external cancel() hits the pending application receive

is enumerated (stateless DFS over choice sequences, mc.core.choice; no bound on
the number of deviations: the space is finite because every script is).  When the
loop is idle the environment must act (sound: nothing can change while idle).

Oracle, evaluated after EVERY step:
  * FIFO/lossless: what the application received is a prefix of m1..mk
  * bound: len(queue) <= capacity; pulls issued - messages received by the app <= capacity + 1
    (capacity 0: <= 1)
  * a receive raises WebSocketDisconnected only after all k messages were returned
  * once the disconnect was handed to the framework and the loop went idle, the next send raises
  * at every idle point no application receive is waiting while the framework holds a message
  * terminal: every application task finished (no lost wake-up / deadlock), nothing is left running
    after close, no pull was issued after close returned, the loop's exception handler saw nothing
"""
import asyncio
import gc
import itertools

import falcon
import falcon.asgi
from falcon.errors import WebSocketDisconnected

from mc.core import choice, par
from mc.core.vloop import VLoop
from mc.core.report import digest


class Env:
    def __init__(self, loop, cfg):
        self.loop = loop
        self.cfg = cfg
        k = cfg['k']
        if cfg.get('payload') == 'bytes':
            self.deliveries = [{'type': 'websocket.receive', 'bytes': b'm%d' % (i + 1)} for i in range(k)]
        else:
            self.deliveries = [{'type': 'websocket.receive', 'text': 'm%d' % (i + 1)} for i in range(k)]
        if cfg['disc']:
            self.deliveries.append({'type': 'websocket.disconnect', 'code': 1001})
        self.next_delivery = 0
        self.connected = False
        self.server_closed = False
        self.pull = None            # pending server receive() future
        self.pulls_issued = 0
        self.pulls_cancelled = 0
        self.msgs_resolved = 0
        self.disc_resolved = False
        self.disc_settled = False
        self.gates = {}             # name -> future
        self.sends = []             # events passed to server send
        self.suspended_send = None
        self.log = []               # application observations
        self.app_received = []
        self.in_receive = 0
        self.close_returned_pulls = None
        self.cancel_target = None
        self.cancel_done = False
        self.problems = []
        self.max_queue_seen = 0
        self.max_outstanding = 0

    # -- ASGI callables -------------------------------------------------------
    async def receive(self):
        if not self.connected:
            self.connected = True
            return {'type': 'websocket.connect'}
        if self.pull is not None and not self.pull.done():
            self.problems.append('two concurrent receive() calls on the server')
        self.pulls_issued += 1
        if self.close_returned_pulls is not None:
            self.problems.append('server receive() awaited after close() returned')
        fut = self.loop.create_future()
        self.pull = fut
        try:
            return await fut
        except asyncio.CancelledError:
            if fut.done() and not fut.cancelled():
                # delivered but never consumed: a real server's queue keeps the message
                # (asyncio.Queue.get semantics), so hand it out again on the next pull
                ev = fut.result()
                self.next_delivery -= 1
                if ev['type'] == 'websocket.receive':
                    self.msgs_resolved -= 1
                else:
                    self.disc_resolved = False
                self.pulls_cancelled += 1
            raise
        finally:
            if fut.cancelled():
                self.pulls_cancelled += 1
            if self.pull is fut:
                self.pull = None

    async def send(self, ev):
        if self.cfg['send_suspends'] and ev.get('type') == 'websocket.send':
            fut = self.loop.create_future()
            self.suspended_send = fut
            try:
                await fut
            finally:
                self.suspended_send = None
        if ev.get('type') == 'websocket.close' and self.cfg.get('close_fails'):
            # the connection is lost at this very moment: the server cannot send the close frame
            self.sends.append({'type': 'websocket.close:failed', 'code': ev.get('code', 1000)})
            raise OSError('connection lost while sending the close frame')
        self.sends.append(ev)
        if ev.get('type') == 'websocket.close':
            # the server drops whatever the client still had in flight and reports the closure
            self.deliveries = self.deliveries[:self.next_delivery] + [{'type': 'websocket.disconnect', 'code': ev.get('code', 1000)}]
            self.server_closed = True

    async def gate(self, name):
        fut = self.loop.create_future()
        self.gates[name] = fut
        try:
            await fut
        finally:
            self.gates.pop(name, None)

    # -- environment events ---------------------------------------------------
    def enabled(self):
        opts = []
        if self.loop.ready():
            opts.append(('L', self.loop.step))
        if self.pull is not None and not self.pull.done() and self.next_delivery < len(self.deliveries):
            opts.append(('R', self.resolve_pull))
        for name in sorted(self.gates):
            if not self.gates[name].done():
                opts.append(('G' + name, lambda n=name: self.gates[n].set_result(None)))
        if self.suspended_send is not None and not self.suspended_send.done():
            opts.append(('S', lambda: self.suspended_send.set_result(None)))
        if self.cancel_target is not None and not self.cancel_target.done() and not self.cancel_done:
            opts.append(('X', self.do_cancel))
        return opts

    def resolve_pull(self):
        ev = self.deliveries[self.next_delivery]
        self.next_delivery += 1
        if ev['type'] == 'websocket.receive':
            self.msgs_resolved += 1
        else:
            self.disc_resolved = True
        self.pull.set_result(dict(ev))

    def do_cancel(self):
        self.cancel_done = True
        self.cancel_target.cancel()


# ---------------------------------------------------------------------------
# application shapes (responders); every step is gated
# ---------------------------------------------------------------------------
def make_resource(holder, cfg):
    shape = cfg['shape']
    r = cfg['r']

    class _E:
        def __getattr__(self, k):
            return getattr(holder['env'], k)

        def __setattr__(self, k, v):
            setattr(holder['env'], k, v)
    env = _E()

    async def recv_once(ws, racing_close=False):
        env.in_receive += 1
        try:
            if cfg.get('payload') == 'bytes':
                msg = (await ws.receive_data()).decode()
            else:
                msg = await ws.receive_text()
        except WebSocketDisconnected as e:
            env.log.append(('recv-ended-by-own-close' if racing_close else 'recv-disconnected', e.code, len(env.app_received)))
            return False
        finally:
            env.in_receive -= 1
        env.app_received.append(msg)
        env.log.append(('recv', msg))
        return True

    async def receiver(ws, n):
        for _ in range(n):
            await env.gate('a')
            if not await recv_once(ws):
                break

    async def sender(ws, n):
        for j in range(n):
            await env.gate('s')
            settled = env.disc_settled
            try:
                await ws.send_text('s%d' % j)
            except WebSocketDisconnected as e:
                env.log.append(('send-disconnected', e.code))
                break
            env.log.append(('sent', j))
            if settled:
                env.problems.append('send_text succeeded although the client disconnect had been delivered '
                                    'to the framework and the loop had gone idle since')

    class A:
        async def on_websocket(self, req, ws):
            await ws.accept()
            await receiver(ws, r)

    class E:
        # a burst consumer: waits once, then drains with back-to-back receives -- when messages are buffered there is
        # NO suspension (hence no pump step) between two receives
        async def on_websocket(self, req, ws):
            await ws.accept()
            await env.gate('a')
            for _ in range(r):
                if not await recv_once(ws):
                    break

    class B:
        async def on_websocket(self, req, ws):
            await ws.accept()
            t = asyncio.ensure_future(sender(ws, cfg['s']))
            try:
                await receiver(ws, r)
            finally:
                await t

    class C:
        async def on_websocket(self, req, ws):
            await ws.accept()
            await env.gate('a')

            async def one():
                return await recv_once(ws)
            t = asyncio.ensure_future(one())
            env.cancel_target = t
            alive = True
            try:
                alive = await t
            except asyncio.CancelledError:
                env.log.append(('cancelled',))
            env.cancel_target = None
            if alive:
                await receiver(ws, r)

    class D:
        async def on_websocket(self, req, ws):
            await ws.accept()
            await receiver(ws, r)

            async def one():
                return await recv_once(ws, racing_close=True)
            t = asyncio.ensure_future(one())
            await env.gate('a')
            await ws.close()
            env.close_returned_pulls = env.pulls_issued
            me = asyncio.current_task()
            others = [x for x in asyncio.all_tasks() if not x.done() and x is not me and x is not t and x is not holder.get('main')]
            if others:
                env.problems.append('close() returned while a background task is still pending: %r'
                                    % ([x.get_coro().__qualname__ for x in others],))
            env.log.append(('closed',))
            await t

    class F:
        # the application closes the connection itself and copes with a close frame that cannot be sent
        async def on_websocket(self, req, ws):
            await ws.accept()
            await receiver(ws, r)
            await env.gate('a')
            if cfg.get('close_fails') == 'handler':
                # the failure is left to an error handler registered for it (which does not touch the connection)
                try:
                    await ws.close()
                finally:
                    env.close_returned_pulls = env.pulls_issued
                return
            try:
                await ws.close()
            except OSError:
                env.log.append(('close-failed',))
            env.close_returned_pulls = env.pulls_issued
            env.log.append(('closed',))
            # ... and carries on for a while (the framework must not pull from the server any more)
            await env.gate('a')

    class G:
        # a close() that is REJECTED (invalid code -> documented ValueError, nothing sent): the connection is as before
        async def on_websocket(self, req, ws):
            await ws.accept()
            await env.gate('a')
            try:
                await ws.close(cfg['bad_code'])
                env.problems.append('close(%r) did not raise ValueError' % (cfg['bad_code'],))
            except ValueError:
                env.log.append(('close-rejected', cfg['bad_code']))
            await receiver(ws, r)

    return {'A': A, 'B': B, 'C': C, 'D': D, 'E': E, 'F': F, 'G': G}[shape]()


class Violation(Exception):
    def __init__(self, kind, msg):
        Exception.__init__(self, msg)
        self.kind = kind


def build_app(cfg):
    holder = {}
    app = falcon.asgi.App()
    app.ws_options.max_receive_queue = cfg['cap']
    app.add_route('/', make_resource(holder, cfg))
    if cfg.get('close_fails') == 'handler':
        async def on_oserror(req, resp, ex, params, ws=None):
            holder['env'].log.append(('handler', type(ex).__name__))
        app.add_error_handler(OSError, on_oserror)
    # the app object has a past: it has already served one connection under ANOTHER queue capacity; the capacity in
    # force is the one configured when a connection is accepted, not the one of the app's first handshake
    app.ws_options.max_receive_queue = cfg['cap'] + 2
    try:
        run_one(dict(cfg, k=0, disc=True, cap=cfg['cap'] + 2), choice.Chooser(()), (app, holder))
    except Violation:
        pass
    app.ws_options.max_receive_queue = cfg['cap']
    return app, holder


def run_one(cfg, ch, built=None):
    """One complete execution under the chooser. Returns (trace, observation) or raises Violation."""
    app, holder = built or build_app(cfg)
    loop = VLoop()
    loop.begin()
    trace = []
    try:
        env = Env(loop, cfg)
        holder['env'] = env
        scope = {'type': 'websocket', 'asgi': {'version': '3.0', 'spec_version': '2.3'}, 'http_version': '1.1',
                 'scheme': 'ws', 'path': '/', 'raw_path': b'/', 'query_string': b'', 'root_path': '',
                 'headers': [(b'host', b'x')], 'server': ('x', 80), 'client': ('1.1.1.1', 1), 'subprotocols': []}
        main = loop.create_task(app(scope, env.receive, env.send))
        holder['main'] = main
        # deterministic prelude: connect + accept, up to the first gate
        guard = 0
        while loop.step():
            guard += 1
            if guard > 10000:
                raise Violation('prelude-runaway', 'prelude did not go idle')
        cap = cfg['cap']
        k = cfg['k']
        steps = 0
        while True:
            opts = env.enabled()
            if not opts:
                break
            if not loop.ready():
                # idle point
                if env.disc_resolved:
                    env.disc_settled = True
                held = env.msgs_resolved - len(env.app_received)
                if env.in_receive and held > 0:
                    raise Violation('receive-left-waiting', 'loop idle, an application receive is pending although the '
                                    'framework holds %d message(s); log=%r' % (held, env.log))
            if len(opts) > 1:
                i = ch.choose(len(opts), '|'.join(o[0] for o in opts))
            else:
                i = 0
            trace.append(opts[i][0])
            opts[i][1]()
            steps += 1
            if steps > 5000:
                raise Violation('runaway', 'more than 5000 scheduling steps')
            # ---- invariants on every state
            exp = ['m%d' % (j + 1) for j in range(len(env.app_received))]
            if env.app_received != exp:
                raise Violation('order-or-duplication', 'application received %r, client sent m1..m%d' % (env.app_received, k))
            ws_q = None
            outstanding = env.pulls_issued - env.pulls_cancelled - (1 if env.disc_resolved else 0) - len(env.app_received)
            env.max_outstanding = max(env.max_outstanding, outstanding)
            limit = cap + 1 if cap > 0 else 1
            if outstanding > limit:
                raise Violation('bound-outstanding', 'pulls issued - messages received = %d > %d (capacity %d)'
                                % (outstanding, limit, cap))
            for ev in env.log:
                if ev[0] == 'recv-disconnected' and ev[2] < k:
                    raise Violation('disconnect-overtook-messages', 'receive raised WebSocketDisconnected after only %d of %d '
                                    'messages' % (ev[2], k))
            if env.problems:
                raise Violation('env-' + env.problems[0].split(' ')[0], env.problems[0])
        # ---- terminal state
        gc.collect(1)
        if not main.done():
            raise Violation('deadlock', 'terminal state (no enabled event, loop idle) but the application task is not '
                            'finished: log=%r pull_pending=%r deliveries_left=%d'
                            % (env.log, env.pull is not None, len(env.deliveries) - env.next_delivery))
        if main.exception() is not None:
            raise Violation('app-exception', 'exception escaped the ASGI app: %r' % (main.exception(),))
        left = [t for t in asyncio.all_tasks(loop) if not t.done()]
        if left:
            raise Violation('task-left-running', 'unfinished tasks after the session ended: %r' % ([t.get_coro().__qualname__ for t in left],))
        if env.pull is not None and not env.pull.done():
            raise Violation('pull-left-pending', 'a server receive() is still awaited after the session ended')
        if loop.errors:
            raise Violation('loop-error', 'loop exception handler: %r' % (loop.errors[0].get('message'),))
        # completeness: a receiver that asked for >= k messages and saw the end got all of them
        obs = (tuple(env.log), tuple(e.get('type') + ':' + str(e.get('text', e.get('code', ''))) for e in env.sends),
               env.max_outstanding)
        want = min(cfg['r'] + (1 if cfg['shape'] in ('C', 'D') else 0), k)
        return trace, obs, env
    finally:
        for t in asyncio.all_tasks(loop):
            t.cancel()
        try:
            loop.run_until_idle(max_steps=1000)
        except Exception:
            pass
        loop.end()
        loop.close()


def expected_received(cfg, env):
    """Lossless: how many messages the application must have received by the end of the session."""
    k, r, shape = cfg['k'], cfg['r'], cfg['shape']
    attempts = r
    if shape == 'C':
        attempts = r + (0 if any(e[0] == 'cancelled' for e in env.log) else 1)
    # shape D: r gated receives, then one more that races with close()
    return min(attempts, k) if cfg['disc'] or attempts <= k else None


def explore_cfg(cfg, rep, max_execs=None):
    outcomes = set()
    first = {}

    built = build_app(cfg)

    def run(ch):
        try:
            trace, obs, env = run_one(cfg, ch, built)
        except Violation as v:
            return ('V', v.kind, str(v))
        return ('OK', trace, obs, env)

    def on_exec(ch, res):
        rep.trace()
        rep.trans(len(ch.choices))
        if res[0] == 'V':
            rep.violation({'kind': res[1], 'shape': cfg['shape'], 'cap': 'c%d' % min(cfg['cap'], 1)},
                          {'cfg': cfg, 'choices': list(ch.choices)},
                          'cfg=%r choices=%r: %s' % (cfg, list(ch.choices), res[2]))
            rep.outcome('violation:' + res[1])
            return
        _, trace, obs, env = res
        n = len(env.app_received)
        need = expected_received(cfg, env)
        if cfg['shape'] != 'D' and need is not None and n != need:
            rep.violation({'kind': 'message-lost', 'shape': cfg['shape'], 'cap': 'c%d' % min(cfg['cap'], 1)},
                          {'cfg': cfg, 'choices': list(ch.choices)},
                          'cfg=%r choices=%r: application performed enough receives for %d message(s) but got %d: log=%r'
                          % (cfg, list(ch.choices), need, n, env.log))
        if cfg['shape'] == 'D' and n < min(cfg['r'], cfg['k']):
            rep.violation({'kind': 'message-lost', 'shape': 'D', 'cap': 'c%d' % min(cfg['cap'], 1)},
                          {'cfg': cfg, 'choices': list(ch.choices)}, 'cfg=%r: got %d messages, log=%r' % (cfg, n, env.log))
        outcomes.add(obs)
        if env.max_outstanding > (1 if cfg['cap'] == 0 else 1):
            rep.nt(digest((repr(cfg), tuple(ch.choices))))
        rep.outcome('%s:recv=%d:maxout=%d' % (cfg['shape'], n, env.max_outstanding))

    n_exec, n_points, capped = choice.explore(run, 10 ** 9, on_exec, max_execs=max_execs)
    rep.state(n_points + 1)
    if capped:
        rep.cap('max_execs=%r hit for %r' % (max_execs, cfg))
    rep.c['executions'] += n_exec
    rep.c['distinct_observations'] += len(outcomes)
    return n_exec


def gen_cfgs(tier):
    cfgs = []
    kmax = 3 if tier == 'quick' else 5
    for k in range(0, kmax + 1):
        for cap in (0, 1, 2, 3, 4):
            if cap > k + 1:
                continue
            for disc in (True, False):
                rs = range(0, k + 2) if disc else range(0, k + 1)
                for r in rs:
                    cfgs.append({'shape': 'A', 'k': k, 'cap': cap, 'disc': disc, 'r': r, 's': 0, 'send_suspends': False})
    for k in range(1, kmax + 1):
        for cap in (0, 1, 2, 3, 4):
            if cap > k + 1:
                continue
            for disc in (True, False):
                for r in (range(2, k + 2) if disc else range(2, k + 1)):
                    cfgs.append({'shape': 'E', 'k': k, 'cap': cap, 'disc': disc, 'r': r, 's': 0, 'send_suspends': False})
    kb = 2 if tier == 'quick' else 3
    for k in range(0, kb + 1):
        for cap in (0, 1, 2):
            for r in range(0, k + 2):
                for s in (1, 2):
                    for susp in (False, True):
                        if tier == 'quick' and susp and (k > 1 or s > 1):
                            continue
                        # (the stateless search multiplies the independent steps of two tasks: keep the product finite)
                        if tier != 'quick' and susp and ((k == 3 and s > 1) or (k == 2 and s > 1)):
                            continue
                        cfgs.append({'shape': 'B', 'k': k, 'cap': cap, 'disc': True, 'r': r, 's': s, 'send_suspends': susp})
    # binary payloads (receive_data) where a send runs next to the receiver, and for the single receiver
    for c in [c for c in cfgs if (c['shape'] == 'B' and not c['send_suspends']) or (c['shape'] == 'A' and c['k'] <= 2)]:
        cfgs.append(dict(c, payload='bytes'))
    # close() whose close frame cannot be sent (shape F), with and without a pending client disconnect
    for k in range(0, (2 if tier == 'quick' else 3) + 1):
        for cap in (0, 1, 2):
            for disc in (True, False):
                for r in range(0, k + 1):
                    for fails in (True, False, 'handler'):
                        cfgs.append({'shape': 'F', 'k': k, 'cap': cap, 'disc': disc, 'r': r, 's': 0, 'send_suspends': False,
                                     'close_fails': fails})
    for k in range(1, (2 if tier == 'quick' else 3) + 1):
        for cap in (0, 1, 2):
            for disc in (True, False):
                for r in (range(1, k + 2) if disc else range(1, k + 1)):
                    for code in (999, 1005):
                        cfgs.append({'shape': 'G', 'k': k, 'cap': cap, 'disc': disc, 'r': r, 's': 0, 'send_suspends': False,
                                     'bad_code': code})
    kc = 2 if tier == 'quick' else 4
    for k in range(0, kc + 1):
        for cap in (0, 1, 2, 3):
            if cap > k + 1:
                continue
            for r in range(0, k + 1):
                cfgs.append({'shape': 'C', 'k': k, 'cap': cap, 'disc': True, 'r': r, 's': 0, 'send_suspends': False})
                cfgs.append({'shape': 'D', 'k': k, 'cap': cap, 'disc': True, 'r': r, 's': 0, 'send_suspends': False})
                cfgs.append({'shape': 'D', 'k': k, 'cap': cap, 'disc': False, 'r': min(r, k), 's': 0, 'send_suspends': False})
    # de-duplicate
    seen, out = set(), []
    for c in cfgs:
        key = repr(sorted(c.items()))
        if key not in seen:
            seen.add(key)
            out.append(c)
    return out


def run_batch(batch, rep):
    for cfg in batch:
        n = explore_cfg(cfg, rep)
        rep.sample({'cfg': cfg, 'executions': n})
        rep.c['configs'] += 1


def check(rep):
    cfgs = gen_cfgs(rep.tier)
    rep.bounds = {'deliveries_k<=': '3 (A), 2 (B, C, D)' if rep.tier == 'quick' else '5 (A), 3 (B; with suspending sends: one send, or two sends for k<=1), 4 (C, D)', 'capacities': [0, 1, 2, 3, 4], 'shapes': 'E burst receiver (one wait, then back-to-back receives); A single receiver; '
                  'B receiver+sender task (send may suspend); C pending receive cancelled externally; D close while a receive is pending',
                  'configs': len(cfgs), 'schedules': 'ALL interleavings of loop steps and environment events (no deviation bound)'}
    rep.rule = ('stateless DFS over all choice sequences; one choice point wherever more than one of {next loop handle, server '
                'delivery, application gate, send completion, external cancel} is enabled; non-trivial = executions in which the '
                'framework held more than one undelivered message at some point')
    rep.assumptions = ["asyncio's FIFO ready queue is kept (specified behaviour); nondeterminism = timing of environment events",
                       'held messages are measured externally: server pulls issued minus messages returned to the application',
                       'every client script ends with a disconnect, or the application asks for no more messages than were sent']
    # heavy configs first for balance
    cfgs.sort(key=lambda c: -(c['k'] * 3 + c['r'] + c['s'] * 2 + (2 if c['send_suspends'] else 0)))
    batches = [[c] for c in cfgs]
    par.run_shards(run_batch, batches, rep)


def replay(rec):
    cfg = rec['cfg']
    ch = choice.Chooser(tuple(rec['choices']))
    try:
        trace, obs, env = run_one(cfg, ch)
    except Violation as v:
        return {'violation': True, 'kind': v.kind, 'details': str(v)}
    return {'violation': False, 'trace': trace, 'log': env.log, 'received': env.app_received}
