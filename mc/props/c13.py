"""C13 -- multipart forms parse to exactly the parts that were encoded, however consumed.

Engine: ENUM (forms, reader geometry, limits, edits) x explicit enumeration of
cut positions (every 1-cut / 2-cut split of the transport) x per-part
consumption tuples.  Bounded-exhaustive: every listed sub-product is completed.

Implementation under test (pure-Python sources of $FALCON_REPO):
  falcon.media.multipart (sync form / BodyPart / handler / options),
  falcon.asgi.multipart (async form / BodyPart), on top of
  falcon.util.reader.BufferedReader and falcon.asgi.reader.BufferedReader, and
  -- part F -- the whole request path App -> Request.get_media() on the WSGI
  and ASGI drivers.
Reference model (mc/props/c13_model.py, imports nothing from falcon): an
encoder that builds the body from a list of parts (so the expected parts are
known), and an independent strict RFC 2046/7578 decoder.

Alphabet (per tier, see gen_* below)
  forms      0..2 (quick) / 0..3 (thorough) parts; contents from
             {b'', a, CRLF, --, CRLF--, CRLF-- + boundary[:-1], JSON doc with UTF-8 text, FF} (core) +
             {CR, LF, a CR, boundary, a--boundary, 70 x '-', 00 FF, 700 x a} (full);
             boundary length 1 / 2 / 70 (70 starts with dashes like browsers' do);
             preamble {none, x, CRLF, --}; after the close delimiter {nothing, CRLF,
             CRLF x, CRLF CRLF}; header variants: name only / filename + text/plain
             with charset / RFC 5987 filename* + application/json / (thorough) raw
             UTF-8 name, ';' in a quoted filename, header order and case.
  geometry   parser {sync, async} x reader chunk size {smallest legal = len(boundary)+4,
             +1, default (the form builds its own reader)} x transport {one chunk,
             uniform 1, 2, 3 (4 thorough)}; part B: every 1-cut (quick) and every
             <=2-cut (thorough) split of the body.
  consumption per part {skip, stream.read(1), stream.read(), get_data, get_text,
             get_media, stream.read_until(LF)} -- all 7^n tuples.
  sized      (part S) a part copied out in application-chosen blocks: stream.read(n), then stream.read(blk)
             until empty; n and the content length sweep across the reader's refill edges, the next part
             is then read as media.
  limits     max_body_part_count {n-1, n, n+1, 0=off}; max_body_part_buffer_size
             {len-1, len, len+1} for every part length; max_body_part_headers_size
             {H-1, H, H+1} for every part header block size H.
  edits      every single-byte deletion, every substitution by {-, CR, LF, x, FF} and
             every truncation of the base bodies.
Oracle
  valid bodies: parts seen == parts encoded (count, order, name, filename,
  content type, exact bytes / exact accessor result), whatever the geometry and
  whatever was done with earlier parts; limits: no error at the threshold,
  MultipartParseError one past it, parts before the offending one intact;
  edited bodies: only {parsed, MultipartParseError}, the same observation for
  every geometry, both parsers and both consumption modes, equal to the strict
  decoder's parts whenever that accepts the body; no other exception; every
  parse runs under a watchdog (non-termination is a violation).
"""
import itertools

from mc.core import par, watchdog
from mc.core.report import digest
from mc.props import c12_json
from mc.props import c13_model as M

import falcon
import falcon.asgi
import falcon.asgi.multipart  # noqa: F401  (registers the ASGI form class)
import falcon.asgi.reader as async_reader_mod
import falcon.util.reader as sync_reader_mod
from falcon.media.multipart import MultipartFormHandler, MultipartParseOptions

SyncReader = sync_reader_mod.BufferedReader
AsyncReader = async_reader_mod.BufferedReader

OPS7 = ('skip', 'read1', 'read', 'data', 'text', 'media', 'until')
MPE = ('E', 'MultipartParseError')
HANG = ('HANG',)


# ---------------------------------------------------------------------------
# sources and drivers of the real parsers
# ---------------------------------------------------------------------------
class SyncSource:
    """read(size) with short reads at the cut positions."""

    def __init__(self, data, cuts):
        self.data = data
        self.cuts = cuts
        self.pos = 0

    def read(self, size=-1):
        if size is None or size < 0:
            size = len(self.data) - self.pos
        stop = min(self.pos + size, len(self.data))
        for c in self.cuts:
            if self.pos < c < stop:
                stop = c
                break
        r = self.data[self.pos:stop]
        self.pos = stop
        return r


async def async_source(chunks):
    for c in chunks:
        yield c


def run_coro(coro):
    try:
        coro.send(None)
    except StopIteration as e:
        return e.value
    coro.close()
    raise RuntimeError('coroutine suspended on a source that never suspends')


def cuts_of(transport, n):
    """transport: ('u', k) uniform chunks of k bytes (0 = one chunk) | ('c', (cut, ...))."""
    if transport[0] == 'u':
        k = transport[1]
        return tuple(range(k, n, k)) if k else ()
    return tuple(transport[1])


def split_at(data, cuts):
    out, p = [], 0
    for c in cuts:
        out.append(data[p:c])
        p = c
    out.append(data[p:])
    return out


_HANDLERS = {}


def handler_for(opts):
    key = tuple(sorted(opts.items()))
    h = _HANDLERS.get(key)
    if h is None:
        po = MultipartParseOptions()
        if 'count' in opts:
            po.max_body_part_count = opts['count']
        if 'buffer' in opts:
            po.max_body_part_buffer_size = opts['buffer']
        if 'headers' in opts:
            po.max_body_part_headers_size = opts['headers']
        h = _HANDLERS[key] = MultipartFormHandler(po)
    return h


def E(e):
    return ('E', type(e).__name__)


def _field(part, attr):
    try:
        return getattr(part, attr)
    except Exception as e:  # noqa: BLE001 - recorded, judged by the oracle
        return E(e)


def _media_obs(v):
    return ('json', repr(v))


def _sz(op):
    _, n, b = op.split(':')
    return int(n), int(b)


def _sz_obs(chunks, reqs):
    """pass-through reads: what was returned in total, and whether every read before the final empty one returned
    at least one and at most the requested number of bytes."""
    ok = all(0 < len(c) <= r for c, r in zip(chunks[:-1], reqs)) and chunks[-1] == b''
    return ('sz', b''.join(chunks), ok)


def consume_sync(part, op):
    try:
        if op.startswith('sz3:'):
            _, n1, n2 = op.split(':')
            chunks = [part.stream.read(int(n1)), part.stream.read(int(n2)), part.stream.read(), part.stream.read(1)]
            return ('sz', b''.join(chunks), len(chunks[0]) <= int(n1) and len(chunks[1]) <= int(n2) and chunks[3] == b'')
        if op.startswith('sz:'):
            n, b = _sz(op)
            chunks, reqs = [part.stream.read(n)], [n]
            while chunks[-1] and len(chunks) < 5000:
                chunks.append(part.stream.read(b))
                reqs.append(b)
            return _sz_obs(chunks, reqs)
        if op == 'skip':
            return None
        if op == 'read1':
            return part.stream.read(1)
        if op == 'read':
            return part.stream.read()
        if op == 'data':
            return part.get_data()
        if op == 'text':
            return part.get_text()
        if op == 'media':
            return _media_obs(part.get_media())
        if op == 'until':
            return part.stream.read_until(b'\n')
    except Exception as e:  # noqa: BLE001
        return E(e)
    if op == 'data2':
        out = []
        for _ in range(2):
            try:
                out.append(part.get_data())
            except Exception as e:  # noqa: BLE001
                out.append(E(e))
        return tuple(out)
    raise AssertionError(op)


async def consume_async(part, op):
    try:
        if op.startswith('sz3:'):
            _, n1, n2 = op.split(':')
            chunks = [await part.stream.read(int(n1)), await part.stream.read(int(n2)), await part.stream.read(),
                      await part.stream.read(1)]
            return ('sz', b''.join(chunks), len(chunks[0]) <= int(n1) and len(chunks[1]) <= int(n2) and chunks[3] == b'')
        if op.startswith('sz:'):
            n, b = _sz(op)
            chunks, reqs = [await part.stream.read(n)], [n]
            while chunks[-1] and len(chunks) < 5000:
                chunks.append(await part.stream.read(b))
                reqs.append(b)
            return _sz_obs(chunks, reqs)
        if op == 'skip':
            return None
        if op == 'read1':
            return await part.stream.read(1)
        if op == 'read':
            return await part.stream.read()
        if op == 'data':
            return await part.get_data()
        if op == 'text':
            return await part.get_text()
        if op == 'media':
            return _media_obs(await part.get_media())
        if op == 'until':
            return await part.stream.read_until(b'\n')
    except Exception as e:  # noqa: BLE001
        return E(e)
    if op == 'data2':
        out = []
        for _ in range(2):
            try:
                out.append(await part.get_data())
            except Exception as e:  # noqa: BLE001
                out.append(E(e))
        return tuple(out)
    raise AssertionError(op)


def op_at(ops, j):
    return ops[j] if j < len(ops) else ops[-1]


def iterate_sync(form, ops):
    out = []
    it = iter(form)
    j = 0
    while True:
        try:
            part = next(it)
        except StopIteration:
            return tuple(out), 'ok'
        except Exception as e:  # noqa: BLE001
            return tuple(out), E(e)
        out.append((_field(part, 'name'), _field(part, 'filename'), _field(part, 'content_type'),
                    consume_sync(part, op_at(ops, j))))
        j += 1
        if j > 50:
            return tuple(out), ('E', 'TooManyParts')


async def iterate_async(form, ops):
    out = []
    it = form.__aiter__()
    j = 0
    while True:
        try:
            part = await it.__anext__()
        except StopAsyncIteration:
            return tuple(out), 'ok'
        except Exception as e:  # noqa: BLE001
            return tuple(out), E(e)
        out.append((_field(part, 'name'), _field(part, 'filename'), _field(part, 'content_type'),
                    await consume_async(part, op_at(ops, j))))
        j += 1
        if j > 50:
            return tuple(out), ('E', 'TooManyParts')


def drive(kind, body, boundary, chunk, transport, ops, opts, budget=3.0):
    """One parse of `body` by the real parser -> observation (parts, end) | HANG.
    chunk: reader chunk size, or None = hand the raw source to the handler."""
    handler = handler_for(opts)
    ctype = M.header_value(boundary)
    cuts = cuts_of(transport, len(body))
    try:
        with watchdog.limit(budget):
            if kind == 'sync':
                src = SyncSource(body, cuts)
                stream = src if chunk is None else SyncReader(src.read, len(body), chunk)
                try:
                    form = handler.deserialize(stream, ctype, len(body))
                except Exception as e:  # noqa: BLE001
                    return (), ('E@deserialize', type(e).__name__)
                return iterate_sync(form, ops)
            else:
                src = async_source(split_at(body, cuts))
                stream = src if chunk is None else AsyncReader(src, chunk)

                async def go():
                    try:
                        form = await handler.deserialize_async(stream, ctype, None)
                    except Exception as e:  # noqa: BLE001
                        return (), ('E@deserialize', type(e).__name__)
                    return await iterate_async(form, ops)
                return run_coro(go())
    except watchdog.Hang:
        return HANG


# ---------------------------------------------------------------------------
# expectations for bodies built by the reference encoder
# ---------------------------------------------------------------------------
def exp_op(op, ctype, content, buf_limit):
    base, _, params = ctype.partition(';')
    base = base.strip()
    if op.startswith('sz:') or op.startswith('sz3:'):
        return ('sz', content, True)
    if op == 'skip':
        return None
    if op == 'read1':
        return content[:1]
    if op == 'read':
        return content
    if op == 'until':
        i = content.find(b'\n')
        return content if i < 0 else content[:i]
    if op == 'data':
        return MPE if len(content) > buf_limit else content
    if op == 'data2':
        r = MPE if len(content) > buf_limit else content
        return (r, r)
    if op == 'text':
        if base != 'text/plain':
            return None
        if len(content) > buf_limit:
            return MPE
        charset = 'utf-8'
        for p in params.split(';'):
            k, eq, v = p.partition('=')
            if eq and k.strip().lower() == 'charset':
                charset = v.strip()
        try:
            return content.decode(charset)
        except (ValueError, LookupError):
            return MPE
    if op == 'media':
        if base != 'application/json':
            return ('E', 'HTTPUnsupportedMediaType')
        if not content:
            return ('E', 'MediaNotFoundError')
        try:
            return ('json', repr(c12_json.decode(content)))
        except c12_json.Reject:
            return ('E', 'MediaMalformedError')
    raise AssertionError(op)


def expected(parts, ops, opts, style):
    count = opts.get('count', 64)
    hmax = opts.get('headers', 8192)
    buf = opts.get('buffer', 1024 * 1024)
    out = []
    for j, p in enumerate(parts):
        if M.headers_size(p, style) > hmax:
            return tuple(out), MPE
        if 0 < count < j + 1:
            return tuple(out), MPE
        name, fn, ct, content = M.visible(p)
        out.append((name, fn, ct, exp_op(op_at(ops, j), ct, content, buf)))
    return tuple(out), 'ok'


def first_difference(exp, got):
    """-> (kind, part index) naming the first observable that differs."""
    if got == HANG:
        return 'non-termination', -1
    ep, eend = exp
    gp, gend = got
    names = ('name', 'filename', 'content-type', 'content')
    for j in range(min(len(ep), len(gp))):
        for f in range(4):
            if ep[j][f] != gp[j][f]:
                return names[f], j
    if len(ep) != len(gp):
        return 'part-count', min(len(ep), len(gp))
    if eend != gend:
        return 'end', len(ep)
    return None, -1


def exc_of(obs, kind, j):
    """exception class name seen at the differing place (for the signature)."""
    if obs == HANG:
        return ''
    parts, end = obs
    idx = {'name': 0, 'filename': 1, 'content-type': 2, 'content': 3}
    v = None
    if kind in idx and j < len(parts):
        v = parts[j][idx[kind]]
    elif kind in ('end', 'part-count'):
        v = end
    if isinstance(v, tuple) and v and isinstance(v[0], str) and v[0].startswith('E'):
        return v[1]
    if isinstance(v, tuple) and v and isinstance(v[-1], tuple) and v[-1][:1] == ('E',):
        return v[-1][1]
    return ''


# ---------------------------------------------------------------------------
# alphabets
# ---------------------------------------------------------------------------
class Sym:
    def __init__(self, seed):
        self.a = b'aeiou'[seed % 5:seed % 5 + 1]          # the "data byte"
        self.b1 = b'bdfhj'[seed % 5:seed % 5 + 1]          # boundary of length 1
        self.n = 'pqrst'[seed % 5]                          # field-name letter
        self.b2 = b'-' + self.b1
        self.json = b'{"' + self.a + b'": "\xc3\xa9"}'      # JSON document; UTF-8 text that reads differently as latin-1
        self.b70 = (b'----WebKitFormBoundary' + self.b1 * 70)[:70]

    def boundaries(self, tier):
        return [self.b1, self.b70] if tier == 'quick' else [self.b1, self.b2, self.b70]

    def core(self, b):
        out = [b'', self.a, b'\r\n', b'--', b'\r\n--']
        if b'\r\n--' + b[:-1] not in out:
            out.append(b'\r\n--' + b[:-1])
        out.append(self.json)
        out.append(b'\xff')
        return out

    def full(self, b):
        out = self.core(b)
        for c in (b'\r', b'\n', self.a + b'\r', b, self.a + b'--' + b, b'-' * 70, b'\x00\xff', self.a * 700):
            if c not in out:
                out.append(c)
        return out

    def hv(self, k, i):
        """header variant k for part number i -> (name, filename, fstar, ctype)."""
        nm = '%s%d' % (self.n, i)
        if k == 0:
            return (nm, None, None, None)
        if k == 1:
            return (nm, 'f;%d.txt' % i, None, 'text/plain; charset=iso-8859-1')     # ';' inside a quoted value, no backslash
        if k == 2:
            return (nm, None, ('UTF-8', 'naïve é.txt'), 'application/json')
        if k == 3:
            # an escaped quote inside a quoted value that is FOLLOWED by another parameter
            return ('5" ' + nm, 'disk "%d".img' % i, None, None)
        if k == 4:
            return ('é-' + nm, 'a b;c.txt', ('iso-8859-1', 'é.txt'), 'application/octet-stream')
        raise AssertionError(k)


ENVELOPES = [(p, t) for p in (None, b'x', b'\r\n', b'--') for t in (b'\r\n', b'', b'\r\nx', b'\r\n\r\n')]
ENV_DEFAULT = (None, b'\r\n')
ENV_FEW = [ENV_DEFAULT, (b'x', b''), (b'\r\n', b'\r\nx')]


def mkform(sym, boundary, contents, hvs, env=ENV_DEFAULT, style=0):
    parts = []
    for i, (c, k) in enumerate(zip(contents, hvs)):
        parts.append(sym.hv(k, i) + (c,))
    return {'parts': parts, 'boundary': boundary, 'pre': env[0], 'tail': env[1], 'style': style}


def form_body(f):
    return M.encode(f['parts'], f['boundary'], f['pre'], f['tail'], f['style'])


def hv_rotations(n, nvar):
    """header-variant assignments for n parts: every variant appears in every position."""
    if n == 0:
        return [()]
    return [tuple((r + i) % nvar for i in range(n)) for r in range(nvar)]


def gen_part_lists(sym, boundary, nmax, contents, nvar, hv_product_upto=1):
    """(contents tuple, header variants tuple) simplest first."""
    out = []
    for n in range(0, nmax + 1):
        hvs = (list(itertools.product(range(nvar), repeat=n)) if n <= hv_product_upto else hv_rotations(n, nvar))
        for cs in itertools.product(contents, repeat=n):
            for hv in hvs:
                out.append((cs, hv))
    return out


# ---------------------------------------------------------------------------
# case construction (one case = one body + a list of things to do with it)
# ---------------------------------------------------------------------------
def geometries(boundary, transports, chunks=('min', 'min1', None), kinds=('sync', 'async')):
    m = len(boundary) + 4
    out = []
    for kind in kinds:
        for ch in chunks:
            c = m if ch == 'min' else (m + 1 if ch == 'min1' else (m + 2 if ch == 'min2' else ch))
            for t in transports:
                out.append((kind, c, t))
    return out


U = [('u', 0), ('u', 1), ('u', 2), ('u', 3)]


def build_cases(tier, seed):
    sym = Sym(seed)
    quick = tier == 'quick'
    cases = []
    counts = {}

    def add(part, **kw):
        kw['part'] = part
        cases.append(kw)
        counts[part] = counts.get(part, 0) + 1

    bnds = sym.boundaries(tier)
    nvar = 4 if quick else 5

    # ---- A: forms x envelope x reader geometry, every part read completely -----------------
    for b in bnds:
        contents = sym.core(b) if quick else sym.full(b)
        nmax = 2
        for cs, hv in gen_part_lists(sym, b, nmax, contents, nvar):
            n = len(cs)
            envs = ENVELOPES if n <= 1 else (ENV_FEW if quick else ENVELOPES[:8])
            if not quick and n == 2 and len(b) > 1 and (cs[0] not in sym.core(b) and cs[1] not in sym.core(b)):
                continue   # full x full pairs only for the 1-byte boundary
            styles = (0,) if quick or n == 0 else (0, 1, 2)
            for env in envs:
                for style in styles:
                    if style and env != ENV_DEFAULT:
                        continue
                    f = mkform(sym, b, cs, hv, env, style)
                    tr = U if quick else U + [('u', 4)]
                    add('A', form=f, geos=geometries(b, tr, ('min', 'min1', None) if quick else ('min', 'min1', 'min2', None)),
                        ops=('read',))
    if not quick:
        # three parts, core contents, default envelope
        for b in bnds[:2]:
            for cs, hv in gen_part_lists(sym, b, 3, sym.core(b), 3):
                if len(cs) == 3:
                    add('A', form=mkform(sym, b, cs, hv), geos=geometries(b, [('u', 0), ('u', 1), ('u', 3)], ('min', 'min1')),
                        ops=('read',))

    # ---- B: every 1-cut / <=2-cut split ------------------------------------------------------
    for b in bnds:
        short = len(b) <= 2
        contents = sym.core(b)
        for cs, hv in gen_part_lists(sym, b, 2 if short else 1, contents, 3, hv_product_upto=0):
            if not cs and b != bnds[0]:
                continue
            f = mkform(sym, b, cs, hv)
            two = (not quick) and short and len(cs) <= 1
            add('B', form=f, maxcuts=2 if two else 1, geos=geometries(b, [None], ('min', 'min1')), ops=('read',))

    # ---- B (targeted 2-cuts): a tiny transport item lying wholly INSIDE a delimiter, between two long ones -----------
    for b in bnds:
        for cs in ((sym.a * (len(b) + 6), sym.a * (len(b) + 7)), (sym.a * (2 * len(b) + 9), sym.json)):
            f = mkform(sym, b, cs, (1, 2))
            add('B', form=f, inside_delims=True, maxcuts=0, geos=geometries(b, [None], ('min', 'min1', None)), ops=('read',))

    # ---- C: per-part consumption tuples ----------------------------------------------------------
    for b in bnds:
        short = len(b) <= 2
        nmax = 3 if (not quick and b == bnds[0]) else 2
        if len(b) == 70:
            nmax = 1 if quick else 2
        for cs, hv in gen_part_lists(sym, b, nmax, sym.core(b), 3, hv_product_upto=1):
            n = len(cs)
            if n == 0:
                continue
            if n == 3:
                geos = geometries(b, [('u', 0), ('u', 1)], ('min', 'min1'))
            else:
                geos = geometries(b, [('u', 0), ('u', 1), ('u', 3)] if quick else U, ('min', 'min1', None))
            add('C', form=mkform(sym, b, cs, hv), geos=geos, n=n)
        if not quick and short:
            # the full content alphabet, one and two parts
            extra = [c for c in sym.full(b) if c not in sym.core(b)]
            for n in (1, 2):
                for cs in itertools.product(sym.full(b), repeat=n):
                    if not any(c in extra for c in cs):
                        continue
                    for hv in hv_rotations(n, 3):
                        add('C', form=mkform(sym, b, cs, hv),
                            geos=geometries(b, [('u', 0), ('u', 1)], ('min', 'min1', None)), n=n)

    # ---- D: limits at their thresholds -----------------------------------------------------------
    for b in bnds:
        nmax = 2 if quick or len(b) == 70 else 3
        contents = [b'', sym.a, sym.a * 2, b'\r\n--' + b[:-1]] if quick else [b'', sym.a, sym.a * 2, b'\r\n', b'\r\n--' + b[:-1], sym.a * 7]
        for cs, hv in gen_part_lists(sym, b, nmax, contents, 3, hv_product_upto=1):
            if len(cs) == 3 and (hv[0] != 0 or len(set(cs)) < 2):
                continue
            f = mkform(sym, b, cs, hv)
            n = len(cs)
            settings = []
            for L in sorted({0, max(n - 1, 0), n, n + 1}):
                settings.append(({'count': L}, ('read',)))
                settings.append(({'count': L}, ('skip',)))
            lens = sorted({len(c) for c in cs})
            for L in sorted({x for l in lens for x in (l - 1, l, l + 1) if x >= 0}):
                for op in ('data', 'text', 'data2'):
                    settings.append(({'buffer': L}, (op,)))
            hs = sorted({M.headers_size(p) for p in f['parts']})
            for L in sorted({x for h in hs for x in (h - 1, h, h + 1)}):
                settings.append(({'headers': L}, ('read',)))
            if n:
                add('D', form=f, settings=settings,
                    geos=geometries(b, [('u', 0), ('u', 1)] if quick else [('u', 0), ('u', 1), ('u', 3)], ('min', None)))

    # ---- E: single-byte edits and truncations of base bodies -------------------------------------
    bases = []
    b1, b70 = sym.b1, sym.b70
    bases.append(mkform(sym, b1, (sym.a,), (0,)))
    bases.append(mkform(sym, b1, (b'\r\n--', sym.json), (1, 2), (b'x', b'\r\n')))
    bases.append(mkform(sym, b70, (b'\r\n--' + b70[:-1],), (0,)))
    if not quick:
        bases.append(mkform(sym, b1, (), ()))
        bases.append(mkform(sym, sym.b2, (b'--', b'-' * 5), (0, 1)))
        bases.append(mkform(sym, b1, (sym.a, b''), (3, 0), (b'\r\n', b'\r\nx')))
        bases.append(mkform(sym, b1, (b'\r\n', sym.a, b'\r\n--'), (0, 0, 0), (None, b'')))
        bases.append(mkform(sym, b70, (sym.a, b'--'), (2, 0), (b'--', b'\r\n\r\n')))
        for c in sym.full(b1):
            if c != sym.a and len(c) < 100:
                bases.append(mkform(sym, b1, (c,), (0,)))
        for cs in itertools.product(sym.core(b1)[:6], repeat=2):
            bases.append(mkform(sym, b1, cs, (0, 0)))
    else:
        bases.append(mkform(sym, b1, (sym.a,), (3,)))   # raw UTF-8 name, ';' in filename
    for f in bases:
        body = form_body(f)
        n_edits = NEDIT * len(body)
        step = 140
        for lo in range(0, n_edits, step):
            add('E', form=f, lo=lo, hi=min(lo + step, n_edits),
                geos=geometries(f['boundary'], U, ('min', 'min1', None)))

    # ---- S: pass-through reads of a part in application-chosen block sizes: read(n), then read(blk) until empty ----
    # (a file upload copied to disk); n and the content length sweep across the reader's refill edges
    for b in bnds:
        c = len(b) + 4
        if c <= 8:
            lens = list(range(0, 3 * c + 4))
            nsf = lambda L: range(1, L + 2)                                                    # noqa: E731
            blocks = (1, 2, c - 1, c, c + 1)
        else:
            lens = [c + 1, 2 * c + 1, 3 * c + 2]
            nsf = lambda L: [x for x in list(range(c - 3, c + 4)) + list(range(2 * c - 3, 2 * c + 4)) if x <= L + 1]   # noqa: E731
            blocks = (1, c - 1, c + 1)
        conts = [sym.a * L for L in lens]
        if c <= 8:
            conts += [sym.a * i + b'\r\n-' + sym.a * j for i in (0, 1, c - 2, c) for j in (0, 1, c)]
        for cont in conts:
            f = mkform(sym, b, (cont, sym.json), (1, 2))
            add('S', form=f, ns=list(nsf(len(cont))), blocks=blocks,
                geos=geometries(b, [('u', 0), ('u', 1), ('u', 3)], ('min', 'min1') if quick else ('min', 'min1', 'min2')))
            if c <= 8 and cont == sym.a * len(cont) and len(cont) >= c:
                # the same content as the LAST part, copied out in three steps: read(n1), read(n2), read() to the end
                f2 = mkform(sym, b, (sym.json, cont), (2, 1))
                add('S', form=f2, last=True, pairs=[(n1, n2) for n1 in range(1, c + 2) for n2 in range(1, len(cont) + 1)],
                    geos=geometries(b, [('u', 0), ('u', 3)], ('min', 'min1')))
        if c <= 8:
            # reader chunks LONGER than what follows the last part (close delimiter + CRLF): a first read that leaves more
            # than that many bytes consumed in the buffer, then a read of at least one whole chunk beyond it, then read()
            tail = len(b) + 8
            big = tail + 3
            for L in (3 * big + 2, 3 * big + 5):
                f3 = mkform(sym, b, (sym.json, sym.a * L), (2, 1))
                add('S', form=f3, last=True,
                    pairs=[(n1, n2) for n1 in range(tail - 1, big) for n2 in range(big - 2, 2 * big + 3)],
                    geos=geometries(b, [('u', 0), ('u', 7)], (big,)))
    # ---- F: the whole request path (App -> req.get_media()) ---------------------------------------
    for b in bnds:
        for cs, hv in gen_part_lists(sym, b, 2, sym.core(b), 3):
            add('F', form=mkform(sym, b, cs, hv), trunc=(len(cs) <= 1 or not quick))
    # ---- H: boundary parameter extraction / validation ---------------------------------------------
    for n in (0, 1, 2, 69, 70, 71, 72):
        for quoting in ('plain', 'quoted', 'quoted-trailing-space', 'param-first', 'upper-case-name', 'quoted-leading-space',
                        'quoted-inner-space'):
            add('H', blen=n, quoting=quoting)
    # big bodies: the delimiter sweeps across the readers' default chunk edges
    for edge in (8192, 32768):
        for d in range(-8, 6) if quick else range(-80, 12):
            add('G', edge=edge, delta=d, boundary=b1)
    return cases, counts, sym


# ---------------------------------------------------------------------------
# running cases
# ---------------------------------------------------------------------------
def fmt_geo(g):
    return 'parser=%s reader_chunk=%s transport=%s' % (g[0], g[1] if g[1] else 'default', g[2])


def report_valid(rep, part, f, body, geo, ops, opts, exp, got, extra=None):
    kind, j = first_difference(exp, got)
    if kind is None:
        return False
    exc = exc_of(got, kind, j)
    phase = {'A': 'geometry', 'B': 'cuts', 'C': 'consumption', 'D': 'limit', 'G': 'big', 'S': 'sized-reads'}[part]
    sig = {'kind': kind, 'parser': geo[0], 'phase': phase,
           'op': op_at(ops, max(j, 0)).split(':')[0] if kind == 'content' else '',
           'exc': exc}
    if part == 'D':
        sig['limit'] = sorted(opts)[0] if opts else ''
    rec = {'part': part, 'form': f, 'geo': list(geo), 'ops': list(ops), 'opts': opts}
    if extra:
        rec.update(extra)
    rep.violation(sig, rec,
                  'body=%r %s consumption=%r options=%r: encoder model expects %r, falcon gave %r (first difference: %s of part %d)'
                  % (body if len(body) < 400 else body[:200] + b'...', fmt_geo(geo), list(ops), opts, _short(exp), _short(got),
                     kind, j))
    return True


def _short(o):
    s = repr(o)
    return s if len(s) < 700 else s[:700] + '...'


def run_valid(rep, part, f, geo, ops, opts, body=None, exp=None):
    body = body if body is not None else form_body(f)
    exp = exp if exp is not None else expected(f['parts'], ops, opts, f['style'])
    got = drive(geo[0], body, f['boundary'], geo[1], geo[2], ops, opts)
    rep.trans(len(exp[0]) + 1)
    rep.trace()
    eff = geo[1] or (32768 if geo[0] == 'sync' else 8192)
    if f['parts'] and len(body) > eff:
        rep.nt(digest((body, geo, ops, tuple(sorted(opts.items())))))
    bad = report_valid(rep, part, f, body, geo, ops, opts, exp, got)
    rep.outcome('%s:%s:%s' % (part, 'error-expected' if exp[1] != 'ok' else 'ok', 'MISMATCH' if bad else 'match'))
    return got


def selfcheck_form(f, body):
    vis = [M.visible(p) for p in f['parts']]
    try:
        dec = M.decode(body, f['boundary'])
    except M.Reject as e:
        raise AssertionError('harness: strict decoder rejects an encoder body %r: %s' % (body, e))
    if dec != vis:
        raise AssertionError('harness: decode(encode(form)) != form: %r -> %r' % (vis, dec))


def case_A(case, rep):
    f = case['form']
    body = form_body(f)
    selfcheck_form(f, body)
    rep.state()
    exp = expected(f['parts'], case['ops'], {}, f['style'])
    for geo in case['geos']:
        run_valid(rep, 'A', f, geo, case['ops'], {}, body, exp)
    rep.sample({'part': 'A', 'body': body, 'geometries': len(case['geos'])})


def case_B(case, rep):
    f = case['form']
    body = form_body(f)
    selfcheck_form(f, body)
    exp = expected(f['parts'], case['ops'], {}, f['style'])
    n = len(body)
    if case.get('inside_delims'):
        delim = b'\r\n--' + f['boundary']
        p = body.find(delim)
        while p >= 0:
            for i in range(1, len(delim)):
                for j in range(1, len(delim) - i + 1):
                    rep.state()
                    for kind, chunk, _ in case['geos']:
                        run_valid(rep, 'B', f, (kind, chunk, ('c', (p + i, p + i + j))), case['ops'], {}, body, exp)
            p = body.find(delim, p + 1)
    for k in range(1, case['maxcuts'] + 1):

        for cuts in itertools.combinations(range(1, n), k):
            rep.state()
            for kind, chunk, _ in case['geos']:
                run_valid(rep, 'B', f, (kind, chunk, ('c', cuts)), case['ops'], {}, body, exp)


def case_C(case, rep):
    f = case['form']
    body = form_body(f)
    selfcheck_form(f, body)
    for ops in itertools.product(OPS7, repeat=case['n']):
        rep.state()
        exp = expected(f['parts'], ops, {}, f['style'])
        for geo in case['geos']:
            run_valid(rep, 'C', f, geo, ops, {}, body, exp)


def case_S(case, rep):
    f = case['form']
    body = form_body(f)
    selfcheck_form(f, body)
    if case.get('last'):
        for n1, n2 in case['pairs']:
            rep.state()
            ops = ('media', 'sz3:%d:%d' % (n1, n2))
            exp = expected(f['parts'], ops, {}, f['style'])
            for geo in case['geos']:
                run_valid(rep, 'S', f, geo, ops, {}, body, exp)
        return
    for n in case['ns']:
        for blk in case['blocks']:
            rep.state()
            ops = ('sz:%d:%d' % (n, blk), 'media')
            exp = expected(f['parts'], ops, {}, f['style'])
            for geo in case['geos']:
                run_valid(rep, 'S', f, geo, ops, {}, body, exp)


def case_D(case, rep):
    f = case['form']
    body = form_body(f)
    selfcheck_form(f, body)
    for opts, ops in case['settings']:
        rep.state()
        exp = expected(f['parts'], ops, opts, f['style'])
        for geo in case['geos']:
            run_valid(rep, 'D', f, geo, ops, opts, body, exp)


EDIT_SUBS = (b'-', b'\r', b'\n', b'x', b'\xff')
NEDIT = len(EDIT_SUBS) + 2


def edit_of(body, idx):
    """idx in [0, NEDIT*len): 0 = deletion, 1..5 = substitution, 6 = truncation at that position."""
    pos, k = divmod(idx, NEDIT)
    if k == 0:
        return ('del', pos), body[:pos] + body[pos + 1:]
    if k == NEDIT - 1:
        return ('trunc', pos), body[:pos]
    s = EDIT_SUBS[k - 1]
    if body[pos:pos + 1] == s:
        return None, None
    return ('sub', pos, s), body[:pos] + s + body[pos + 1:]


def classify_obs(obs):
    """-> None if the observation only contains allowed outcomes, else (field, exception)."""
    if obs == HANG:
        return ('parse', 'HANG')
    parts, end = obs
    if end != 'ok' and end != MPE:
        return ('end', end[1] if isinstance(end, tuple) else str(end))
    for p in parts:
        for name, v in zip(('name', 'filename', 'content-type', 'content'), p):
            if isinstance(v, tuple) and v[:1] == ('E',) and v != MPE:
                return (name, v[1])
    return None


def strip_content(obs):
    if obs == HANG:
        return obs
    return tuple(p[:3] for p in obs[0]), obs[1]


def check_edited(rep, f, body, edit, geos, sym=None):
    """All geometries x both consumption modes on one edited body."""
    boundary = f['boundary']
    try:
        pinned = M.decode(body, boundary)
    except M.Reject:
        pinned = None
    rep.state()
    first = {}
    ok = True
    for mode in ('read', 'skip'):
        for geo in geos:
            got = drive(geo[0], body, boundary, geo[1], geo[2], (mode,), {})
            rep.trans()
            rep.trace()
            rec = {'part': 'E', 'form': f, 'edit': list(edit), 'geos': [list(g) for g in geos]}
            bad = classify_obs(got)
            if bad is not None:
                field, exc = bad
                rep.violation({'kind': 'non-termination' if exc == 'HANG' else 'other-exception', 'parser': geo[0],
                               'phase': 'edited', 'field': field, 'exc': exc}, rec,
                              'edited body %r (%r) %s mode=%s: only parts or MultipartParseError are allowed, falcon gave %s'
                              % (body, edit, fmt_geo(geo), mode, _short(got)))
                ok = False
                continue
            if mode not in first:
                first[mode] = (geo, got)
            elif got != first[mode][1]:
                g0 = first[mode][0]
                rep.violation({'kind': 'sync-async-disagreement' if g0[0] != geo[0] else 'geometry-disagreement',
                               'parser': geo[0], 'phase': 'edited', 'field': first_difference(first[mode][1], got)[0], 'exc': ''},
                              rec, 'edited body %r (%r) mode=%s: %s gave %s but %s gave %s'
                              % (body, edit, mode, fmt_geo(g0), _short(first[mode][1]), fmt_geo(geo), _short(got)))
                ok = False
    if 'read' in first and 'skip' in first and strip_content(first['read'][1]) != strip_content(first['skip'][1]):
        rep.violation({'kind': 'consumption-disagreement', 'parser': '', 'phase': 'edited', 'field': '', 'exc': ''},
                      {'part': 'E', 'form': f, 'edit': list(edit), 'geos': [list(g) for g in geos]},
                      'edited body %r (%r): reading every part gave %s, skipping every part gave %s'
                      % (body, edit, _short(first['read'][1]), _short(first['skip'][1])))
        ok = False
    if pinned is not None and 'read' in first:
        exp = (tuple(p for p in pinned), 'ok')
        got = first['read'][1]
        if got != exp:
            rep.violation({'kind': 'strict-decoder-disagreement', 'parser': first['read'][0][0], 'phase': 'edited',
                           'field': first_difference(exp, got)[0], 'exc': exc_of(got, *first_difference(exp, got))},
                          {'part': 'E', 'form': f, 'edit': list(edit), 'geos': [list(g) for g in geos]},
                          'edited body %r (%r): the strict reference decoder accepts it as %s, falcon gave %s'
                          % (body, edit, _short(exp), _short(got)))
            ok = False
    cls = 'accepted-by-strict-decoder' if pinned is not None else (
        'parsed-leniently' if first.get('read', (None, ((), None)))[1][1] == 'ok' else 'MultipartParseError')
    rep.outcome('E:' + cls)
    if pinned is None:
        rep.nt(digest(('E', body)))
    return ok


def case_E(case, rep):
    f = case['form']
    body = form_body(f)
    selfcheck_form(f, body)
    for idx in range(case['lo'], case['hi']):
        edit, edited = edit_of(body, idx)
        if edit is None:
            continue
        check_edited(rep, f, edited, edit, case['geos'])


# -- F: whole request path ------------------------------------------------------------
_APPS = {}
_SLOT = {}


def apps():
    if not _APPS:
        from mc.drivers import asgi as adrv, wsgi as wdrv

        class WRes:
            def on_post(self, req, resp):
                form = req.get_media()
                _SLOT['obs'] = iterate_sync(form, _SLOT['ops'])
                resp.media = {'parts': len(_SLOT['obs'][0])}

        class ARes:
            async def on_post(self, req, resp):
                form = await req.get_media()
                _SLOT['obs'] = await iterate_async(form, _SLOT['ops'])
                resp.media = {'parts': len(_SLOT['obs'][0])}

        class WRaw:
            def on_post(self, req, resp):
                n = 0
                for part in req.get_media():
                    part.stream.read()
                    n += 1
                resp.media = {'parts': n}

        class ARaw:
            async def on_post(self, req, resp):
                n = 0
                async for part in await req.get_media():
                    await part.stream.read()
                    n += 1
                resp.media = {'parts': n}

        wa = falcon.App()
        wa.add_route('/f', WRes())
        wa.add_route('/raw', WRaw())
        aa = falcon.asgi.App()
        aa.add_route('/f', ARes())
        aa.add_route('/raw', ARaw())
        _APPS.update(w=wa, a=aa, wdrv=wdrv, adrv=adrv)
    return _APPS


def stack_call(stack, path, body, boundary, ops, variant):
    ap = apps()
    _SLOT.clear()
    _SLOT['ops'] = ops
    hdrs = [('Content-Type', M.header_value(boundary))]
    try:
        with watchdog.limit(5.0):
            if stack == 'wsgi':
                res = ap['wdrv'].call(ap['w'], method='POST', raw_path=path, headers=hdrs, body=body, input_kind=variant)
            else:
                k = variant
                chunks = [body[i:i + k] for i in range(0, len(body), k)] if k and body else None
                res = ap['adrv'].call(ap['a'], method='POST', raw_path=path,
                                      headers=hdrs + [('Content-Length', str(len(body)))], body=body, chunks=chunks)
    except watchdog.Hang:
        return None, HANG
    return res, _SLOT.get('obs')


STACK_VARIANTS = [('wsgi', 'buffered'), ('wsgi', 'short'), ('asgi', 0), ('asgi', 1), ('asgi', 2), ('asgi', 7)]


def case_F(case, rep):
    f = case['form']
    body = form_body(f)
    selfcheck_form(f, body)
    rep.state()
    for ops in (('read',), ('skip',), ('data',), ('read1',)):
        exp = expected(f['parts'], ops, {}, f['style'])
        for stack, variant in STACK_VARIANTS:
            res, got = stack_call(stack, '/f', body, f['boundary'], ops, variant)
            rep.trans()
            rep.trace()
            geo = (stack, None, ('stack', variant))
            rec = {'part': 'F', 'form': f, 'stack': stack, 'variant': variant, 'ops': list(ops)}
            if got == HANG or got is None or res is None or res.exc is not None or res.problems or res.code != 200:
                rep.violation({'kind': 'non-termination' if got == HANG else 'request-failed', 'parser': stack, 'phase': 'stack',
                               'op': ops[0], 'exc': type(res.exc).__name__ if res is not None and res.exc is not None else ''},
                              rec, 'POST of a valid form %r on %s/%r: expected 200 and parts %s; got status %s exc %r problems %r obs %s'
                              % (body, stack, variant, _short(exp), getattr(res, 'code', None), getattr(res, 'exc', None),
                                 getattr(res, 'problems', None), _short(got)))
                continue
            kind, j = first_difference(exp, got)
            if kind is not None:
                rep.violation({'kind': kind, 'parser': stack, 'phase': 'stack', 'op': ops[0] if kind == 'content' else '',
                               'exc': exc_of(got, kind, j)}, rec,
                              'POST %r on %s/%r consumption=%r: encoder model expects %s, req.get_media() gave %s'
                              % (body, stack, variant, ops, _short(exp), _short(got)))
            rep.outcome('F:valid')
    # truncations of the body through the stack: 400 (or parsed exactly as the strict decoder says)
    for cut in range(0, len(body) if case.get('trunc', True) else 0):
        tb = body[:cut]
        try:
            pinned = M.decode(tb, f['boundary'])
        except M.Reject:
            pinned = None
        codes = {}
        for stack, variant in (('wsgi', 'buffered'), ('asgi', 0), ('asgi', 3)):
            res, _ = stack_call(stack, '/raw', tb, f['boundary'], ('read',), variant)
            rep.trans()
            rep.trace()
            rec = {'part': 'F', 'form': f, 'stack': stack, 'variant': variant, 'cut': cut}
            if res is None or res.exc is not None or res.problems or res.code not in (200, 400):
                rep.violation({'kind': 'non-termination' if res is None else 'not-a-400', 'parser': stack, 'phase': 'stack-truncated',
                               'op': '', 'exc': type(res.exc).__name__ if res is not None and res.exc is not None else ''},
                              rec, 'POST of truncated form %r on %s/%r: expected 400 (or 200), got status %s exc %r problems %r'
                              % (tb, stack, variant, getattr(res, 'code', None), getattr(res, 'exc', None),
                                 getattr(res, 'problems', None)))
                continue
            codes[(stack, variant)] = (res.code, res.body if res.code == 200 else None)
            if pinned is not None and (res.code != 200 or res.body != ('{"parts": %d}' % len(pinned)).encode()):
                rep.violation({'kind': 'strict-decoder-disagreement', 'parser': stack, 'phase': 'stack-truncated', 'op': '', 'exc': ''},
                              rec, 'truncated form %r is accepted by the strict decoder (%d parts) but %s answered %s %r'
                              % (tb, len(pinned), stack, res.code, res.body))
        if len(set(codes.values())) > 1:
            rep.violation({'kind': 'sync-async-disagreement', 'parser': '', 'phase': 'stack-truncated', 'op': '', 'exc': ''},
                          {'part': 'F', 'form': f, 'cut': cut}, 'truncated form %r: stacks disagree: %r' % (tb, codes))
        rep.outcome('F:truncated:%s' % sorted(set(c for c, _ in codes.values())))


def case_G(case, rep, sym=None):
    """One big first part whose closing delimiter starts `delta` bytes from the readers'
    default chunk edge (8192 async, 32768 sync); default readers, whole stack for ASGI/WSGI."""
    b = case['boundary']
    edge, delta = case['edge'], case['delta']
    head = M.encode([('n0', None, None, None, b'')], b, None, b'')
    prefix_len = head.index(b'\r\n\r\n') + 4
    clen = edge + delta - prefix_len
    a = b'e'
    content = (a * clen)[:-3] + b'\r\n-'
    f = {'parts': [('n0', None, None, None, content), ('n1', None, None, 'application/json', b'[1]')],
         'boundary': b, 'pre': None, 'tail': b'\r\n', 'style': 0}
    body = form_body(f)
    assert body.index(b'\r\n--' + b, prefix_len) == edge + delta
    rep.state()
    exp = expected(f['parts'], ('read',), {}, 0)
    for kind in ('sync', 'async'):
        for t in (('u', 0), ('u', 4096), ('u', 1000), ('c', (edge + delta + 1,)), ('c', (edge + delta + 2, edge + delta + 5))):
            run_valid(rep, 'G', f, (kind, None, t), ('read',), {}, body, exp)
            run_valid(rep, 'G', f, (kind, None, t), ('skip', 'media'), {}, body,
                      expected(f['parts'], ('skip', 'media'), {}, 0))


def case_H(case, rep):
    n, q = case['blen'], case['quoting']
    b = (b'----' + b'Zq9' * 30)[:n]
    if q == 'quoted-leading-space' and n >= 2:
        b = b' ' + b[1:]              # RFC 2046: a space is a legal boundary character anywhere but last
    elif q == 'quoted-inner-space' and n >= 3:
        b = b[:1] + b' ' + b[2:]
    bs = b.decode()
    value = {'plain': 'multipart/form-data; boundary=%s' % bs,
             'quoted': 'multipart/form-data; boundary="%s"' % bs,
             'quoted-trailing-space': 'multipart/form-data; boundary="%s  "' % bs,
             'quoted-leading-space': 'multipart/form-data; boundary="%s"' % bs,
             'quoted-inner-space': 'multipart/form-data; boundary="%s"' % bs,
             'param-first': 'multipart/form-data; charset=utf-8; boundary=%s' % bs,
             'upper-case-name': 'multipart/form-data; BOUNDARY=%s' % bs}[q]
    parts = [('n0', None, None, None, b'-' + b)]
    body = M.encode(parts, b)
    exp = ((M.visible(parts[0]),), 'ok') if 1 <= n <= 70 else ((), ('E@deserialize', 'HTTPInvalidHeader'))
    handler = handler_for({})
    rep.state()
    for kind in ('sync', 'async'):
        try:
            with watchdog.limit(3.0):
                if kind == 'sync':
                    try:
                        got = iterate_sync(handler.deserialize(SyncSource(body, ()), value, len(body)), ('read',))
                    except Exception as e:  # noqa: BLE001
                        got = ((), ('E@deserialize', type(e).__name__))
                else:
                    async def go():
                        try:
                            form = await handler.deserialize_async(async_source([body]), value, None)
                        except Exception as e:  # noqa: BLE001
                            return (), ('E@deserialize', type(e).__name__)
                        return await iterate_async(form, ('read',))
                    got = run_coro(go())
        except watchdog.Hang:
            got = HANG
        rep.trans()
        rep.trace()
        rep.outcome('H:%s' % ('accepted' if exp[1] == 'ok' else 'HTTPInvalidHeader'))
        if got != exp:
            rep.violation({'kind': 'boundary-parameter', 'parser': kind, 'phase': 'boundary', 'op': q,
                           'exc': exc_of(got, 'end', 0) if got != HANG else 'HANG'},
                          {'part': 'H', 'blen': n, 'quoting': q},
                          'Content-Type %r (boundary of %d characters), body %r, parser=%s: RFC 2046 model expects %s, falcon gave %s'
                          % (value, n, body, kind, _short(exp), _short(got)))


CASE_FUNCS = {'H': case_H, 'A': case_A, 'B': case_B, 'C': case_C, 'D': case_D, 'E': case_E, 'F': case_F, 'G': case_G, 'S': case_S}
_CASES = []


def run_batch(shard, rep):
    for i in shard:
        case = _CASES[i]
        before = rep.c['traces']
        CASE_FUNCS[case['part']](case, rep)
        rep.parts.setdefault(case['part'], {'cases': 0, 'parses': 0})
        rep.parts[case['part']]['cases'] += 1
        rep.parts[case['part']]['parses'] += rep.c['traces'] - before


def weight(case):
    p = case['part']
    if p == 'A':
        return len(case['geos'])
    n = len(form_body(case['form'])) if 'form' in case else 1
    if p == 'B':
        if case.get('inside_delims'):
            return len(case['geos']) * 3 * (len(case['form']['boundary']) + 4) ** 2
        return len(case['geos']) * (n if case['maxcuts'] == 1 else n * n // 2)
    if p == 'C':
        return len(case['geos']) * 7 ** case['n']
    if p == 'D':
        return len(case['geos']) * len(case['settings'])
    if p == 'S':
        return len(case['geos']) * (len(case['pairs']) if case.get('last') else len(case['ns']) * len(case['blocks']))
    if p == 'E':
        return (case['hi'] - case['lo']) * len(case['geos']) * 2
    if p == 'F':
        return 24 + 3 * n
    if p == 'H':
        return 2
    return 400


def check(rep):
    global _CASES
    cases, counts, sym = build_cases(rep.tier, rep.seed)
    _CASES = cases
    quick = rep.tier == 'quick'
    rep.bounds = {
        'parts_per_form': '0..2' if quick else '0..3',
        'boundary_lengths': [len(b) for b in sym.boundaries(rep.tier)],
        'content_alphabet': 'core (8)' if quick else 'core (8) + full (8 more) ',
        'reader_chunk_sizes': 'len(boundary)+4, +1, default' if quick else 'len(boundary)+4, +1, +2, default',
        'transports': 'one chunk, uniform 1/2/3; every 1-cut split' if quick else 'one chunk, uniform 1/2/3/4; every <=2-cut split',
        'consumption': '7^n tuples over %s' % (OPS7,),
        'limits': 'count {n-1,n,n+1,0}, buffer {len-1,len,len+1}, headers {H-1,H,H+1}',
        'edits': 'deletion, substitution by - CR LF x 0xFF, truncation at every byte of %d base bodies' % (4 if quick else 60),
        'cases': counts,
    }
    rep.rule = ('one execution = one complete parse (iteration + per-part consumption) of one body by one parser in one '
                'reader geometry, compared with the encoder model (or cross-compared for edited bodies); non-trivial = '
                'distinct (body, geometry, consumption) whose body spans more than one reader chunk, plus distinct edited '
                'bodies the strict decoder rejects')
    rep.assumptions = [
        'bodies come from the reference encoder (RFC 7578 subset: Content-Disposition [+ Content-Type] per part)',
        'a part content never contains CRLF--boundary and never starts with --boundary',
        'get_media() on a part whose type has no handler raises HTTPUnsupportedMediaType (documented resolution)',
        'JSON parts: expected value from the independent strict JSON decoder (mc/props/c12_json.py)',
        'for edited bodies header parsing leniency is not pinned unless the strict decoder accepts the body',
        'async parser driven without an event loop (the fake source never suspends)',
    ]
    nshards = 96 if quick else 512
    # contiguous, weight-balanced shards: merge order = case order, so the first example kept for a
    # violation kind is the simplest one
    total = sum(weight(cases[i]) for i in range(len(cases)))
    target = max(1, total // nshards)
    shards, cur, acc = [], [], 0
    for i in range(len(cases)):
        cur.append(i)
        acc += weight(cases[i])
        if acc >= target:
            shards.append(cur)
            cur, acc = [], 0
    if cur:
        shards.append(cur)
    if rep.seed:
        r = rep.seed % len(shards)
        shards = shards[r:] + shards[:r]
    par.run_shards(run_batch, shards, rep)


def replay(rec):
    from mc.core.report import Report
    rep = Report('C13')
    part = rec['part']
    f = rec.get('form')
    if f is not None:
        f['parts'] = [tuple(tuple(x) if isinstance(x, list) else x for x in p) for p in f['parts']]

    def tgeo(g):
        return (g[0], g[1], (g[2][0], tuple(g[2][1]) if isinstance(g[2][1], list) else g[2][1]))
    if part in ('A', 'B', 'C', 'D', 'G'):
        run_valid(rep, part, f, tgeo(rec['geo']), tuple(rec['ops']), rec.get('opts') or {})
    elif part == 'E':
        body = form_body(f)
        e = rec['edit']
        if e[0] == 'del':
            edited = body[:e[1]] + body[e[1] + 1:]
        elif e[0] == 'trunc':
            edited = body[:e[1]]
        else:
            edited = body[:e[1]] + e[2] + body[e[1] + 1:]
        check_edited(rep, f, edited, tuple(e), [tgeo(g) for g in rec['geos']])
    elif part == 'F':
        case_F({'form': f}, rep)
    elif part == 'H':
        case_H(rec, rep)
    v = list(rep.viol.values())
    return {'violation': bool(v), 'details': [x['explain'] for x in v]}
