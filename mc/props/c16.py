"""C16 -- static routes never leave their directory and serve exactly the requested bytes.

Engine: ENUM (bounded-exhaustive products), every request executed on the real
``falcon.App`` / ``falcon.asgi.App`` through the spec drivers (``mc.drivers``),
with a process-wide ``sys.addaudithook`` recording every file-system ``open`` /
``os.listdir`` / ``os.scandir`` made while the request runs.

Fixture (built by every worker in its own ``tempfile.mkdtemp()``, removed in
``finally``; mtimes fixed with ``os.utime``)::

    T/root/{a.txt, x y.txt, <e-acute>.txt, empty, index.html, frac.txt,
            f0.bin .. f4.bin (sizes 0..4), sub/b.bin, sub/deep/c.txt}
    T/root2/secret.txt      sibling whose name has the served directory's name as prefix
    T/secret.txt            in the parent of the served directory
    T/fallback.html         fallback file outside the directory

Alphabets
  PATH  part: request path = prefix + '/' + '/'.join(tokens), tokens from SEGMENTS
        (dot segments, empty segment, real names, names of outside files, backslash forms,
        NUL / trailing period / surrounding blanks, '~', 'C:', a 600-char name, the absolute
        path of the outside secret, a double-encoded '..', invalid UTF-8), sequences up to
        length 2 (+3 over an 8-token core) quick / 3 (+4 over the core) thorough; every edit-distance-1 mutant (insert / replace /
        delete, 26 characters) of 'a.txt' and 'sub/b.bin'; three renderings of the same
        decoded path (minimal escaping, every byte escaped, separators escaped too);
        route options fallback {none, inside, outside} x downloadable {no, yes};
        prefix forms {'/static', '/static/', '/'}; bare prefix, look-alike prefixes;
        two-route registrations in both orders (LIFO); GET / HEAD / OPTIONS;
        stacks: WSGI, WSGI with wsgi.file_wrapper, ASGI.
  RANGE part: file sizes 0..3 (quick) / 0..4 (thorough) x Range in {none, bytes=f-l, f-, -s
        with f,l,s in 0..5, huge numbers, other unit, upper-case unit, multi-range, malformed}
        x If-Modified-Since in {none, before, equal, after, far past, far future, malformed
        (4 forms)} x {GET, HEAD} x stacks x {direct, served as fallback, sub-second mtime}.

Oracle (reference model below; imports nothing from falcon)
  containment: every audited open is inside realpath(root) or is the configured fallback
        file (opens below the interpreter / falcon source trees are ignored: lazy imports);
  path: own percent/UTF-8 decoding, own lexical resolution.  A *clean* remainder (no dot or
        empty segments, no '..' substring, no control / reserved characters, no backslash, no surrounding blanks
        or trailing period, <= 512 chars) that names a regular file MUST be served (200,
        exact bytes, exact Content-Length, Content-Disposition iff downloadable); a clean
        remainder that names nothing MUST give 404, or the fallback file when one is
        configured.  For any other spelling the permitted set is {404, fallback if
        configured, the file the lexical resolution denotes if that stays inside the
        directory}: the statement promises containment and "anything else is a 404", not
        which hostile spellings are refused.
  range: RFC 9110 arithmetic from the statement: satisfiable single range => 206 + exact
        slice + Content-Range 'bytes f-l/size' + Content-Length; unsatisfiable => 416 with
        'bytes */size'; zero-length file => 200 empty or 416 (code documents ignoring Range);
        other unit => 200 full.  Not decided by the statement, therefore a *set* is permitted:
        syntactically invalid or multi-range values => {400, 416, 200 full};
        'bytes=-0' => {416, 400} (valid grammar, unsatisfiable, but Request.range cannot
        express it and treats it as malformed); 'Bytes=' => {200 full, 206}.
  If-Modified-Since: valid IMF-fixdate d => 304 without body iff floor(mtime) <= d (evaluated
        before Range); invalid date => {400, ignored}.
  HEAD: status and headers of GET, empty body.  OPTIONS on a matched route: 200, Allow: GET,
        empty body.  No exception escapes, no protocol-monitor finding.

Cut from DESIGN.md: numeric leniency of int() in Range values ('+1', ' 1', '1_0') is not
judged here (C09 owns typed header accessors); obsolete HTTP-date formats likewise.
"""
import itertools
import os
import re
import shutil
import sys
import tempfile
import time

from mc.core import par
from mc.core.report import digest
from mc.drivers import asgi as adrv
from mc.drivers import wsgi as wdrv

import falcon
import falcon.asgi

# ---------------------------------------------------------------------------
# audit hook (cannot be removed: one per process, consults a module-level list)
# ---------------------------------------------------------------------------
_REC = None
_HOOKED = False
_AUDITED = ('open', 'os.listdir', 'os.scandir')


def _audit(event, args):
    if _REC is not None and event in _AUDITED:
        _REC.append((event, args[0] if args else None))


def install_hook():
    global _HOOKED
    if not _HOOKED:
        sys.addaudithook(_audit)
        _HOOKED = True


# ---------------------------------------------------------------------------
# fixture
# ---------------------------------------------------------------------------
T0 = 1000000000          # 2001-09-09 01:46:40 UTC
EACUTE = 'é'


def fixture_spec(seed):
    """The model's knowledge of the tree: relpath (below root) -> bytes; outside files."""
    k = (seed * 7) % 23

    def blob(tag, n):
        return bytes((0x30 + k + i * 5 + len(tag)) % 256 for i in range(n))
    inside = {
        'a.txt': b'A-' + blob('a', 3),
        'x y.txt': b'XY' + blob('xy', 1),
        EACUTE + '.txt': b'E\xc3\xa9',
        'empty': b'',
        'index.html': b'<i>' + blob('i', 2),
        'frac.txt': b'frac',
        'sub/b.bin': b'\x00\xff\r\n' + blob('b', 2),
        'sub/deep/c.txt': b'c' + blob('c', 1),
    }
    for n in range(5):
        inside['f%d.bin' % n] = bytes((0x61 + k + i) % 256 for i in range(n))
    # longer than two of the 8 KiB blocks in which a server reads the response stream (position-dependent content)
    inside['big.bin'] = bytes((i * 7 + i // 251 + k) % 256 for i in range(40000))
    outside = {
        'secret.txt': b'SECRET-parent',
        'root2/secret.txt': b'SECRET-sibling',
        'fallback.html': b'FB' + blob('f', 1),
    }
    return inside, outside


class Fixture:
    def __init__(self, seed):
        self.inside, self.outside = fixture_spec(seed)
        self.top = os.path.realpath(tempfile.mkdtemp(prefix='mc_c16_'))
        self.root = os.path.join(self.top, 'root')
        for rel, data in self.inside.items():
            self._write(os.path.join(self.root, rel), data, rel == 'frac.txt')
        for rel, data in self.outside.items():
            self._write(os.path.join(self.top, rel), data, False)
        self.fallback_out = os.path.join(self.top, 'fallback.html')
        self.abs_secret = os.path.join(self.top, 'secret.txt')

    @staticmethod
    def _write(path, data, frac):
        os.makedirs(os.path.dirname(path), exist_ok=True)
        with open(path, 'wb') as f:
            f.write(data)
        ns = T0 * 10 ** 9 + (750000000 if frac else 0)
        os.utime(path, ns=(ns, ns))

    def close(self):
        shutil.rmtree(self.top, ignore_errors=True)


# ---------------------------------------------------------------------------
# reference model
# ---------------------------------------------------------------------------
_HEXD = '0123456789abcdefABCDEF'
_BAD_CHARS = set(chr(c) for c in range(0x20)) | set(chr(c) for c in range(0x80, 0xa0)) | set('\ufffd~?<>:*|\'"\\')
_DAYS = ('Mon', 'Tue', 'Wed', 'Thu', 'Fri', 'Sat', 'Sun')
_MONTHS = ('Jan', 'Feb', 'Mar', 'Apr', 'May', 'Jun', 'Jul', 'Aug', 'Sep', 'Oct', 'Nov', 'Dec')


def m_decode_path(raw):
    """What the application must see for a raw request path: percent-decode once to bytes
    (malformed escapes literal), then UTF-8 with U+FFFD replacement."""
    out = bytearray()
    i = 0
    while i < len(raw):
        ch = raw[i]
        if ch == '%' and i + 2 < len(raw) + 0 and raw[i + 1] in _HEXD and raw[i + 2] in _HEXD:
            out.append(int(raw[i + 1:i + 3], 16))
            i += 3
        else:
            out += ch.encode('utf-8')
            i += 1
    return bytes(out).decode('utf-8', 'replace')


def m_http_date(ts):
    t = time.gmtime(ts)
    return '%s, %02d %s %04d %02d:%02d:%02d GMT' % (_DAYS[t.tm_wday], t.tm_mday, _MONTHS[t.tm_mon - 1], t.tm_year,
                                                     t.tm_hour, t.tm_min, t.tm_sec)


_IMF = re.compile(r'^(Mon|Tue|Wed|Thu|Fri|Sat|Sun), ([0-9]{2}) (Jan|Feb|Mar|Apr|May|Jun|Jul|Aug|Sep|Oct|Nov|Dec) '
                  r'([0-9]{4}) ([0-9]{2}):([0-9]{2}):([0-9]{2}) GMT$')


def m_parse_date(s):
    """IMF-fixdate -> epoch seconds, or None when invalid."""
    m = _IMF.match(s)
    if not m:
        return None
    import calendar
    d, mon, y = int(m.group(2)), _MONTHS.index(m.group(3)) + 1, int(m.group(4))
    hh, mm, ss = int(m.group(5)), int(m.group(6)), int(m.group(7))
    if y < 1 or not 1 <= d <= calendar.monthrange(y, mon)[1] or hh > 23 or mm > 59 or ss > 60:
        return None
    ts = calendar.timegm((y, mon, d, hh, mm, min(ss, 59), 0, 0, 0))
    if _DAYS[calendar.weekday(y, mon, d)] != m.group(1):
        return None
    return ts


def m_clean(rem):
    if not rem or len(rem) > 512:
        return False
    if rem != rem.strip() or rem.endswith('.') or '..' in rem:
        return False     # '..' anywhere: dot-segment look-alikes ('a..txt', '....') count as hostile spellings
    if any(c in _BAD_CHARS for c in rem):
        return False
    for seg in rem.split('/'):
        if seg in ('', '.', '..'):
            return False
    return True


def m_resolve(rem):
    """Lexical POSIX resolution of the remainder below the directory.
    Returns the relative path (tuple of names) or None when it ever climbs above the directory."""
    stack = []
    for seg in rem.split('/'):
        if seg in ('', '.'):
            continue
        if seg == '..':
            if not stack:
                return None
            stack.pop()
        else:
            stack.append(seg)
    return tuple(stack)


class Route:
    """One add_static_route() call, symbolic: directory in {'root', 'root2'}; fallback in
    {None, 'in', 'out'}."""

    def __init__(self, prefix, directory='root', fallback=None, downloadable=False):
        self.prefix, self.directory, self.fallback, self.downloadable = prefix, directory, fallback, downloadable

    def desc(self):
        return [self.prefix, self.directory, self.fallback, self.downloadable]


def m_files(spec_inside, spec_outside, directory):
    if directory == 'root':
        return spec_inside
    return {k[len('root2/'):]: v for k, v in spec_outside.items() if k.startswith('root2/')}


def m_mtime(name):
    return T0   # floor of every fixture mtime (frac.txt is T0 + 0.75 s)


def m_range(value, size):
    """-> list of permitted outcomes: ('FULL',) ('PART', f, l) ('UNSAT',) ('BAD',)"""
    if value is None:
        return [('FULL',)]
    if '=' not in value:
        return [('BAD',), ('FULL',), ('UNSAT',)]
    unit, _, rset = value.partition('=')
    if unit != 'bytes':
        if unit.lower() == 'bytes':
            return [('FULL',)] + [o for o in m_range('bytes=' + rset, size) if o[0] in ('PART', 'UNSAT')]
        if re.match(r"^[!#$%&'*+.^_`|~0-9A-Za-z-]+$", unit):
            return [('FULL',)]
        return [('BAD',), ('FULL',), ('UNSAT',)]
    invalid = [('BAD',), ('UNSAT',), ('FULL',)]
    if ',' in rset:
        return invalid
    m = re.match(r'^([0-9]+)-([0-9]*)$', rset)
    if m:
        f = int(m.group(1))
        l = int(m.group(2)) if m.group(2) else None
        if l is not None and l < f:
            return invalid
        if size == 0:
            return [('FULL',), ('UNSAT',)]
        if f >= size:
            return [('UNSAT',)]
        return [('PART', f, size - 1 if l is None else min(l, size - 1))]
    m = re.match(r'^-([0-9]+)$', rset)
    if m:
        s = int(m.group(1))
        if s == 0:
            return [('UNSAT',), ('BAD',)]
        if size == 0:
            return [('FULL',), ('UNSAT',)]
        return [('PART', max(0, size - s), size - 1)]
    return invalid


def m_expect(spec, routes, method, raw_path, rng, ims):
    """-> (permitted, info): permitted = list of expectation dicts
    {status, body (bytes|None), hdr {lower-name: value}, cd (True/False/None)}; info for classification."""
    inside, outside = spec
    path = m_decode_path(raw_path)
    route = None
    for r in reversed(routes):                       # LIFO
        pfx = r.prefix if r.prefix.endswith('/') else r.prefix + '/'
        if path.startswith(pfx) or (r.fallback is not None and path == pfx[:-1]):
            route = r
            break
    if route is None:
        return [dict(status=404, body=None, hdr={}, cd=None)], {'cls': 'no-route'}
    if method == 'OPTIONS':
        return [dict(status=200, body=b'', hdr={'allow': 'GET'}, cd=None)], {'cls': 'options'}
    rem = path[len(pfx):]
    files = m_files(inside, outside, route.directory)
    if route.fallback == 'in':
        fb = ('index.html', files['index.html'])
    elif route.fallback == 'out':
        fb = ('fallback.html', outside['fallback.html'])
    else:
        fb = None
    clean = m_clean(rem)
    rel = m_resolve(rem)
    target = None
    if rel is not None and '/'.join(rel) in files:
        target = ('/'.join(rel), files['/'.join(rel)])
    notfound = dict(status=404, body=None, hdr={}, cd=None)
    info = {'cls': 'clean' if clean else 'hostile', 'target': target[0] if target else None}
    if clean:
        served = [target] if target else ([fb] if fb else [None])
    else:
        served = [None]
        if fb:
            served.append(fb)
        if target:
            served.append(target)
    permitted = []
    for sv in served:
        if sv is None:
            permitted.append(notfound)
            continue
        name, data = sv
        permitted.extend(m_file_response(route, method, name, data, rng, ims))
    return permitted, info


def m_parse_date_lenient(s):
    """Spellings a robust recipient may still read (RFC 9110 5.6.7 encourages it): letter case, repeated blanks,
    a day of month without the leading zero.  -> epoch seconds or None."""
    parts = s.replace(',', ', ').split()
    if len(parts) != 6:
        return None
    day, dom, mon, year, clock, zone = parts
    if not dom.isdigit() or len(dom) > 2:
        return None
    return m_parse_date('%s %02d %s %s %s %s' % (day.rstrip(',').capitalize() + ',', int(dom), mon.capitalize(), year, clock, zone.upper()))


def lenient_styles(ts):
    d = m_http_date(ts)
    out = {'lower': d.lower(), 'upper': d.upper(), 'dspace': d.replace(', ', ',  ')}
    if d[5] == '0':
        out['nopad'] = d[:5] + d[6:]
    return out


def lenient_ims_table():
    """{header value: (style, 'equal' | 'after')} for the lenient spellings of the fixture mtime and one second later."""
    out = {}
    for which, ts in (('equal', T0), ('after', T0 + 1)):
        for style, v in lenient_styles(ts).items():
            out[v] = (style, which)
    return out


def m_file_response(route, method, name, data, rng, ims):
    size = len(data)
    head = method == 'HEAD'
    cd = bool(route.downloadable)
    out = []
    branches = [True]
    if ims is not None:
        d = m_parse_date(ims)
        if d is None:
            out.append(dict(status=400, body=None, hdr={}, cd=None))
            dl = m_parse_date_lenient(ims)
            if dl is not None and m_mtime(name) <= dl:
                # not a valid HTTP-date strictly speaking: ignoring it is right, reading it robustly is permitted too
                out.append(dict(status=304, body=b'', hdr={}, cd=None))
        elif m_mtime(name) <= d:
            return [dict(status=304, body=b'', hdr={}, cd=None)]
    for o in m_range(rng, size):
        if o[0] == 'FULL':
            out.append(dict(status=200, body=b'' if head else data, hdr={'content-length': str(size)}, cd=cd, nocr=True))
        elif o[0] == 'PART':
            f, l = o[1], o[2]
            out.append(dict(status=206, body=b'' if head else data[f:l + 1],
                            hdr={'content-length': str(l - f + 1), 'content-range': 'bytes %d-%d/%d' % (f, l, size)}, cd=cd))
        elif o[0] == 'UNSAT':
            out.append(dict(status=416, body=None, hdr={'content-range': 'bytes */%d' % size}, cd=None))
        else:
            out.append(dict(status=400, body=None, hdr={}, cd=None))
    return out


# ---------------------------------------------------------------------------
# request rendering
# ---------------------------------------------------------------------------
_RAW_OK = set("ABCDEFGHIJKLMNOPQRSTUVWXYZabcdefghijklmnopqrstuvwxyz0123456789-._~!$&'()*+,;=:@/ \\\"<>|")


def render(tokens, prefix, mode, fx_abs):
    """tokens: tuple of token strings (decoded text; '@abs' = absolute path of the outside secret, '@abs2' of the sibling's;
    tokens starting with 'raw:' are raw URL text used verbatim, e.g. invalid UTF-8 escapes).
    mode 0: minimal escaping; 1: every byte escaped; 2: separators escaped as well."""
    parts = []
    for t in tokens:
        if t == '@abs':
            t = fx_abs.lstrip('/')
        elif t == '@abs2':
            # absolute path of the secret in the SIBLING directory whose name starts with the served directory's name
            t = os.path.join(os.path.dirname(fx_abs), 'root2', 'secret.txt').lstrip('/')
        if t.startswith('raw:'):
            parts.append(t[4:])
            continue
        b = t.encode('utf-8')
        if mode == 0:
            parts.append(''.join(chr(c) if chr(c) in _RAW_OK else '%%%02X' % c for c in b))
        else:
            parts.append(''.join('%%%02x' % c for c in b))
    sep = '%2F' if mode == 2 else '/'
    base = prefix if prefix.endswith('/') else prefix + '/'
    if tokens and tokens[0].startswith('full:'):
        return tokens[0][5:]
    if tokens == ('@bare',):
        return prefix.rstrip('/') or '/'
    return base + sep.join(parts)


LONG = 'a' * 600
SEGMENTS = ['a.txt', 'sub', '..', '.', '', 'secret.txt', 'root2', 'b.bin', 'raw:%252e%252e', '..\\', '\\', 'a.txt\x00',
            'a.txt.', ' a.txt', '~', 'C:', LONG, '@abs', 'raw:%FF', '../', '@abs2']
SEG_CORE3 = ['a.txt', 'sub', '..', '.', '', 'secret.txt', 'root2', 'b.bin', 'deep', 'c.txt', '\\', '..\\', '@abs', 'raw:%2e%2e', '@abs2']
MUT_CHARS = ['.', '/', '\\', '\x00', ' ', '~', ':', '%', '?', '*', '|', '"', "'", '<', '>', '\x1f', '\x7f', '\x80',
             '\x9f', '\xa0', EACUTE, '\ufffd', 'b', '\t', '\n', '#']
EXTRA_PATHS = [('@bare',), ('x y.txt',), (EACUTE + '.txt',), ('empty',), ('index.html',), ('sub', 'deep', 'c.txt'),
               ('sub', 'deep'), ('sub', 'deep', ''), ('nope',), ('sub', 'nope'), ('a.txt', ''), ('a.txt', 'x'),
               ('raw:%C3',), ('raw:%ED%A0%80',), ('raw:a.txt%',), ('raw:a.txt%0',), ('raw:%2E%2E%2Fsecret.txt',),
               ('raw:..%5Csecret.txt',), ('raw:%2e%2e%5csecret.txt',), ('..', '..', '..', '..', '..', '..', '..', '..', 'etc', 'passwd'),
               ('sub', '..', '..', 'secret.txt'), ('sub', '..', 'a.txt'), ('sub', '.', 'b.bin'), ('.', 'a.txt'),
               ('..', 'root', 'a.txt'), ('sub', '..', '..', 'root2', 'secret.txt'), ('...',), ('....', 'secret.txt'),
               ('.a.txt',), ('a..txt',), ('sub', 'deep', '..', '..', '..', 'secret.txt'), ('raw:%00',), ('raw:a.txt%20',),
               ('raw:%20',), ('a' * 512,), ('a' * 513,), ('sub', 'a' * 508), ('sub', 'a' * 509)]


def mutants(name):
    seen, out = set(), []

    def add(s):
        if s not in seen and s != name:
            seen.add(s)
            out.append(s)
    for i in range(len(name) + 1):
        for c in MUT_CHARS:
            add(name[:i] + c + name[i:])
    for i in range(len(name)):
        add(name[:i] + name[i + 1:])
        for c in MUT_CHARS:
            add(name[:i] + c + name[i + 1:])
    return out


def path_tokens(tier):
    seqs = [()]
    for n in (1, 2):
        seqs += list(itertools.product(SEGMENTS, repeat=n))
    if tier == 'thorough':
        seqs += list(itertools.product(SEGMENTS, repeat=3))
        seqs += list(itertools.product(SEG_CORE3 + ['a.txt\x00', ' a.txt', 'a.txt.'], repeat=3))
        seqs += list(itertools.product(SEG_CORE3[:8], repeat=4))
    else:
        seqs += [s for s in itertools.product(SEG_CORE3[:8], repeat=3)]
    seqs += EXTRA_PATHS
    for base in ('a.txt', 'sub/b.bin'):
        for mname in mutants(base):
            if '\ufffd' in mname:
                # besides U+FFFD itself, the same name with an undecodable byte (0xFF) in that place
                seqs.append(('raw:' + '%FF'.join(''.join('%%%02X' % c for c in part.encode('utf-8'))
                                                 for part in mname.split('\ufffd')),))
            seqs.append((mname,))
    out, seen = [], set()
    for s in seqs:
        if s not in seen:
            seen.add(s)
            out.append(s)
    return out


RANGE_MALFORMED = ['bytes=', 'bytes=-', 'bytes=a-b', 'bytes=1', 'bytes=0-1-2', '0-1', 'bytes 0-1', 'bytes=0-x', '=0-1',
                   'bytes==0-1', 'bytes=--1', 'bytes=1-0', 'bytes=5-2', 'bytes=0-0,1-1', 'bytes=0-0,-1', 'bytes=,', '']


def range_values():
    vals = [None]
    for f in range(6):
        for l in range(f, 6):
            vals.append('bytes=%d-%d' % (f, l))
    vals += ['bytes=%d-' % f for f in range(6)]
    vals += ['bytes=-%d' % s for s in range(6)]
    vals += ['bytes=0-99999999999999999999', 'bytes=99999999999999999999-', 'bytes=-99999999999999999999',
             'bytes=00-01', 'items=0-1', 'items=garbage', 'Bytes=0-0', 'BYTES=9-']
    vals += RANGE_MALFORMED
    return vals


def ims_values():
    return [None, ('before', m_http_date(T0 - 1)), ('equal', m_http_date(T0)), ('after', m_http_date(T0 + 1)),
            ('past', 'Mon, 01 Jan 1900 00:00:00 GMT'), ('future', 'Fri, 31 Dec 9999 23:59:59 GMT'),
            ('bad', 'yesterday'), ('bad', m_http_date(T0)[:-4]), ('bad', 'Sun, 32 Sep 2001 01:46:40 GMT'), ('bad', '')] + \
        [('lenient-%s-%s' % sw, v) for v, sw in sorted(lenient_ims_table().items())]


def range_class(v):
    if v is None:
        return 'none'
    if v in RANGE_MALFORMED:
        return 'multi' if ',' in v and v != 'bytes=,' else 'malformed'
    if not v.startswith('bytes='):
        return 'unit-case' if v.lower().startswith('bytes=') else 'other-unit'
    r = v[6:]
    if r.startswith('-'):
        return 'suffix0' if int(r[1:]) == 0 else 'suffix'
    return 'first-' if r.endswith('-') else 'first-last'


def path_class(raw_path, prefix):
    p = m_decode_path(raw_path)
    base = prefix if prefix.endswith('/') else prefix + '/'
    if p == base[:-1]:
        return 'bare-prefix'
    if not p.startswith(base):
        return 'other-prefix'
    rem = p[len(base):]
    if m_clean(rem):
        return 'clean'
    feats = []
    segs = rem.split('/')
    if '..' in segs:
        feats.append('dotdot')
    if rem.startswith('/'):
        feats.append('abs')
    elif '' in segs[:-1]:
        feats.append('dblslash')
    if '\\' in rem:
        feats.append('backslash')
    if any(ord(c) < 0x20 or 0x80 <= ord(c) < 0xa0 or c == '\ufffd' for c in rem):
        feats.append('ctrl')
    if len(rem) > 512:
        feats.append('long')
    return '+'.join(feats) or 'other'


# ---------------------------------------------------------------------------
# execution on the real code
# ---------------------------------------------------------------------------
STACKS = ('wsgi', 'wsgi-fw', 'asgi')


class _FileWrapper:
    """wsgi.file_wrapper in the style of wsgiref.util.FileWrapper."""

    def __init__(self, filelike, blksize=8192):
        self.filelike, self.blksize = filelike, blksize
        if hasattr(filelike, 'close'):
            self.close = filelike.close

    def __iter__(self):
        return self

    def __next__(self):
        data = self.filelike.read(self.blksize)
        if data:
            return data
        raise StopIteration


class World:
    """Fixture + real apps for one list of routes."""

    def __init__(self, fx, routes):
        self.fx = fx
        self.routes = routes
        self.apps = {}
        for kind, cls in (('wsgi', falcon.App), ('asgi', falcon.asgi.App)):
            app = cls()
            for r in routes:
                d = fx.root if r.directory == 'root' else os.path.join(fx.top, 'root2')
                fb = None if r.fallback is None else ('index.html' if r.fallback == 'in' else fx.fallback_out)
                app.add_static_route(r.prefix, d, downloadable=r.downloadable, fallback_filename=fb)
            self.apps[kind] = app
        self.allowed = {}
        for r in routes:
            d = fx.root if r.directory == 'root' else os.path.join(fx.top, 'root2')
            self.allowed.setdefault(d, set())
            if r.fallback == 'out':
                self.allowed[d].add(fx.fallback_out)

    def request(self, stack, method, raw_path, rng, ims):
        global _REC
        headers = []
        if rng is not None:
            headers.append(('Range', rng))
        if ims is not None:
            headers.append(('If-Modified-Since', ims))
        install_hook()
        _REC = rec = []
        try:
            if stack == 'asgi':
                res = adrv.call(self.apps['asgi'], method=method, raw_path=raw_path, headers=headers)
            else:
                res = wdrv.call(self.apps['wsgi'], method=method, raw_path=raw_path, headers=headers,
                                file_wrapper=_FileWrapper if stack == 'wsgi-fw' else None)
        finally:
            _REC = None
        return res, rec


_IGNORE_ROOTS = None


def _ignored(path):
    """Opens caused by lazy imports (interpreter / falcon source trees) are not the route's."""
    global _IGNORE_ROOTS
    if _IGNORE_ROOTS is None:
        from mc.core import srcload
        roots = {os.path.realpath(p) for p in (sys.prefix, sys.base_prefix, sys.exec_prefix, srcload.REPO,
                                               os.path.dirname(os.__file__))}
        _IGNORE_ROOTS = tuple(r.rstrip('/') + '/' for r in roots)
    return path.startswith(_IGNORE_ROOTS)


def judge(world, rep, case, res, opens, permitted, info):
    """Compare one real execution with the model; report violations. Returns outcome class."""
    part, routes_d, stack, method, tokens, mode, raw_path, rng, ims = case
    fx = world.fx
    prefix = routes_d[0][0]
    pcls = path_class(raw_path, prefix)
    rcls = range_class(rng)
    icls = 'none' if ims is None else case_ims_class(ims)

    def viol(kind, explain, **extra):
        sig = {'kind': kind, 'part': part, 'stack': stack.split('-')[0]}
        if part == 'range':
            sig.update({'range': rcls, 'ims': icls})
        else:
            sig.update({'method': method, 'path': pcls})
        sig.update(extra)
        shown = raw_path.replace(fx.top, '<T>') if len(raw_path) < 200 else raw_path[:60].replace(fx.top, '<T>') + '...(%d chars)' % len(raw_path)
        rep.violation(sig, {'case': [part, routes_d, stack, method, list(tokens), mode, rng, ims], 'seed': rep.seed},
                      '%s %s routes=%r Range=%r If-Modified-Since=%r on %s: %s'
                      % (method, shown, routes_d, rng, ims, stack, explain))

    # 1. containment
    for ev, p in opens:
        if isinstance(p, bytes):
            p = os.fsdecode(p)
        if not isinstance(p, str):
            continue
        rp = os.path.realpath(p)
        ok = False
        for d, extra in world.allowed.items():
            if rp == d or rp.startswith(d + os.sep) or rp in extra:
                ok = True
        if not ok and not _ignored(rp):
            viol('open-outside-directory', 'the route opened %r (event %s), which is neither inside the served directory '
                 'nor the fallback file; response %r' % (rp.replace(fx.top, '<T>'), ev, res.code))
            break
    # 2. no escape, protocol clean
    if res.exc is not None:
        viol('exception-escaped', 'exception left the app: %r' % (res.exc,), exc=type(res.exc).__name__)
        return 'exc'
    if res.problems:
        viol('protocol', 'protocol monitor: %s' % res.problems[0])
    # 3. response in the permitted set
    code = res.code
    fails = []
    for exp in permitted:
        w = _match(exp, res)
        if w is None:
            return str(code)
        fails.append((exp, w))
    same = [(e, w) for e, w in fails if e['status'] == code]
    if not same:
        statuses = sorted({e['status'] for e in permitted})
        note = ' (body discloses an outside file)' if res.body.startswith(b'SECRET') else ''
        viol('status', 'model permits status %r (%s path, resolves to %r), got %r%s'
             % (statuses, info.get('cls'), info.get('target'), code, note), got=str(code))
    else:
        w = same[0][1]
        viol(w[0], 'status %r as permitted, but %s' % (code, w[1]), got=str(code))
    return str(code)


def case_ims_class(ims):
    d = m_parse_date(ims)
    if d is None:
        return 'bad'
    return 'before' if d < T0 else ('equal' if d == T0 else 'after')


def _match(exp, res):
    """None if the response satisfies the expectation, else (kind, text)."""
    if res.code != exp['status']:
        return ('status', 'status %r' % (res.code,))
    if exp['body'] is not None and res.body != exp['body']:
        return ('body', 'body is %r, model says %r' % (res.body[:40], exp['body'][:40]))
    for k, v in exp['hdr'].items():
        got = res.get_all(k)
        if got != [v]:
            return ('header-' + k, 'header %s is %r, model says %r' % (k, got, [v]))
    if exp.get('nocr') and res.get_all('content-range'):
        return ('header-content-range', 'Content-Range %r on a full response' % (res.get_all('content-range'),))
    if exp['cd'] is True and not any(v.startswith('attachment') for v in res.get_all('content-disposition')):
        return ('header-content-disposition', 'downloadable route without Content-Disposition: attachment')
    if exp['cd'] is False and res.get_all('content-disposition'):
        return ('header-content-disposition', 'Content-Disposition %r on a non-downloadable route' % (res.get_all('content-disposition'),))
    return None


def run_case(world, rep, part, stack, method, tokens, mode, rng, ims):
    fx = world.fx
    routes_d = [r.desc() for r in world.routes]
    raw_path = render(tuple(tokens), world.routes[0].prefix if part != 'lifo' else '/static', mode, fx.abs_secret)
    permitted, info = m_expect((fx.inside, fx.outside), world.routes, method, raw_path, rng, ims)
    res, opens = world.request(stack, method, raw_path, rng, ims)
    rep.trans()
    rep.trace()
    case = (part, routes_d, stack, method, tokens, mode, raw_path, rng, ims)
    out = judge(world, rep, case, res, opens, permitted, info)
    rep.outcome('%s:%s:%s' % (part, info.get('cls'), out))
    if opens:
        rep.nt(digest((part, routes_d, stack, method, tokens, mode, rng, ims)))
    return res, opens, permitted


# ---------------------------------------------------------------------------
# enumeration
# ---------------------------------------------------------------------------
def route_sets(prefix):
    out = []
    for fb in (None, 'in', 'out'):
        for dl in (False, True):
            out.append([[prefix, 'root', fb, dl]])
    return out


def build_shards(tier, seed):
    """Each shard: (part, routes_desc, list of (stack, method, tokens, mode, rng, ims))."""
    prefix = ('/static', '/files', '/pub')[seed % 3]
    shards = []
    toks = path_tokens(tier)
    short = [t for t in toks if len(t) <= 1]
    # PATH part
    for rd in route_sets(prefix):
        cases = []
        for t in toks:
            modes = (0, 1, 2) if (tier == 'thorough' or len(t) <= 2) else (0,)
            for mode in modes:
                if mode == 2 and len(t) < 2:
                    continue
                for stack in STACKS:
                    if stack == 'wsgi-fw' and not (tier == 'thorough' or len(t) <= 1):
                        continue
                    cases.append((stack, 'GET', t, mode, None, None))
        for t in short:
            for stack in STACKS:
                for method in ('HEAD', 'OPTIONS'):
                    cases.append((stack, method, t, 0, None, None))
        # conditional requests for every path spelling (directories, missing names, hostile forms): a validator can only
        # turn the answer for a file that WOULD be served into a 304, never a 404 into something else
        future = 'Fri, 31 Dec 9999 23:59:59 GMT'
        for t in toks:
            if len(t) <= 2:
                for stack in ('wsgi', 'asgi'):
                    cases.append((stack, 'GET', t, 0, None, future))
        for i in range(0, len(cases), 1500):
            shards.append(('path', rd, cases[i:i + 1500]))
    # prefix forms
    for pf in (prefix + '/', '/'):
        for fb in (None, 'out'):
            cases = [(stack, 'GET', t, 0, None, None) for t in toks if len(t) <= (2 if tier == 'thorough' else 1)
                     for stack in ('wsgi', 'asgi')]
            shards.append(('path', [[pf, 'root', fb, False]], cases))
    # look-alike prefixes and LIFO
    lifo_paths = ['/static/sub/b.bin', '/static/sub/secret.txt', '/static/a.txt', '/static/secret.txt', '/staticx/a.txt',
                  '/static2/secret.txt', '/static', '/static/', '/staticx', '/static2', '/static.', '/static%2F', '/stati/a.txt', '/stat', '/static/sub', '/static/sub/',
                  '/static/sub/deep/c.txt', '/Static/a.txt', '/', '/a.txt', '/static/sub/../a.txt', '/static/sub/../secret.txt',
                  '/static/sub/../sub/secret.txt', '/x/static/a.txt', '/static%2Fa.txt', '/static/sub%2Fb.bin']
    for fb in (None, 'out'):
        for rs in ([['/static', 'root', fb, False], ['/static/sub', 'root2', fb, True]],
                   [['/static/sub', 'root2', fb, True], ['/static', 'root', fb, False]],
                   [['/static', 'root2', fb, False], ['/static', 'root', fb, False]],
                   [['/static', 'root', fb, False], ['/static', 'root2', fb, False]],
                   [['/static', 'root', fb, False]]):
            cases = [(stack, m, ('full:' + p,), 0, None, None) for p in lifo_paths for stack in ('wsgi', 'asgi')
                     for m in ('GET', 'HEAD', 'OPTIONS')]
            shards.append(('lifo', rs, cases))
    # RANGE part
    sizes = range(0, 4) if tier == 'quick' else range(0, 5)
    targets = [('f%d.bin' % n,) for n in sizes]
    rvals, ivals = range_values(), ims_values()
    for dl in (False, True):
        for t in targets:
            cases = [(stack, m, t, 0, rv, iv[1] if iv else None) for rv in rvals for iv in ivals for m in ('GET', 'HEAD')
                     for stack in STACKS if not (dl and stack == 'wsgi-fw')]
            shards.append(('range', [[prefix, 'root', None, dl]], cases))
    # slices longer than two read blocks that end before the end of the file (and the whole big file)
    big_ranges = [None, 'bytes=5-20004', 'bytes=0-16384', 'bytes=1-39998', 'bytes=-30000', 'bytes=20000-', 'bytes=8191-24577']
    for dl in (False, True):
        cases = [(stack, m, ('big.bin',), 0, rv, None) for rv in big_ranges for m in ('GET', 'HEAD') for stack in STACKS
                 if not (dl and stack == 'wsgi-fw')]
        shards.append(('range', [[prefix, 'root', None, dl]], cases))
    for fb, t in (('out', ('nope',)), ('in', ('sub', 'nope')), (None, ('frac.txt',)), (None, ('sub', 'b.bin')), ('out', ('@bare',))):
        cases = [(stack, m, t, 0, rv, iv[1] if iv else None) for rv in rvals for iv in ivals for m in ('GET', 'HEAD')
                 for stack in ('wsgi', 'asgi')]
        shards.append(('range', [[prefix, 'root', fb, False]], cases))
    return shards


def run_shard(shard, rep):
    part, rd, cases = shard
    fx = Fixture(rep.seed)
    try:
        world = World(fx, [Route(*r) for r in rd])
        # warm-up outside the recording window: lazy imports on first use
        for stack in STACKS:
            world.request(stack, 'GET', '/__warm__', 'bytes=0-0', m_http_date(T0))
            world.request(stack, 'GET', rd[0][0].rstrip('/') + '/__warm__', 'x', 'y')
        seen = set()
        lenient, table = {}, lenient_ims_table()
        for i, (stack, method, tokens, mode, rng, ims) in enumerate(cases):
            res = run_case(world, rep, part, stack, method, tokens, mode, rng, ims)[0]
            if ims in table and rng is None:
                style, which = table[ims]
                lenient.setdefault((stack, method, tuple(tokens), mode, style), {})[which] = (res.code, ims)
            k = (method, tokens, mode, rng, ims)
            if k not in seen:
                seen.add(k)
                rep.state()
            if i % 997 == 0:
                rep.sample({'part': part, 'routes': rd, 'stack': stack, 'method': method,
                            'tokens': [t if len(t) < 40 else t[:20] + '...' for t in tokens], 'rendering': mode,
                            'range': rng, 'if_modified_since': ims})
        # one spelling style, one reading: a server that READS a lenient spelling one second after the file's mtime
        # (304) reads the same spelling AT the mtime too
        for (stack, method, tokens, mode, style), got in sorted(lenient.items()):
            if got.get('after', (None,))[0] == 304 and 'equal' in got and got['equal'][0] != 304:
                rep.violation({'part': part, 'kind': 'ims-reading-inconsistent', 'stack': stack, 'method': method, 'style': style},
                              {'case': [part, rd, stack, method, list(tokens), mode, None, got['equal'][1]],
                               'pair_after': got['after'][1], 'seed': rep.seed},
                              '%s %s %r: If-Modified-Since %r (mtime + 1 s, spelling style %s) is honoured with 304, but %r (the '
                              'mtime itself, same style) gives %r' % (stack, method, list(tokens), got['after'][1], style,
                                                                     got['equal'][1], got['equal'][0]))
    finally:
        fx.close()


def check(rep):
    shards = build_shards(rep.tier, rep.seed)
    toks = path_tokens(rep.tier)
    rep.bounds = {
        'path_tokens': len(SEGMENTS), 'token_sequences': len(toks),
        'max_sequence_length': '2 over all tokens, 3 over 8 core tokens' if rep.tier == 'quick'
        else '3 over all tokens (+%d-token core set), 4 over 8 core tokens' % (len(SEG_CORE3) + 3),
        'name_mutants': {b: len(mutants(b)) for b in ('a.txt', 'sub/b.bin')},
        'renderings': ['minimal escaping', 'every byte escaped', 'separators escaped'],
        'route_options': 'fallback {none, inside, outside} x downloadable {no, yes}; prefix forms /p, /p/, /; 2-route LIFO in both orders',
        'file_sizes': '0..3' if rep.tier == 'quick' else '0..4',
        'range_values': len(range_values()), 'if_modified_since_values': len(ims_values()),
        'methods': ['GET', 'HEAD', 'OPTIONS'], 'stacks': list(STACKS), 'shards': len(shards),
        'requests': sum(len(s[2]) for s in shards),
    }
    rep.rule = ('every request of the product is executed on the real WSGI and ASGI apps with all file opens audited and '
                'compared with the containment rule and the RFC 9110 range/conditional model; state = distinct '
                '(route set, method, decoded path, rendering, Range, If-Modified-Since); '
                'non-trivial = distinct requests during which the route opened at least one file')
    rep.assumptions = ['POSIX path semantics; no symlinks in the tree (excluded by the property)',
                       'opens below the interpreter prefix or the falcon source tree are lazy imports, not route behaviour',
                       'ASGI file reads run inline (VLoop.run_in_executor), so they are audited in-process',
                       'permitted *sets* where the statement does not decide: hostile spellings {404, fallback, contained file}; '
                       'invalid/multi Range {400, 416, 200}; bytes=-0 {416, 400}; invalid If-Modified-Since {400, ignored}; '
                       'zero-length file with Range {200 empty, 416}']
    par.run_shards(run_shard, shards, rep)


def replay(rec):
    from mc.core.report import Report
    part, rd, stack, method, tokens, mode, rng, ims = rec['case']
    rep = Report('C16', 'quick', int(rec.get('seed', 0)))
    fx = Fixture(rep.seed)
    try:
        world = World(fx, [Route(*r) for r in rd])
        for st in STACKS:
            world.request(st, 'GET', '/__warm__', 'bytes=0-0', m_http_date(T0))
        res, opens, permitted = run_case(world, rep, part, stack, method, tuple(tokens), mode, rng, ims)
        if rec.get('pair_after'):
            res2 = run_case(world, rep, part, stack, method, tuple(tokens), mode, rng, rec['pair_after'])[0]
            if res2.code == 304 and res.code != 304:
                rep.violation({'kind': 'ims-reading-inconsistent'}, rec, 'If-Modified-Since %r -> %r but %r -> 304'
                              % (ims, res.code, rec['pair_after']))
        det = {'status': res.code, 'headers': res.header_multi(), 'body': res.body[:80],
               'opens': [[e, str(p).replace(fx.top, '<T>')] for e, p in opens],
               'model_permits': [{k: v for k, v in e.items()} for e in permitted],
               'violations': [v['explain'] for v in rep.viol.values()]}
    finally:
        fx.close()
    return {'violation': bool(rep.viol), 'details': det}
