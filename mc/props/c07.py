"""C07 -- request body streams deliver exactly the declared body: no loss, no over-read.

SEQ engine to closure (stream state is finite and monotone) inside ENUM over
(data sent by the client, Content-Length, server input kind / event shape).

WSGI: `falcon.Request(env).bounded_stream` over a fake `wsgi.input` that can
supply bytes *beyond* Content-Length (the next pipelined request) and records
every call made to it.
ASGI: `falcon.asgi.Request(scope, receive, first_event).stream` (and the stream
class directly) over a fake `receive()` that records awaits and raises
WouldBlock when awaited although no event can ever arrive.

Oracle: invariants on a flat cursor over body' = supplied_data[:Content-Length]
  I1 concatenation of everything returned so far is a prefix of body'
  I2 a sized read returns <= size bytes; b'' only when nothing is left
  I3 the server is never asked for bytes beyond Content-Length (WSGI: every call on
     wsgi.input is sized and within the remaining budget, bytes taken <= CL; ASGI:
     receive() never awaited once CL bytes were received or the last event/disconnect
     was delivered)
  I4 eof reported => returned+discarded == len(body'); an unsized read returns all the rest
  I5 ASGI tell() == bytes returned + bytes discarded by exhaust
  I6 only the documented errors (closed stream -> ValueError family)
  I7 (buffered wsgi.input, io semantics) read(n)/readline(n) return the cursor's value
"""
import itertools

import falcon
import falcon.asgi
import falcon.stream as wsgi_stream_mod
import falcon.asgi.stream as asgi_stream_mod

from mc.core import par, seq, watchdog
from mc.core.canon import obj_state, module_globals_state
from mc.core.report import digest
from mc.drivers import wsgi as wsgid, asgi as asgid


class AbortConfig(Exception):
    pass


# ---------------------------------------------------------------------------
# fake servers
# ---------------------------------------------------------------------------
class RawInput:
    """wsgi.input.  `data` may extend beyond Content-Length.  kind 'buffered': full reads;
    'short': a read of n>1 returns n-1 bytes (legal for raw socket files)."""

    def __init__(self, data, kind, budget):
        self.data = data
        self.kind = kind
        self.pos = 0
        self.budget = budget        # Content-Length (0 if absent)
        self.bad = None

    def __mc_state__(self):
        return (self.pos, self.bad)

    def _ask(self, what, size):
        left = self.budget - self.pos
        if size is None or size < 0:
            self.bad = '%s called unsized on wsgi.input with %d byte(s) of budget left' % (what, left)
            return len(self.data)
        if size > left:
            self.bad = '%s(%d) on wsgi.input with only %d byte(s) of budget left' % (what, size, left)
        return size

    def read(self, size=-1):
        size = self._ask('read', size)
        if self.kind == 'short' and size > 1:
            size -= 1
        r = self.data[self.pos:self.pos + size]
        self.pos += len(r)
        return r

    def readline(self, size=-1):
        size = self._ask('readline', size)
        i = self.data.find(b'\n', self.pos)
        end = len(self.data) if i < 0 else i + 1
        end = min(end, self.pos + size)
        r = self.data[self.pos:end]
        self.pos = end
        return r

    def readlines(self, hint=-1):
        if hint is None or hint <= 0:
            self.bad = 'readlines(%r) called on wsgi.input: unbounded' % (hint,)
        out, total = [], 0
        while True:
            i = self.data.find(b'\n', self.pos)
            end = len(self.data) if i < 0 else i + 1
            line = self.data[self.pos:end]
            if not line:
                break
            self.pos = end
            out.append(line)
            total += len(line)
            if hint is not None and 0 < hint <= total:
                break
        if self.pos > self.budget and not self.bad:
            self.bad = 'readlines(%r) on wsgi.input read %d byte(s) past the budget' % (hint, self.pos - self.budget)
        return out

    def __iter__(self):
        return self

    def __next__(self):
        self.bad = 'wsgi.input iterated directly (unbounded line read)'
        i = self.data.find(b'\n', self.pos)
        end = len(self.data) if i < 0 else i + 1
        line = self.data[self.pos:end]
        if not line:
            raise StopIteration
        self.pos = end
        return line


class Receiver:
    def __init__(self, events):
        self.events = events
        self.i = 0
        self.ended = False       # final event or disconnect has been handed over
        self.bad = None
        self.got = 0             # body bytes handed over so far
        self.limit = None        # Content-Length if any

    def __mc_state__(self):
        return (self.i, self.ended, self.bad)

    async def __call__(self):
        if self.ended:
            self.bad = 'receive() awaited after the final event / disconnect was delivered'
            raise asgid.WouldBlock(self.bad)
        if self.limit is not None and self.got >= self.limit and self.i > 0:
            self.bad = 'receive() awaited although Content-Length bytes (%d) were already received' % self.limit
        if self.i >= len(self.events):
            self.bad = 'receive() awaited with no event left'
            raise asgid.WouldBlock(self.bad)
        ev = dict(self.events[self.i])
        self.i += 1
        if ev['type'] == 'http.disconnect' or not ev.get('more_body', False):
            self.ended = True
        self.got += len(ev.get('body', b''))
        return ev


def run_coro(coro):
    try:
        coro.send(None)
    except StopIteration as e:
        return e.value
    coro.close()
    raise RuntimeError('coroutine suspended although receive() never suspends')


# ---------------------------------------------------------------------------
# harnesses
# ---------------------------------------------------------------------------
class St:
    __slots__ = ('stream', 'src', 'pos', 'closed', 'iter', 'iterating', 'req')


class Base:
    def _v(self, kind, op, hist, exp, got, **extra):
        sig = {'kind': kind, 'stack': self.stack, 'op': op[0]}
        sig.update(extra)
        self.rep.violation(sig, {'cfg': self.cfg(), 'hist': [list(o) for o in (hist or ())], 'op': list(op)},
                           '%s history=%r op=%r: expected %r, got %r' % (self.describe(), list(hist or ()), op, exp, got))

    def replay(self, s, op):
        try:
            got = self._exec(s, op)
        except Exception:
            return
        self._account(s, op, got)


class WsgiHarness(Base):
    stack = 'wsgi'
    OPS = [('read', None), ('read', -1), ('read', 0), ('read', 1), ('read', 2), ('readline', None), ('readline', -1),
           ('readline', 2), ('readline', 0), ('readlines', None), ('readlines', 2), ('readlines', 0), ('next',), ('exhaust',),
           # io semantics: ANY negative size means "no limit of my own" -- the body's limit still applies
           ('read', -2), ('readline', -3), ('readlines', -2)]

    def __init__(self, data, cl, kind, rep, via):
        self.data, self.cl, self.kind, self.rep, self.via = data, cl, kind, rep, via
        self.budget = cl if cl is not None else 0
        self.body = data[:self.budget]

    def cfg(self):
        return {'stack': 'wsgi', 'data': self.data, 'cl': self.cl, 'kind': self.kind, 'via': self.via}

    def describe(self):
        return 'WSGI bounded stream (%s) data=%r Content-Length=%r wsgi.input=%s' % (self.via, self.data, self.cl, self.kind)

    def fresh(self):
        s = St()
        s.src = RawInput(self.data, self.kind, self.budget)
        if self.via == 'request':
            env = wsgid.make_environ(method='POST', body=None, content_length=self.cl)
            env['wsgi.input'] = s.src
            s.req = falcon.Request(env)
            s.stream = s.req.bounded_stream
        else:
            s.stream = wsgi_stream_mod.BoundedStream(s.src, self.budget)
        s.pos = 0
        s.closed = False
        s.iter = None
        s.iterating = False
        return s

    def ops(self, s):
        return self.OPS

    def canon(self, s):
        return (obj_state(s.stream), s.pos, module_globals_state(wsgi_stream_mod))

    def _exec(self, s, op):
        st = s.stream
        n = op[0]
        if n == 'read':
            return st.read() if op[1] is None else st.read(op[1])
        if n == 'readline':
            return st.readline() if op[1] is None else st.readline(op[1])
        if n == 'readlines':
            return st.readlines() if op[1] is None else st.readlines(op[1])
        if n == 'next':
            try:
                return next(st)
            except StopIteration:
                return ('StopIteration',)
        if n == 'exhaust':
            st.exhaust()
            return ('discarded',)
        raise AssertionError(op)

    def _account(self, s, op, got):
        if op[0] == 'exhaust':
            s.pos = max(s.pos, min(len(self.body), s.src.pos))
        elif isinstance(got, bytes):
            s.pos += len(got)
        elif isinstance(got, list):
            s.pos += sum(len(x) for x in got)

    def step(self, s, op, hist):
        rest = self.body[s.pos:]
        try:
            with watchdog.limit(1.0):
                got = self._exec(s, op)
        except watchdog.Hang:
            self._v('non-termination', op, hist, None, 'still running after 1 s')
            raise AbortConfig()
        except Exception as e:
            self._v('unexpected-exception', op, hist, None, '%s: %s' % (type(e).__name__, e), exc=type(e).__name__)
            return False
        name = op[0]
        size = op[1] if len(op) > 1 else None
        self.rep.outcome('wsgi:%s:%s' % (name, 'empty' if not got or got == ('StopIteration',) else 'data'))
        # I3 -- never ask the server for bytes beyond Content-Length
        if s.src.bad:
            self._v('over-request', op, hist, 'every call on wsgi.input sized and within the budget', s.src.bad)
            return False
        if s.src.pos > self.budget:
            self._v('over-read', op, hist, 'at most %d bytes taken' % self.budget, '%d bytes taken' % s.src.pos)
            return False
        flat = got
        if isinstance(got, list):
            if not all(isinstance(x, bytes) for x in got):
                self._v('return-type', op, hist, 'list of bytes', got)
                return False
            flat = b''.join(got)
        if isinstance(flat, bytes):
            # I1
            if not rest.startswith(flat):
                self._v('not-a-prefix', op, hist, 'a prefix of %r' % rest, got)
                return False
            # I2
            if name in ('read', 'readline') and size is not None and size >= 0 and len(flat) > size:
                self._v('sized-read-too-long', op, hist, '<= %d bytes' % size, got)
                return False
            if name in ('read', 'readline') and (size is None or size != 0) and flat == b'' and rest != b'' \
                    and len(s.src.data) >= len(self.body):
                self._v('empty-read-before-end', op, hist, 'some of %r' % rest, got)
                return False
            if self.kind == 'buffered':
                exp = None
                if name == 'read':
                    exp = rest if size is None or size < 0 else rest[:size]
                elif name == 'readline':
                    i = rest.find(b'\n')
                    line = rest if i < 0 else rest[:i + 1]
                    exp = line if size is None or size < 0 else line[:size]
                elif name == 'next':
                    i = rest.find(b'\n')
                    exp = rest if i < 0 else rest[:i + 1]
                elif name == 'readlines' and (size is None or size <= 0):
                    exp = rest
                if exp is not None and flat != exp:
                    self._v('io-semantics', op, hist, exp, got)
                    return False
                if name == 'readlines':
                    lines = got
                    for j, ln in enumerate(lines):
                        if not ln or (b'\n' in ln[:-1]) or (not ln.endswith(b'\n') and j != len(lines) - 1):
                            self._v('io-semantics', op, hist, 'a list of lines', got)
                            return False
                    if size is not None and size > 0 and len(flat) < min(size, len(rest)):
                        self._v('io-semantics', op, hist, 'at least %d bytes of lines' % min(size, len(rest)), got)
                        return False
        elif got == ('StopIteration',):
            if rest != b'' and len(s.src.data) >= len(self.body):
                self._v('iteration-stopped-early', op, hist, 'a line of %r' % rest, got)
                return False
        self._account(s, op, got)
        # I4
        eof = s.stream.eof
        if eof and s.pos != len(self.body):
            self._v('eof-early', op, hist, 'eof only after %d bytes' % len(self.body), 'eof after %d bytes' % s.pos)
            return False
        if name == 'exhaust' or (name == 'read' and (size is None or size < 0) and self.kind == 'buffered'):
            # (a client that sent fewer bytes than it declared is only detectable by a further, empty read)
            if not eof and len(self.data) >= self.budget:
                self._v('eof-not-reported', op, hist, True, eof)
                return False
        if hist is not None and s.pos not in (0, len(self.body)):
            self.rep.nt(digest(('w', self.data, self.cl, self.kind, self.via, s.pos, s.src.pos)))
        return True


def _flat_supplied(events):
    out = b''
    for ev in events:
        if ev['type'] == 'http.disconnect':
            break
        out += ev.get('body', b'')
        if not ev.get('more_body', False):
            break
    return out


class AsgiHarness(Base):
    stack = 'asgi'
    OPS = [('read', None), ('read', -1), ('read', 0), ('read', 1), ('read', 2), ('readall',), ('anext',), ('exhaust',),
           ('close',)]

    def __init__(self, events, cl, via, rep):
        self.events, self.cl, self.via, self.rep = events, cl, via, rep
        sup = _flat_supplied(events)
        self.body = sup if cl is None else sup[:cl]

    def cfg(self):
        return {'stack': 'asgi', 'events': self.events, 'cl': self.cl, 'via': self.via}

    def describe(self):
        return 'ASGI stream (%s) events=%r Content-Length=%r' % (self.via, self.events, self.cl)

    def fresh(self):
        s = St()
        evs = self.events
        if self.via == 'request':
            first = dict(evs[0])
            s.src = Receiver(evs)
            s.src.i = 1
            s.src.got = len(first.get('body', b''))
            s.src.ended = not first.get('more_body', False)
            hdrs = [] if self.cl is None else [('Content-Length', str(self.cl))]
            scope = asgid.make_scope(method='POST', headers=hdrs)
            s.req = falcon.asgi.Request(scope, s.src, first_event=first)
            s.src.limit = self.cl
            s.stream = s.req.stream
        else:
            s.src = Receiver(evs)
            s.src.limit = self.cl
            s.stream = asgi_stream_mod.BoundedStream(s.src, content_length=self.cl)
        s.pos = 0
        s.closed = False
        s.iter = None
        s.iterating = False
        return s

    def ops(self, s):
        if s.closed:
            return [o for o in self.OPS if o[0] != 'anext']
        if s.iterating:
            return [('anext',)]
        return self.OPS

    def canon(self, s):
        return (obj_state(s.stream), obj_state(s.iter) if s.iter is not None else None, s.pos, s.closed, s.iterating,
                module_globals_state(asgi_stream_mod))

    def _exec(self, s, op):
        st = s.stream
        n = op[0]
        if n == 'read':
            return run_coro(st.read() if op[1] is None else st.read(op[1]))
        if n == 'readall':
            return run_coro(st.readall())
        if n == 'exhaust':
            run_coro(st.exhaust())
            return ('discarded',)
        if n == 'close':
            st.close()
            return ('closed',)
        if n == 'anext':
            if s.iter is None:
                s.iter = st.__aiter__()
            try:
                return run_coro(s.iter.__anext__())
            except StopAsyncIteration:
                return ('StopAsyncIteration',)
        raise AssertionError(op)

    def _account(self, s, op, got):
        if op[0] == 'exhaust':
            s.pos = len(self.body)
        elif op[0] == 'close':
            s.closed = True
        elif isinstance(got, bytes):
            s.pos += len(got)
        if op[0] == 'anext':
            s.iterating = True

    def step(self, s, op, hist):
        rest = self.body[s.pos:]
        name = op[0]
        size = op[1] if len(op) > 1 else None
        try:
            with watchdog.limit(1.0):
                got = self._exec(s, op)
        except watchdog.Hang:
            self._v('non-termination', op, hist, None, 'still running after 1 s')
            raise AbortConfig()
        except asgid.WouldBlock as e:
            self._v('would-block', op, hist, 'no receive() once the body has ended', str(e))
            return False
        except ValueError as e:
            if s.closed and name != 'close':
                self.rep.outcome('asgi:%s:closed-error' % name)
                return False    # documented; terminal
            self._v('unexpected-exception', op, hist, None, '%s: %s' % (type(e).__name__, e), exc=type(e).__name__)
            return False
        except Exception as e:
            self._v('unexpected-exception', op, hist, None, '%s: %s' % (type(e).__name__, e), exc=type(e).__name__)
            return False
        if s.closed and name not in ('close',):
            self._v('closed-stream-operation-allowed', op, hist, 'ValueError', got)
            return False
        self.rep.outcome('asgi:%s:%s' % (name, 'data' if isinstance(got, bytes) and got else 'empty'))
        if s.src.bad:
            self._v('over-request', op, hist, 'no receive() beyond the declared body', s.src.bad)
            return False
        if isinstance(got, bytes):
            if not rest.startswith(got):
                self._v('not-a-prefix', op, hist, 'a prefix of %r' % rest, got)
                return False
            if name == 'read' and size is not None and size >= 0 and len(got) > size:
                self._v('sized-read-too-long', op, hist, '<= %d bytes' % size, got)
                return False
            if name == 'read' and size is not None and size > 0 and got == b'' and rest != b'':
                self._v('empty-read-before-end', op, hist, 'some of %r' % rest, got)
                return False
            if (name == 'readall' or (name == 'read' and (size is None or size == -1))) and got != rest:
                self._v('unsized-read-incomplete', op, hist, rest, got)
                return False
            if name == 'anext' and got == b'':
                self._v('empty-iteration-chunk', op, hist, 'non-empty chunk', got)
                return False
        elif got == ('StopAsyncIteration',):
            if rest != b'':
                self._v('iteration-stopped-early', op, hist, 'a chunk of %r' % rest, got)
            return False
        self._account(s, op, got)
        if name == 'close':
            return True
        st = s.stream
        tell = st.tell()
        if tell != s.pos:
            self._v('tell', op, hist, s.pos, tell)
            return False
        eof = st.eof
        if eof and s.pos != len(self.body):
            self._v('eof-early', op, hist, 'eof only after %d bytes' % len(self.body), 'eof after %d bytes' % s.pos)
            return False
        if name in ('exhaust', 'readall') or (name == 'read' and (size is None or size == -1)):
            if not eof:
                self._v('eof-not-reported', op, hist, True, eof)
                return False
        if hist is not None and s.pos not in (0, len(self.body)):
            self.rep.nt(digest(('a', repr(self.events), self.cl, self.via, s.pos, s.src.i)))
        return True


# ---------------------------------------------------------------------------
# configuration enumeration
# ---------------------------------------------------------------------------
def compositions(n):
    for k in range(0, n):
        for cuts in itertools.combinations(range(1, n), k):
            yield cuts


def chunks_of(data, cuts):
    out, p = [], 0
    for c in cuts:
        out.append(data[p:c])
        p = c
    out.append(data[p:])
    return out


def event_shapes(data):
    """Every composition of data into http.request events + malformed/edge variants + disconnects."""
    shapes = []
    n = len(data)
    comps = list(compositions(n)) if n else [()]
    for cuts in comps:
        ch = chunks_of(data, cuts) if n else [b'']
        evs = [{'type': 'http.request', 'body': c, 'more_body': i < len(ch) - 1} for i, c in enumerate(ch)]
        shapes.append(evs)
        # last event without the more_body key
        v = [dict(e) for e in evs]
        del v[-1]['more_body']
        shapes.append(v)
        if len(ch) <= 2:
            # an empty chunk inserted at each position; an event without the body key
            for k in range(len(evs) + 1):
                v = [dict(e) for e in evs]
                v.insert(k, {'type': 'http.request', 'body': b'', 'more_body': True})
                if k == len(evs):
                    v[-2]['more_body'] = True
                    v[-1]['more_body'] = False
                shapes.append(v)
                w = [dict(e) for e in v]
                del w[k]['body']
                shapes.append(w)
        # a client disconnect at every position (the remaining events are never delivered)
        if len(ch) <= 3:
            for k in range(0, len(evs) + 1):
                v = [dict(e) for e in evs[:k]]
                for e in v:
                    e['more_body'] = True
                v.append({'type': 'http.disconnect'})
                shapes.append(v)
    # de-duplicate, keep order
    seen, out = set(), []
    for s in shapes:
        k = repr(s)
        if k not in seen:
            seen.add(k)
            out.append(s)
    return out


def gen_configs(tier, seed):
    sym = [b'a', b'b', b'\n'] if seed % 2 == 0 else [b'x', b'b', b'\n']
    nw = 4 if tier == 'quick' else 6
    na = 3 if tier == 'quick' else 4
    cfgs = []
    for n in range(0, nw + 1):
        alpha = sym if n <= 4 else sym[1:]
        for tup in itertools.product(alpha, repeat=n):
            data = b''.join(tup)
            cls = [None] + list(range(0, n + 1)) + [n + 1, n + 3]
            for cl in cls:
                for kind in ('buffered', 'short'):
                    for via in (('request', 'direct') if n <= 2 else ('request',)):
                        cfgs.append(('wsgi', data, cl, kind, via))
    for n in range(0, na + 1):
        alpha = sym if n <= 3 else sym[:2]
        for tup in itertools.product(alpha, repeat=n):
            data = b''.join(tup)
            cls = [None] + list(range(0, n + 1)) + [n + 1, n + 3]
            for evs in event_shapes(data):
                for cl in cls:
                    vias = ['direct']
                    if evs[0]['type'] == 'http.request':
                        vias.append('request')
                    for via in vias:
                        cfgs.append(('asgi', evs, cl, via))
    return cfgs


def run_batch(batch, rep):
    for cfg in batch:
        if cfg[0] == 'wsgi':
            h = WsgiHarness(cfg[1], cfg[2], cfg[3], rep, cfg[4])
        else:
            h = AsgiHarness(cfg[1], cfg[2], cfg[3], rep)
        before = rep.c['states']
        if rep.c['hangs'] >= 3:
            rep.cap('worker batch abandoned after 3 non-terminating operations')
            break
        try:
            seq.bfs(h, rep)
        except AbortConfig:
            rep.c['hangs'] += 1
        rep.trace(rep.c['states'] - before)
        rep.c['configs_' + cfg[0]] += 1
        rep.sample({'cfg': h.cfg(), 'states': rep.c['states'] - before})


def check(rep):
    cfgs = gen_configs(rep.tier, rep.seed)
    rep.bounds = {'wsgi_body_len<=': 4 if rep.tier == 'quick' else 6, 'asgi_body_len<=': 3 if rep.tier == 'quick' else 4,
                  'content_length': 'absent, every value 0..len, len+1, len+3', 'configs': len(cfgs),
                  'history_length': 'unbounded (closure of the reachable state graph per configuration)',
                  'wsgi_ops': [list(map(str, o)) for o in WsgiHarness.OPS], 'asgi_ops': [list(map(str, o)) for o in AsgiHarness.OPS]}
    rep.rule = ('one BFS to closure per configuration (bytes sent x Content-Length x wsgi.input kind / ASGI event shape incl. '
                'missing keys, empty chunks, oversized data, disconnect at every position x via Request / direct); state = complete '
                'attribute state of the real stream + fake server cursor + model cursor; non-trivial = distinct states strictly '
                'inside the body (0 < returned < len)')
    rep.assumptions = ['mixing ASGI iteration with read() is documented as unsafe: after the first __anext__ only iteration continues',
                       'exact io-semantics checks (I7) only for a buffered wsgi.input that performs full reads',
                       'blocking is modelled by WouldBlock, not observed on sockets']
    bs = 60
    batches = [cfgs[i:i + bs] for i in range(0, len(cfgs), bs)]
    par.run_shards(run_batch, batches, rep)


def replay(rec):
    from mc.core.report import Report
    cfg = rec['cfg']
    rep = Report('C07')
    if cfg['stack'] == 'wsgi':
        h = WsgiHarness(cfg['data'], cfg['cl'], cfg['kind'], rep, cfg['via'])
    else:
        h = AsgiHarness(cfg['events'], cfg['cl'], cfg['via'], rep)
    s = h.fresh()
    hist = tuple(tuple(o) for o in rec['hist'])
    for o in hist:
        h.replay(s, o)
    try:
        h.step(s, tuple(rec['op']), hist)
    except AbortConfig:
        pass
    v = list(rep.viol.values())
    return {'violation': bool(v), 'details': [x['explain'] for x in v]}
