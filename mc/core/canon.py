"""Generic complete-state walk for canonical forms (DESIGN.md 1.3)."""
import types

_SCALARS = (bytes, int, bool, str, type(None), float)


def obj_state(o, depth=0, seen=None):
    if isinstance(o, _SCALARS):
        return o
    if depth > 8:
        return ('deep', type(o).__name__)
    if isinstance(o, (list, tuple)):
        return tuple(obj_state(x, depth + 1) for x in o)
    if isinstance(o, dict):
        return tuple(sorted((repr(k), obj_state(v, depth + 1)) for k, v in o.items()))
    if isinstance(o, (bytearray,)):
        return bytes(o)
    st = getattr(o, '__mc_state__', None)
    if st is not None:
        return ('mc', type(o).__name__, obj_state(st(), depth + 1))
    for attr, code in (('ag_frame', 'ag_code'), ('gi_frame', 'gi_code'), ('cr_frame', 'cr_code')):
        fr = getattr(o, attr, False)
        if fr is not False:
            if fr is None:
                return ('gen-done',)
            out = [getattr(o, code).co_name, fr.f_lasti]
            for k, v in sorted(fr.f_locals.items()):
                if k == 'self':
                    continue
                out.append((k, obj_state(v, depth + 1)))
            return tuple(out)
    if isinstance(o, (types.FunctionType, types.MethodType, types.BuiltinFunctionType, type)):
        slf = getattr(o, '__self__', None)
        if slf is not None and getattr(slf, '__mc_state__', None) is not None:
            return ('bound', obj_state(slf, depth + 1))
        return ('fn', getattr(o, '__qualname__', '?'))
    names = []
    for cls in type(o).__mro__:
        sl = getattr(cls, '__slots__', ())
        names.extend([sl] if isinstance(sl, str) else sl)
    names.extend(getattr(o, '__dict__', {}).keys())
    if not names:
        return ('obj', type(o).__name__)
    out = [type(o).__name__]
    for k in sorted(set(names)):
        if k in ('__weakref__', '__dict__'):
            continue
        try:
            v = getattr(o, k)
        except AttributeError:
            v = '<unset>'
        out.append((k, obj_state(v, depth + 1)))
    return tuple(out)


def module_globals_state(*mods):
    out = []
    for mod in mods:
        for k, v in sorted(vars(mod).items()):
            if isinstance(v, (bytearray, list, dict, set)) and not k.startswith('__'):
                out.append((mod.__name__, k, repr(v)))
    return tuple(out)
