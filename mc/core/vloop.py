"""AIO engine core: a hand-steppable asyncio event loop with a virtual clock.

* no selector, no threads: ``run_in_executor`` runs the function inline;
* ``run_until_complete`` works as usual (FIFO, deterministic);
* for exhaustive scheduling the explorer calls ``begin()``, then ``step()`` /
  environment actions, then ``end()``.
Blocking forever (nothing ready, nothing scheduled) raises ``Deadlock``.
"""
import asyncio
import heapq
import threading
from asyncio import events


class Deadlock(Exception):
    pass


class _Sel:
    def __init__(self, loop):
        self.loop = loop

    def select(self, timeout=None):
        if timeout is None:
            raise Deadlock('event loop would block forever: no ready handle and no timer')
        if timeout > 0:
            self.loop._now += timeout
        return []

    def close(self):
        pass


class VLoop(asyncio.BaseEventLoop):
    def __init__(self):
        super().__init__()
        self._now = 0.0
        self._selector = _Sel(self)
        self._clock_resolution = 1e-9
        self.errors = []
        self.set_exception_handler(self._on_error)

    def _on_error(self, loop, context):
        self.errors.append({k: (repr(v) if k != 'message' else v) for k, v in context.items()})

    def time(self):
        return self._now

    def _process_events(self, event_list):
        pass

    def _write_to_self(self):
        pass

    def run_in_executor(self, executor, func, *args):
        fut = self.create_future()
        try:
            fut.set_result(func(*args))
        except BaseException as e:  # noqa
            fut.set_exception(e)
        return fut

    # -- manual stepping ---------------------------------------------------
    def begin(self):
        self._thread_id = threading.get_ident()
        events._set_running_loop(self)

    def end(self):
        events._set_running_loop(None)
        self._thread_id = None

    def ready(self):
        return sum(1 for h in self._ready if not h._cancelled)

    def _promote_timers(self):
        while self._scheduled and self._scheduled[0]._cancelled:
            h = heapq.heappop(self._scheduled)
            h._scheduled = False
        while self._scheduled and self._scheduled[0]._when <= self._now:
            h = heapq.heappop(self._scheduled)
            h._scheduled = False
            self._ready.append(h)

    def step(self):
        """Run exactly one ready handle (FIFO). Returns False if none was ready."""
        self._promote_timers()
        while self._ready:
            h = self._ready.popleft()
            if h._cancelled:
                continue
            h._run()
            return True
        return False

    def next_timer(self):
        self._promote_timers()
        live = [h for h in self._scheduled if not h._cancelled]
        return min(h._when for h in live) if live else None

    def fire_next_timer(self):
        t = self.next_timer()
        if t is None:
            return False
        self._now = max(self._now, t)
        self._promote_timers()
        return True

    def run_until_idle(self, max_steps=100000, timers=True):
        n = 0
        while True:
            while self.step():
                n += 1
                if n > max_steps:
                    raise RuntimeError('run_until_idle: step budget exhausted')
            if not (timers and self.fire_next_timer()):
                return n


def run(coro, loop=None):
    """Run a coroutine to completion on a (fresh) VLoop; Deadlock if it blocks forever."""
    own = loop is None
    loop = loop or VLoop()
    try:
        return loop.run_until_complete(coro)
    finally:
        if own:
            loop.close()
