"""THR engine: real threads under a cooperative, deterministic scheduler.

* every controlled thread owns a semaphore ("baton"); exactly one runs at a time;
* scheduling points are `line` trace events in selected code objects (predicate on
  the frame's code), plus lock operations of `CoopLock`;
* at each point the Chooser picks who continues: option 0 = keep running the current
  thread (if it is still enabled), the others in ascending id order.  Switching away
  from a thread that could have continued is a *preemption* (cost 1); switching because
  the thread blocked or finished is free.  Exploration is preemption-bounded by the
  CHOICE engine (mc.core.choice.explore(run, bound)).
* `CoopLock` replaces threading.Lock in the code under test: a thread that cannot
  acquire it is not schedulable; "nobody schedulable but somebody unfinished" = deadlock.
"""
import sys
import threading


CURRENT = None   # scheduler of the execution in progress (set by the harness)


class Abort(BaseException):
    pass


class Deadlock(Exception):
    pass


class Scheduler:
    def __init__(self, chooser, select, max_points=20000):
        self.ch = chooser
        self.select = select          # predicate(code object) -> bool : trace lines of this function?
        self.threads = []             # list of _T
        self.current = None
        self.done = threading.Semaphore(0)
        self.aborting = False
        self.deadlock = None
        self.points = 0
        self.max_points = max_points
        self.switches = 0
        self.runaway = False
        self.wall_limit = 120
        self._tls = threading.local()

    # -- public -------------------------------------------------------------
    def run(self, fns):
        """Run the callables to completion under the scheduler. Returns list of (result, exception)."""
        self.threads = [_T(self, i, fn) for i, fn in enumerate(fns)]
        for t in self.threads:
            t.thread.start()
        first = self._pick(None, preemptible=False)
        self.current = first
        first.sem.release()
        if not self.done.acquire(timeout=float(self.wall_limit)):
            # a controlled thread is blocked on something the scheduler does not own (a real lock,
            # real I/O): this is a harness limitation, never a verdict about the code under test
            import os
            import sys
            sys.stderr.write('HARNESS-ERROR: controlled threads did not finish within %ss: a thread blocks on a primitive '
                             'outside the cooperative scheduler (rebind it to thr.CoopLock)\n' % self.wall_limit)
            sys.stderr.flush()
            os._exit(2)
        for t in self.threads:
            t.thread.join(10)
        return [(t.result, t.exc) for t in self.threads]

    def lock(self):
        return CoopLock(self)

    # -- internals ----------------------------------------------------------
    def _enabled(self):
        return [t for t in self.threads if not t.finished and t.blocked_on is None]

    def _pick(self, cur, preemptible):
        en = self._enabled()
        if not en:
            return None
        order = []
        if cur is not None and cur in en:
            order.append(cur)
        order += [t for t in en if t is not cur]
        if len(order) == 1:
            return order[0]
        cost = 1 if (preemptible and cur is not None and cur in en) else 0
        label = 'T%s:%s' % (cur.tid if cur else '-', ''.join(str(t.tid) for t in order))
        i = self.ch.choose(len(order), label, cost=cost)
        return order[i]

    def point(self):
        t = getattr(self._tls, 't', None)
        if t is None or self.aborting:
            if self.aborting and t is not None:
                raise Abort()
            return
        self.points += 1
        if self.points > self.max_points:
            self.runaway = True
            self._abort_all(t)
            raise Abort()
        nxt = self._pick(t, preemptible=True)
        if nxt is not t:
            self._switch(t, nxt)

    def _switch(self, cur, nxt):
        self.switches += 1
        self.current = nxt
        nxt.sem.release()
        cur.sem.acquire()
        if self.aborting:
            raise Abort()

    def _block(self, t, lock):
        t.blocked_on = lock
        nxt = self._pick(t, preemptible=False)
        if nxt is None:
            self.deadlock = 'thread %d waits for a lock held by thread %r and nobody else can run' % (t.tid, lock.owner)
            self._abort_all(t)
            raise Abort()
        self._switch(t, nxt)

    def _finish(self, t):
        t.finished = True
        if self.aborting:
            self._maybe_done()
            return
        nxt = self._pick(t, preemptible=False)
        if nxt is None:
            if any(not x.finished for x in self.threads):
                self.deadlock = 'threads %r are blocked forever' % [x.tid for x in self.threads if not x.finished]
                self._abort_all(t)
            self._maybe_done()
            return
        self.current = nxt
        nxt.sem.release()

    def _abort_all(self, cur):
        self.aborting = True
        for x in self.threads:
            if x is not cur and not x.finished:
                x.blocked_on = None
                x.sem.release()

    def _maybe_done(self):
        if all(x.finished for x in self.threads):
            self.done.release()


class _T:
    def __init__(self, sched, tid, fn):
        self.sched = sched
        self.tid = tid
        self.fn = fn
        self.sem = threading.Semaphore(0)
        self.finished = False
        self.blocked_on = None
        self.result = None
        self.exc = None
        self.thread = threading.Thread(target=self._main, daemon=True)

    def _main(self):
        s = self.sched
        s._tls.t = self
        self.sem.acquire()
        try:
            if s.aborting:
                raise Abort()
            sys.settrace(self._trace)
            try:
                self.result = self.fn()
            finally:
                sys.settrace(None)
        except Abort:
            self.exc = 'aborted'
        except BaseException as e:  # noqa
            self.exc = e
        finally:
            s._finish(self)

    def _trace(self, frame, event, arg):
        if event == 'call' and self.sched.select(frame.f_code):
            return self._local
        return None

    def _local(self, frame, event, arg):
        if event == 'line':
            self.sched.point()
        return self._local


class CoopLock:
    """Drop-in for threading.Lock inside the code under test."""

    def __init__(self, sched_or_none=None):
        self.sched = sched_or_none
        self.owner = None

    def acquire(self, blocking=True, timeout=-1):
        s = self.sched or CURRENT
        t = getattr(s._tls, 't', None) if s is not None else None
        if t is None:
            if self.owner is not None:
                raise RuntimeError('CoopLock contended outside the scheduler')
            self.owner = 'main'
            return True
        s.point()
        while self.owner is not None:
            if not blocking:
                return False
            s._block(t, self)
        self.owner = t.tid
        return True

    def release(self):
        self.owner = None
        s = self.sched or CURRENT
        if s is not None:
            for x in s.threads:
                if x.blocked_on is self:
                    x.blocked_on = None

    def __enter__(self):
        self.acquire()
        return self

    def __exit__(self, *a):
        self.release()

    def locked(self):
        return self.owner is not None
