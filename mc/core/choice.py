"""CHOICE engine: deviation-bounded DFS over choice sequences.

An execution is a deterministic function of a finite choice sequence.  The
harness calls ``ch.choose(n, label)`` wherever the environment or the generated
application may behave in more than one way; 0 is the default answer, any other
index is a deviation (cost 1 unless ``cost=`` says otherwise).
"""


class Nondeterminism(Exception):
    pass


class Chooser:
    __slots__ = ('prefix', 'points', 'choices', 'costs')

    def __init__(self, prefix=()):
        self.prefix = tuple(prefix)
        self.points = []   # (n, label, cost_per_alt)
        self.choices = []
        self.costs = []

    def choose(self, n, label='', cost=1):
        i = len(self.choices)
        if i < len(self.prefix):
            c = self.prefix[i]
            if c >= n:
                raise Nondeterminism('choice %d out of range %d at point %d (%s)' % (c, n, i, label))
        else:
            c = 0
        self.points.append((n, label, cost))
        self.choices.append(c)
        self.costs.append(cost if c else 0)
        return c


def explore(run, bound, on_exec=None, max_execs=None, start=None):
    """run(chooser) -> observation (any).  Enumerates every choice sequence whose
    total deviation cost is <= bound.  Returns (executions, new points, capped).
    start: list of prefixes whose subtrees are to be explored (default: the root)."""
    stack = [(tuple(p), None) for p in reversed(start)] if start is not None else [((), None)]
    n_exec = 0
    n_points = 0
    capped = False
    while stack:
        prefix, expect = stack.pop()
        ch = Chooser(prefix)
        obs = run(ch)
        n_exec += 1
        if expect is not None:
            # the recorded (n, label) of every replayed point must be the same
            for i, e in enumerate(expect):
                if i >= len(ch.points) or ch.points[i][:2] != e[:2]:
                    raise Nondeterminism('replay diverged at point %d: expected %r got %r'
                                         % (i, e, ch.points[i] if i < len(ch.points) else None))
        if on_exec is not None:
            on_exec(ch, obs)
        n_points += max(0, len(ch.points) - len(prefix))
        if max_execs is not None and n_exec >= max_execs:
            capped = True
            break
        spent = 0
        base = []
        for i in range(len(ch.points)):
            if i >= len(prefix):
                n, label, cost = ch.points[i]
                if spent + cost <= bound:
                    for alt in range(n - 1, 0, -1):
                        stack.append((tuple(ch.choices[:i]) + (alt,), tuple(ch.points[:i + 1])))
            spent += ch.costs[i]
    return n_exec, n_points, capped


def split(run, bound, depth, on_exec=None):
    """Explore the top `depth` levels of the tree in this process (calling on_exec for each
    execution) and return the prefixes of the unexplored subtrees below, so that they can be
    handed to workers as explore(..., start=[prefix]).  Every execution of the bounded tree is
    run exactly once overall: a node is executed where its prefix is first run."""
    level = [()]
    n_exec = 0
    for _ in range(depth):
        nxt = []
        for prefix in level:
            ch = Chooser(prefix)
            obs = run(ch)
            n_exec += 1
            if on_exec is not None:
                on_exec(ch, obs)
            spent = 0
            for i in range(len(ch.points)):
                if i >= len(prefix):
                    n, label, cost = ch.points[i]
                    if spent + cost <= bound:
                        for alt in range(1, n):
                            nxt.append(tuple(ch.choices[:i]) + (alt,))
                spent += ch.costs[i]
        level = nxt
        if not level:
            break
    return level, n_exec
