"""SEQ engine: explicit-state breadth-first search over operation histories.

Harness protocol (duck-typed object `h`):
    h.fresh()               -> new state object (real implementation + reference model)
    h.ops(s)                -> operations enabled in state s (list of hashable descriptors)
    h.step(s, op, hist)     -> execute op on implementation and model, compare;
                               return False if the state must not be expanded
                               (violation reported, or terminal by the model's rules)
    h.canon(s)              -> hashable COMPLETE state (implementation + model), see DESIGN 1.3
    h.replay(s, op)         -> re-execute op silently (defaults to step with hist=None)
States are rebuilt by replaying the history on a fresh object (live generators,
coroutines and tasks cannot be copied).
"""
import collections


def bfs(h, rep, max_depth=None, merge=True, max_states=None):
    s = h.fresh()
    seen = {h.canon(s)} if merge else None
    frontier = collections.deque([()])
    rep.state()
    deepest = 0
    replay = getattr(h, 'replay', None) or (lambda st, op: h.step(st, op, None))
    while frontier:
        hist = frontier.popleft()
        if max_depth is not None and len(hist) >= max_depth:
            rep.c['frontier_cut_by_depth'] += 1
            continue
        s0 = h.fresh()
        for o in hist:
            replay(s0, o)
        for op in h.ops(s0):
            s = h.fresh()
            for o in hist:
                replay(s, o)
            alive = h.step(s, op, hist)
            rep.trans()
            if alive is False:
                continue
            if merge:
                k = h.canon(s)
                if k in seen:
                    continue
                seen.add(k)
            rep.state()
            deepest = max(deepest, len(hist) + 1)
            if max_states is not None and rep.c['states'] >= max_states:
                rep.cap('max_states=%d' % max_states)
                return deepest
            frontier.append(hist + (op,))
    return deepest
