"""Import falcon from the *.py sources* of /repo's working tree.

/repo/falcon holds git-ignored Cython ``.so`` files that shadow the ``.py``
sources and cannot be rebuilt offline; see DESIGN.md section 2.  ``install()``
must run before the first ``import falcon``.

mode 'pure': only source files are importable below /repo/falcon (so
             ``falcon.cyutil.*`` is absent and every pure-Python fallback is
             what gets exercised).
mode 'cy'  : source files first, extension modules second (only the modules
             born from ``.pyx`` -- cyutil/{uri,reader,misc} -- come from .so).
"""
import importlib.machinery as _m
import os
import sys

REPO = os.environ.get('FALCON_REPO', '/repo')
PKG = os.path.join(REPO, 'falcon')
_installed = None


def install(mode=None):
    global _installed
    mode = mode or os.environ.get('MC_IMPORT_MODE', 'pure')
    if _installed:
        if _installed != mode:
            raise RuntimeError('srcload already installed as %s' % _installed)
        return
    if 'falcon' in sys.modules:
        raise RuntimeError('falcon imported before srcload.install()')
    sys.dont_write_bytecode = True
    os.environ['FALCON_VERIF'] = '1'
    src = (_m.SourceFileLoader, _m.SOURCE_SUFFIXES)
    ext = (_m.ExtensionFileLoader, _m.EXTENSION_SUFFIXES)
    details = [src] if mode == 'pure' else [src, ext]
    pkg_real = os.path.realpath(PKG)

    def hook(path):
        rp = os.path.realpath(path)
        if rp == pkg_real or rp.startswith(pkg_real + os.sep):
            return _m.FileFinder(path, *details)
        raise ImportError

    sys.path_hooks.insert(0, hook)
    sys.path_importer_cache.clear()
    # make sure /repo wins over any other installed falcon
    if REPO in sys.path:
        sys.path.remove(REPO)
    sys.path.insert(0, REPO)
    _installed = mode


def verify():
    """Every loaded falcon module that has a .py twin must come from it."""
    bad = []
    for name, mod in list(sys.modules.items()):
        if name != 'falcon' and not name.startswith('falcon.'):
            continue
        f = getattr(mod, '__file__', None) or ''
        if not os.path.realpath(f).startswith(os.path.realpath(PKG)):
            bad.append((name, f))
            continue
        if f.endswith('.so'):
            twin = f.split('.cpython')[0] + '.py'
            if os.path.exists(twin) or _installed == 'pure':
                bad.append((name, f))
    if bad:
        sys.stderr.write('HARNESS-ERROR: falcon modules not loaded from source: %r\n' % bad[:5])
        sys.exit(2)
