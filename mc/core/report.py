"""Counters, violation collection, known-findings matching, evidence files."""
import collections
import hashlib
import json
import os
import time

VERIF = os.path.dirname(os.path.dirname(os.path.dirname(os.path.abspath(__file__))))


def jsonable(x, depth=0):
    if depth > 12:
        return repr(x)
    if isinstance(x, (str, int, float, bool)) or x is None:
        return x
    if isinstance(x, (bytes, bytearray)):
        return {'$b': bytes(x).decode('latin-1')}
    if isinstance(x, dict):
        return {(k if isinstance(k, str) else repr(k)): jsonable(v, depth + 1) for k, v in x.items()}
    if isinstance(x, (list, tuple)):
        return [jsonable(v, depth + 1) for v in x]
    if isinstance(x, (set, frozenset)):
        return sorted((jsonable(v, depth + 1) for v in x), key=repr)
    return repr(x)


def unjson(x):
    if isinstance(x, dict):
        if set(x) == {'$b'}:
            return x['$b'].encode('latin-1')
        return {k: unjson(v) for k, v in x.items()}
    if isinstance(x, list):
        return [unjson(v) for v in x]
    return x


def digest(x):
    return int.from_bytes(hashlib.blake2b(repr(x).encode('utf-8', 'surrogatepass'), digest_size=8).digest(), 'big')


class Report:
    MAX_SAMPLES = 6

    def __init__(self, pid, tier='quick', seed=0):
        self.pid = pid
        self.tier = tier
        self.seed = seed
        self.c = collections.Counter()
        self.nontrivial = set()
        self.outcomes = collections.Counter()
        self.samples = []
        self.viol = {}
        self.caps = []
        self.bounds = {}
        self.rule = ''
        self.assumptions = []
        self.notes = []
        self.parts = {}
        self.t0 = time.time()

    # -- counting -----------------------------------------------------
    def state(self, n=1):
        self.c['states'] += n

    def trans(self, n=1):
        self.c['transitions'] += n

    def trace(self, n=1):
        self.c['traces'] += n

    def nt(self, key):
        """Register a distinct non-trivial case (by the harness's rule)."""
        self.nontrivial.add(key if isinstance(key, int) else digest(key))

    def outcome(self, cls, n=1):
        self.outcomes[cls if isinstance(cls, str) else repr(cls)] += n

    def sample(self, x):
        if len(self.samples) < self.MAX_SAMPLES:
            self.samples.append(jsonable(x))

    def cap(self, what):
        if what not in self.caps:
            self.caps.append(what)

    # -- violations ---------------------------------------------------
    def violation(self, sig, replay, explain=''):
        """sig: dict of short strings identifying the *kind* of failure
        (used for de-duplication and known-findings matching);
        replay: JSON-able dict sufficient to re-run the single case."""
        sig = {k: str(v) for k, v in sig.items()}
        key = tuple(sorted(sig.items()))
        ent = self.viol.get(key)
        if ent is None:
            self.viol[key] = {'sig': sig, 'count': 1, 'replay': jsonable(replay), 'explain': explain}
        else:
            ent['count'] += 1

    def merge(self, o):
        self.c.update(o.c)
        self.nontrivial |= o.nontrivial
        self.outcomes.update(o.outcomes)
        for s in o.samples:
            if len(self.samples) < self.MAX_SAMPLES and s not in self.samples:
                self.samples.append(s)
        for k, v in o.viol.items():
            if k in self.viol:
                self.viol[k]['count'] += v['count']
            else:
                self.viol[k] = v
        for c in o.caps:
            self.cap(c)
        for k, v in o.parts.items():
            if k in self.parts and isinstance(v, dict):
                for kk, vv in v.items():
                    if isinstance(vv, (int, float)) and isinstance(self.parts[k].get(kk), (int, float)):
                        self.parts[k][kk] += vv
                    else:
                        self.parts[k].setdefault(kk, vv)
            else:
                self.parts.setdefault(k, v)
        return self

    def sub(self):
        return Report(self.pid, self.tier, self.seed)


def load_known():
    p = os.path.join(VERIF, 'known_findings.json')
    if not os.path.exists(p):
        return []
    with open(p) as f:
        return json.load(f).get('findings', [])


def match_known(pid, sig, known):
    for ent in known:
        if ent.get('property') != pid or ent.get('status') != 'known':
            continue
        m = ent.get('match', {})
        ok = True
        for k, v in m.items():
            have = sig.get(k)
            if isinstance(v, list):
                if have not in [str(x) for x in v]:
                    ok = False
            elif have != str(v):
                ok = False
        if ok and m:
            return ent
    return None


def finish(rep, level='model_checking'):
    """Write replays + evidence, print the verdict lines, return exit code."""
    known = load_known()
    rdir = os.path.join(os.environ.get('MC_EVIDENCE_DIR') or VERIF, 'replays', rep.pid)
    new, old = [], {}
    for key, ent in sorted(rep.viol.items()):
        k = match_known(rep.pid, ent['sig'], known)
        if k is not None:
            old.setdefault(k['id'], [k, 0])
            old[k['id']][1] += ent['count']
        else:
            new.append(ent)
    for kid, (k, n) in sorted(old.items()):
        print('KNOWN-FINDING: property=%s %s [%s; %d occurrences in this run]' % (rep.pid, k['what'], kid, n))
    code = 0
    if new:
        os.makedirs(rdir, exist_ok=True)
        for ent in new[:20]:
            name = '%s-%016x.json' % (rep.tier, digest(sorted(ent['sig'].items())))
            path = os.path.join(rdir, name)
            with open(path, 'w') as f:
                json.dump({'property': rep.pid, 'sig': ent['sig'], 'count': ent['count'],
                           'explain': ent['explain'], 'replay': ent['replay']}, f, indent=1, sort_keys=True)
            print('VIOLATION property=%s replay=%s' % (rep.pid, path))
            print('  kind: %s' % json.dumps(ent['sig'], sort_keys=True))
            if ent['explain']:
                print('  ' + str(ent['explain'])[:600])
        if len(new) > 20:
            print('  ... and %d more violation kinds' % (len(new) - 20))
        code = 1
    wall = time.time() - rep.t0
    c = rep.c
    traces = c.get('traces', 0) or c.get('evaluations', 0)
    cov = {
        'states': int(c.get('states', 0)),
        'transitions': int(c.get('transitions', 0)),
        'traces_validated_against_impl': int(traces),
        'evaluations': int(c.get('evaluations', 0) or traces or c.get('transitions', 0)),
        'distinct_nontrivial': len(rep.nontrivial),
        'rule': rep.rule,
        'samples': rep.samples or ['(no sample recorded)'],
        'exhaustive': not rep.caps,
        'caps_hit': rep.caps,
        'bounds': jsonable(rep.bounds),
        'distinct_outcomes': len(rep.outcomes),
        'outcome_classes': dict(sorted(rep.outcomes.items(), key=lambda kv: -kv[1])[:40]),
        'counters': {k: int(v) for k, v in sorted(c.items())},
        'parts': jsonable(rep.parts),
        'violation_kinds_new': len(new),
        'known_findings_seen': sorted(old),
    }
    ev = {
        'property_id': rep.pid, 'tier': rep.tier, 'seed': int(rep.seed), 'level': level,
        'coverage': cov, 'assumptions': rep.assumptions, 'wall_s': round(wall, 3),
        'violations': len(new),
    }
    evdir = os.environ.get('MC_EVIDENCE_DIR') or os.path.join(VERIF, 'evidence')
    os.makedirs(evdir, exist_ok=True)
    with open(os.path.join(evdir, rep.pid + '.json'), 'w') as f:
        json.dump(ev, f, indent=1, sort_keys=True)
    print('%s %s seed=%d: states=%d transitions=%d traces=%d nontrivial=%d outcomes=%d exhaustive=%s wall=%.1fs -> %s'
          % (rep.pid, rep.tier, rep.seed, cov['states'], cov['transitions'], traces, len(rep.nontrivial),
             len(rep.outcomes), not rep.caps, wall, 'VIOLATION' if code else 'OK'))
    return code
