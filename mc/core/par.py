"""Deterministic sharded execution over forked workers."""
import multiprocessing as mp
import os
import sys
import traceback

_FUNC = None
_REP = None


def _call(shard):
    rep = _REP.sub()
    try:
        _FUNC(shard, rep)
    except BaseException:
        return ('ERR', traceback.format_exc(), shard)
    return ('OK', rep, None)


def run_shards(func, shards, rep, workers=None):
    """func(shard, subreport); results merged into rep in shard order."""
    global _FUNC, _REP
    shards = list(shards)
    workers = workers or int(os.environ.get('MC_WORKERS', '0')) or min(16, os.cpu_count() or 1)
    workers = max(1, min(workers, len(shards)))
    _FUNC, _REP = func, rep
    if workers == 1:
        for s in shards:
            func(s, rep)
        return rep
    ctx = mp.get_context('fork')
    with ctx.Pool(workers) as pool:
        for res in pool.imap(_call, shards, chunksize=1):
            if res[0] == 'ERR':
                sys.stderr.write('HARNESS-ERROR in shard %r:\n%s\n' % (res[2], res[1]))
                pool.terminate()
                sys.exit(2)
            rep.merge(res[1])
    return rep
