"""Per-operation watchdog: turns non-termination of the code under test into an
exception the harness can report (SIGALRM, main thread of each worker)."""
import contextlib
import signal


class Hang(BaseException):
    pass


def _handler(signum, frame):
    raise Hang('operation did not terminate within its time budget')


_armed = False


def arm():
    global _armed
    if not _armed:
        signal.signal(signal.SIGALRM, _handler)
        _armed = True


@contextlib.contextmanager
def limit(seconds=5.0):
    arm()
    signal.setitimer(signal.ITIMER_REAL, seconds)
    try:
        yield
    finally:
        signal.setitimer(signal.ITIMER_REAL, 0)
