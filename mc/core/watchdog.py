"""Per-operation watchdog: turns non-termination of the code under test into an
exception the harness can report.  The budget is CPU time of this process
(ITIMER_VIRTUAL / SIGVTALRM), not wall time: a busy machine must never turn
into a false "did not terminate" alarm."""
import contextlib
import signal


class Hang(BaseException):
    pass


def _handler(signum, frame):
    raise Hang('operation did not terminate within its CPU-time budget')


_armed = False


def arm():
    global _armed
    if not _armed:
        signal.signal(signal.SIGVTALRM, _handler)
        _armed = True


@contextlib.contextmanager
def limit(seconds=5.0):
    arm()
    signal.setitimer(signal.ITIMER_VIRTUAL, seconds)
    try:
        yield
    finally:
        signal.setitimer(signal.ITIMER_VIRTUAL, 0)
